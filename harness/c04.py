"""C04 — the EBB3 connection object latches its first error and then transmits nothing.

Correspondence: real `EBBMotionWrap` objects with a scripted fake port vs the Lean model
(`ebb3 run`), compared per call (bytes handed to write, number of reads, return value, err string,
port set, version/name/caller/port_name, escaped exception).  Oracle: the property statement, judged on
the implementation's own observations (independent of the model)."""
import json
from . import ebb3_fake as F

RULE = ('exhaustive: every request method x argument class x {no port, error pre-set, empty error string, both}; every '
        'request method x argument class x fault kind (timeout, blank lines, Err line, name+Err, wrong name, read '
        'exception, late exception, late wrong reply) at every read position and a write exception at every write position, '
        'each followed by two later requests rotating through all request methods; every ordered pair of request methods '
        'with an exception / error line in the first; connect/disconnect/reconnect histories; random histories (<= 30 '
        'calls) with random scripts. Non-trivial = the history contains a blocked call or a fault. Distinct by '
        '(state, concrete script, calls). Compared per call: bytes written, reads, err, port, version, caller, port_name always; '
        'return value and nickname for calls that start blocked (for unblocked calls they are C05 observables and are '
        'compared by the C05 check).')
TRUSTED = ['translator/pyio2lean.py (class mode) + lean/Plotink/PyObj.lean: every public method of EBB3/EBBMotionWrap is '
           'regenerated and run on every history of this module against the real classes (result, escaping exception class, '
           'bytes written, reads, port, err, version, name, caller, port_name must be identical)',
           'harness/ebb3_fake.py: fake serial port, script player, stubs for serial.Serial/comports/find_named (module '
           'attributes of plotink.ebb3_serial, only while connect()/find_first() run)',
           'modelled not verified: pyserial (write/readline/close/reset_input_buffer as script outcomes); '
           'packaging.version as release-segment order; str.strip/int()/f-string of ints (differentially tested each run)']
ASSUMPTIONS = ['arguments are of the documented types (ints, ASCII strings, None where optional)',
               'device bytes are ASCII (UnicodeDecodeError on non-ASCII device bytes is outside the alphabet)',
               'a port raises serial.SerialException, PortNotOpenError, or a plain OSError/IOError (all injected; one raise outcome in the model)',
               'find_first/find_named results and whether serial.Serial() opens are inputs of connect (C19/C15 model them)']
STAGED = []


def oracle(ctx, sc, recs, desc):
    """the statement: after the first recorded error (or without a port) every request writes nothing and returns
    its failure value; the recorded message is never replaced"""
    latched = sc.state.err
    port = sc.state.port
    req = set(F.request_methods())
    nontrivial = False
    closed_req = False          # disconnect() has returned (or reboot()/bootload() transmitted) and no connect() since
    for k, r in enumerate(recs):
        name = r['call'][0]
        blocked = (latched is not None) or (not port)
        where = dict(desc, call_index=k)
        # ---- closing: after disconnect() returns - however port.close() behaved - the object is not connected, and
        # every request until the next connect() writes nothing and returns its failure value
        f12 = any(c in 'ei' for c in F.close_fault_classes(recs, k))     # a plain OSError/IOError from close(): finding F12
        if name == 'connect':
            closed_req = False
        elif closed_req and name in req:
            nontrivial = True
            if r['written'] or r['nreads']:
                F.violate(ctx, f'{name} transmits after disconnect()', where, {'written': r['written'], 'reads': r['nreads']},
                          'a disconnected object writes and reads nothing until connect()',
                          key=F.F12_KEY if f12 else f'C04:{name}:writes-after-disconnect')
            if r['exc'] or not F.is_failure(r['ret']):
                F.violate(ctx, f'{name} does not return its failure value after disconnect()', where,
                          r['exc'] or repr(r['ret']), 'False / None / (None, None)',
                          key=F.F12_KEY if f12 else f'C04:{name}:no-failure-after-disconnect')
        closes_here = [ev[1] for ev in r['events'] if ev[0] == 'c']
        if name == 'disconnect':
            if any(c != 'o' for c in closes_here):
                nontrivial = True
            if r['exc']:
                F.violate(ctx, f'disconnect() raises {r["exc"]}' + (' and leaves the port set' if r['port'] else ''), where,
                          {'exc': r['exc'], 'close_outcomes': closes_here, 'port_still_set': r['port']},
                          'closing always remains possible: disconnect() returns and the object is not connected',
                          key=F.F12_KEY if f12 else 'C04:disconnect:raises')
            elif r['port']:
                F.violate(ctx, 'disconnect() returns but the object is still connected', where,
                          {'close_outcomes': closes_here, 'port_still_set': True},
                          'after disconnect() the object is not connected', key=F.F12_KEY if f12 else 'C04:disconnect:port-kept')
            closed_req = True       # the caller has disconnected: judged from here on, whatever the object did
        elif name in ('reboot', 'bootload') and any(ev[0] == 'w' and ev[2] for ev in r['events']):
            if any(c != 'o' for c in closes_here):
                nontrivial = True
            if r['port'] or r['exc']:
                F.violate(ctx, f'{name}() transmitted its request but ' + (f'raises {r["exc"]}' if r['exc'] else 'leaves the port open'),
                          where, {'ret': repr(r['ret']), 'exc': r['exc'], 'close_outcomes': closes_here, 'port_still_set': r['port']},
                          f'{name}() closes the port after a successful write', key=F.F12_KEY if f12 else f'C04:{name}:port-kept')
            closed_req = True
        elif name == 'connect' and not r['exc'] and r['ret'] is False and r['port'] and r['err'] is None:
            F.violate(ctx, 'connect() returns False but leaves a connected, error-free object', where,
                      {'close_outcomes': closes_here}, 'a failed connect() leaves the object not connected or with its error',
                      key=F.F12_KEY if f12 else 'C04:connect:failed-but-open')
        if blocked:
            nontrivial = True
            if name != 'connect' and r['written']:
                F.violate(ctx, f'{name} transmits although the object is blocked', where, {'written': r['written']},
                            'no bytes written', key=f'C04:{name}:writes-when-blocked')
            if name in req:
                if r['exc']:
                    F.violate(ctx, f'{name} raises although the object is blocked', where, r['exc'],
                                'the failure value is returned', key=f'C04:{name}:raises-when-blocked')
                elif not F.is_failure(r['ret']):
                    F.violate(ctx, f'{name} does not return a failure value although the object is blocked', where,
                                repr(r['ret']), 'False / None / (None, None)', key=f'C04:{name}:no-failure-value')
        # write / assignment granularity: the port records at every write whether an error is set - or was EVER
        # recorded - at that moment, and every assignment to `err` is logged (an error recorded and erased again
        # between two port operations never shows at I/O time)
        for ev in r['events']:
            if ev[0] == 'e' and ev[1] is not None and ev[2] != ev[1]:
                nontrivial = True
                F.violate(ctx, f'{name} ' + ('erases' if ev[2] is None else 'replaces') + ' the recorded error', where,
                          {'before': ev[1], 'assigned': ev[2]}, 'the first message is kept',
                          key=f'C04:{name}:message-replaced')
                break
        if name != 'connect':
            for ev in r['events']:
                if ev[0] == 'w' and (ev[3] or ev[4] or ev[6]):
                    nontrivial = True
                    F.violate(ctx, f'{name} transmits after an error was recorded' + ('' if ev[3] else ' (and erased again)')
                              if (ev[3] or ev[6]) else f'{name} transmits on a port that was already dropped', where,
                              {'written_after_error': ev[1], 'all_written': r['written'], 'err_now': r['err'],
                               'first_recorded': r['ever_err']},
                              'no bytes written once an error is recorded', key=f'C04:{name}:writes-after-error')
                    break
        if latched is not None and r['err'] != latched:
            F.violate(ctx, f'{name} replaces the recorded error', where, {'before': latched, 'after': r['err']},
                        'the first message is kept', key=f'C04:{name}:message-replaced')
        if latched is None and (r['err'] is not None or r['ever_err'] is not None):
            latched = r['err'] if r['err'] is not None else r['ever_err']     # recorded during the call (even if erased)
            nontrivial = True
        port = r['port']
    first = recs[0] if recs else None
    path = sc.tag.split('@')[0] + ':' + (first['call'][0] if first else '-')
    ctx.count((json.dumps(desc, sort_keys=True),), path, nontrivial)
    if sc.tag.startswith('fault:raise') and len(ctx.samples) < 4:
        ctx.sample({'scenario': desc, 'observed': [{'call': r['call'][0], 'ret': repr(r['ret']), 'written': r['written'],
                                                    'err': r['err']} for r in recs]})


def c04_ignore(sc, recs, k, r, outs):
    if F.escaped_known(r):
        return {'result'}
    return _c04_ignore(sc, recs, k, r, outs)


def _c04_ignore(sc, recs, k, r, outs):
    """C04's theorems speak about: everything a *blocked* call does, and for every call the bytes written, the
    reads, `err` and `port`.  The return value and the nickname attribute of a call that starts on a
    connected, error-free object belong to C05 and are compared there; for a blocked call the nickname is
    compared as "unchanged by this call" on both sides."""
    err = sc.state.err if k == 0 else recs[k - 1]['err']
    port = sc.state.port if k == 0 else recs[k - 1]['port']
    blocked = (err is not None) or (not port)
    if not blocked:
        return {'result', 'name'}
    impl_prev = sc.state.name if k == 0 else recs[k - 1]['name']
    model_prev = F.opt(sc.state.name) if k == 0 else outs[k - 1].split(' ')[7]
    if r['name'] == impl_prev and outs[k].split(' ')[7] == model_prev:
        return {'name'}
    return set()


def run(ctx):
    rng = ctx.rng
    ctx.gen_stream = True        # also run the source-regenerated methods (ebb3gen) on every history: must be identical
    if getattr(ctx, 'replay', None):
        data = json.load(open(ctx.replay))
        items = [v['input'] for v in data.get('violations', [])] + [d['input'] for d in data.get('model_vs_implementation', [])]
        scs = [F.from_json({k: v for k, v in it.items() if k != 'call_index'}) for it in items if 'calls' in it]
        F.run_scenarios(ctx, scs, oracle, 'C04', c04_ignore)
        return
    pub, table = F.check_method_table(ctx)
    if table:
        F.probe_unmodelled(ctx, [m for m in pub if m not in table])
    F.check_params(ctx)
    n = 0
    n += F.run_scenarios(ctx, F.corpus_scenarios('C04'), oracle, 'C04', c04_ignore)
    n += F.run_scenarios(ctx, F.blocked_scenarios(), oracle, 'C04', c04_ignore)
    n += F.run_scenarios(ctx, F.fault_scenarios(), oracle, 'C04', c04_ignore)
    n += F.run_scenarios(ctx, F.pair_scenarios(), oracle, 'C04', c04_ignore)
    n += F.run_scenarios(ctx, F.connect_scenarios(), oracle, 'C04', c04_ignore)
    n += F.run_scenarios(ctx, F.two_object_scenarios(), oracle, 'C04', c04_ignore)
    n += F.run_scenarios(ctx, F.close_fault_scenarios(), oracle, 'C04', c04_ignore)
    n += F.run_scenarios(ctx, F.random_close_scenarios(rng, ctx.n(400)), oracle, 'C04', c04_ignore)
    n += F.run_scenarios(ctx, F.random_scenarios(rng, ctx.n(5000)), oracle, 'C04', c04_ignore)
    ctx.notes.append(f'{len(pub)} public methods by reflection: ' + ' '.join(pub))
    ctx.notes.append('modelled only as far as connect() needs them (never touch the port): find_first (result of the '
                     'comports() scan is an input), parse_version / min_version (release-only versions), record_error (fully)')
    if ctx.__dict__.get('_oracle_only'):
        ctx.notes.append(f"{ctx.__dict__['_oracle_only']} histories with a scripted fault of port.close() / "
                         'port.reset_input_buffer() (every serial I/O exception class; in disconnect(), in the disconnect() '
                         'inside reboot()/bootload()/a failed connect(), followed by requests) are judged by the oracle only: '
                         "the Lean model's disconnect has no close-fault outcome, so there is no model / regenerated-code "
                         'comparison for them')
    ign = ctx.__dict__.get('_ignored_diffs', [])
    if ign:
        ctx.out_of_domain.append({'note': 'differences in observables owned by C05 (return value / nickname of unblocked calls)',
                                  'count': len(ign), 'methods': sorted({m for m, _ in ign})})
