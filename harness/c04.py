"""C04 — the EBB3 connection object latches its first error and then transmits nothing.

Correspondence: real `EBBMotionWrap` objects with a scripted fake port vs the Lean model
(`ebb3 run`), compared per call (bytes handed to write, number of reads, return value, err string,
port set, version/name/caller/port_name, escaped exception).  Oracle: the property statement, judged on
the implementation's own observations (independent of the model).  "An error" is what the statement lists (device error
reply, unexpected reply, timeout, USB exception), read off the port traffic by `scan_faults`: requests after it must write
nothing and fail whether or not the object wrote the message down ("latches its first error")."""
import json
from . import ebb3_fake as F

RULE = ('exhaustive: every request method x argument class x {no port, error pre-set, empty error string, both}; every '
        'request method x argument class x fault kind (timeout, blank lines, Err line, name+Err, wrong name, read '
        'exception, late exception, late wrong reply) at every read position and a write exception at every write position, '
        'each followed by two later requests rotating through all request methods; every ordered pair of request methods '
        'with an exception / error line in the first; compound faults inside one exchange - every request method x every '
        'read position x {one empty read, one blank line, mixed, 2, 3, 24 null reads} followed by {OK, wrong name, wrong name '
        'sharing the first letter, Err line, name+Err, exception} - alone and at every call position (1..6 healthy earlier '
        'requests) of a sequence; connect/disconnect/reconnect histories; random histories (<= 30 '
        'calls) with random scripts. Non-trivial = the history contains a blocked call or a fault. Distinct by '
        '(state, concrete script, calls). Compared per call: bytes written, reads, err, port, version, caller, port_name always; '
        'return value and nickname for calls that start blocked (for unblocked calls they are C05 observables and are '
        'compared by the C05 check).')
TRUSTED = ['translator/pyio2lean.py (class mode) + lean/Plotink/PyObj.lean: every public method of EBB3/EBBMotionWrap is '
           'regenerated and run on every history of this module against the real classes (result, escaping exception class, '
           'bytes written, reads, port, err, version, name, caller, port_name must be identical)',
           'harness/ebb3_fake.py: fake serial port, script player, stubs for serial.Serial/comports/find_named (module '
           'attributes of plotink.ebb3_serial, only while connect()/find_first() run)',
           'modelled not verified: pyserial (write/readline/close/reset_input_buffer as script outcomes); '
           'packaging.version as release-segment order; str.strip/int()/f-string of ints (differentially tested each run)']
ASSUMPTIONS = ['arguments are of the documented types (ints, ASCII strings, None where optional)',
               'device bytes are ASCII (UnicodeDecodeError on non-ASCII device bytes is outside the alphabet)',
               'a port raises serial.SerialException, PortNotOpenError, or a plain OSError/IOError (all injected; one raise outcome in the model)',
               'find_first/find_named results and whether serial.Serial() opens are inputs of connect (C19/C15 model them)']
STAGED = []


# ----------------------------------------------------------------------------------------------
# the statement's list of errors, read off the port traffic (independent of what the object recorded)
# ----------------------------------------------------------------------------------------------
RESTART_NAMES = ('r', 'rb', 'bl')     # requests after which the board restarts (finding F10: an I/O exception there is ignored)
F10_KEY = 'F10-reboot-io-ignored'


def scan_faults(events):
    """The statement names what an error is: "device error reply, unexpected reply, timeout, USB exception".  Each of them is
    visible in the port traffic of a request, whatever the object then does with it: a write()/readline() that raises; the
    first non-blank line read after a request carries `Err:` / does not begin with the request's name; the object stops
    waiting (writes again, or returns) after reading nothing but empty/blank lines for a request.  A request that is not read
    back at all (reboot/bootload) has no timeout.  Returns [(pos, kind, detail)]: the fault exists before event index `pos`
    of this call."""
    out = []
    pending, answered, blanks = None, True, 0

    def give_up(i):
        if pending is not None and not answered and blanks:
            out.append((i, 'timeout', {'request': pending, 'empty_or_blank_reads': blanks}))
    for i, ev in enumerate(events):
        if ev[0] == 'w':
            give_up(i)
            req = (ev[1][:-1] if ev[1].endswith('\r') else ev[1]).strip()
            if not ev[2]:
                out.append((i + 1, 'USB exception', {'request': req, 'raised_by': 'write', 'class': ev[5]}))
                pending, answered, blanks = None, True, 0
            else:
                pending, answered, blanks = req, False, 0
        elif ev[0] == 'r':
            if F.is_raise(ev[1]):
                out.append((i + 1, 'USB exception', {'request': pending, 'raised_by': 'read', 'class': ev[1].key,
                                                     'after_empty_or_blank_reads': blanks}))
                answered = True
            elif pending is not None and not answered:
                line = ev[1].strip()
                if not line:
                    blanks += 1
                    continue
                answered = True
                det = {'request': pending, 'reply': ev[1], 'after_empty_or_blank_reads': blanks}
                if 'Err:' in line:
                    out.append((i + 1, 'device error reply', det))
                elif not line.startswith(F.req_name(pending)):
                    out.append((i + 1, 'unexpected reply', det))
    give_up(len(events))
    return out


# C04's premise is "has RECORDED an error".  A fault of the statement's list that the object failed to record is a
# violation of C05 ("the failure is recorded"; ./check C05 reports it with a failing input), not of C04: with the strict
# premise (the default, and the reading of DESIGN section 0.4) such observations are logged as out-of-domain differences
# and never raise a C04 alarm.  UNLATCHED_IS_VIOLATION = True switches to the wider reading ("a fault is an error whether
# or not it was written down") - kept for experiments only.
UNLATCHED_IS_VIOLATION = False


def unlatched(ctx, what, where, observed, required, key=None):
    if UNLATCHED_IS_VIOLATION:
        F.violate(ctx, what, where, observed, required, key=key)
    elif len(ctx.out_of_domain) < 50:
        ctx.out_of_domain.append({'what': what + '  [unrecorded error: outside C04\'s premise "has recorded an error"; C05 judges it]',
                                  'key': key, 'input': where, 'observed': observed})


def fault_key(fault, default):
    kind, det = fault[1], fault[2]
    if kind == 'USB exception' and det.get('request') and F.req_name(det['request']).lower() in RESTART_NAMES:
        return F10_KEY
    return default


def oracle(ctx, sc, recs, desc):
    """the statement: after the first recorded error (or without a port) every request writes nothing and returns
    its failure value; the recorded message is never replaced"""
    latched = sc.state.err
    port = sc.state.port
    req = set(F.request_methods())
    nontrivial = False
    fault = None                # first error of the statement's list seen on the port in an earlier call (recorded or not)
    closed_req = False          # disconnect() has returned (or reboot()/bootload() transmitted) and no connect() since
    for k, r in enumerate(recs):
        name = r['call'][0]
        blocked = (latched is not None) or (not port)
        where = dict(desc, call_index=k)
        # ---- closing: after disconnect() returns - however port.close() behaved - the object is not connected, and
        # every request until the next connect() writes nothing and returns its failure value
        f12 = any(c in 'ei' for c in F.close_fault_classes(recs, k))     # a plain OSError/IOError from close(): finding F12
        if name == 'connect':
            closed_req = False
        elif closed_req and name in req:
            nontrivial = True
            if r['written'] or r['nreads']:
                F.violate(ctx, f'{name} transmits after disconnect()', where, {'written': r['written'], 'reads': r['nreads']},
                          'a disconnected object writes and reads nothing until connect()',
                          key=F.F12_KEY if f12 else f'C04:{name}:writes-after-disconnect')
            if r['exc'] or not F.is_failure(r['ret']):
                F.violate(ctx, f'{name} does not return its failure value after disconnect()', where,
                          r['exc'] or repr(r['ret']), 'False / None / (None, None)',
                          key=F.F12_KEY if f12 else f'C04:{name}:no-failure-after-disconnect')
        closes_here = [ev[1] for ev in r['events'] if ev[0] == 'c']
        if name == 'disconnect':
            if any(c != 'o' for c in closes_here):
                nontrivial = True
            if r['exc']:
                F.violate(ctx, f'disconnect() raises {r["exc"]}' + (' and leaves the port set' if r['port'] else ''), where,
                          {'exc': r['exc'], 'close_outcomes': closes_here, 'port_still_set': r['port']},
                          'closing always remains possible: disconnect() returns and the object is not connected',
                          key=F.F12_KEY if f12 else 'C04:disconnect:raises')
            elif r['port']:
                F.violate(ctx, 'disconnect() returns but the object is still connected', where,
                          {'close_outcomes': closes_here, 'port_still_set': True},
                          'after disconnect() the object is not connected', key=F.F12_KEY if f12 else 'C04:disconnect:port-kept')
            closed_req = True       # the caller has disconnected: judged from here on, whatever the object did
        elif name in ('reboot', 'bootload') and any(ev[0] == 'w' and ev[2] for ev in r['events']):
            if any(c != 'o' for c in closes_here):
                nontrivial = True
            if r['port'] or r['exc']:
                F.violate(ctx, f'{name}() transmitted its request but ' + (f'raises {r["exc"]}' if r['exc'] else 'leaves the port open'),
                          where, {'ret': repr(r['ret']), 'exc': r['exc'], 'close_outcomes': closes_here, 'port_still_set': r['port']},
                          f'{name}() closes the port after a successful write', key=F.F12_KEY if f12 else f'C04:{name}:port-kept')
            closed_req = True
        elif name == 'connect' and not r['exc'] and r['ret'] is False and r['port'] and r['err'] is None:
            F.violate(ctx, 'connect() returns False but leaves a connected, error-free object', where,
                      {'close_outcomes': closes_here}, 'a failed connect() leaves the object not connected or with its error',
                      key=F.F12_KEY if f12 else 'C04:connect:failed-but-open')
        if blocked:
            nontrivial = True
            if name != 'connect' and r['written']:
                F.violate(ctx, f'{name} transmits although the object is blocked', where, {'written': r['written']},
                            'no bytes written', key=f'C04:{name}:writes-when-blocked')
            if name in req:
                if r['exc']:
                    F.violate(ctx, f'{name} raises although the object is blocked', where, r['exc'],
                                'the failure value is returned', key=f'C04:{name}:raises-when-blocked')
                elif not F.is_failure(r['ret']):
                    F.violate(ctx, f'{name} does not return a failure value although the object is blocked', where,
                                repr(r['ret']), 'False / None / (None, None)', key=f'C04:{name}:no-failure-value')
        # ---- "latches its first error": a device error reply, an unexpected reply, a timeout or a USB exception IS an error
        # of the statement, whether or not the object wrote it down; every request after it writes nothing and returns its
        # failure value.  (Once the message is recorded the clauses above / below report the same thing under their own keys;
        # this one speaks when the error went unrecorded.  Faults inside connect()'s handshake are connect's business.)
        faults = [] if name == 'connect' else [{'kind': kd, 'in_call': k, 'method': name, 'pos': pos, **det}
                                               for pos, kd, det in scan_faults(r['events'])]
        if faults or fault:
            nontrivial = True
        if name != 'connect':
            for i, ev in enumerate(r['events']):
                if ev[0] != 'w' or ev[3] or ev[6]:
                    continue
                f = fault or next((x for x in faults if x['pos'] <= i), None)
                if f:
                    unlatched(ctx, f"{name} transmits after {f['kind']} ({f['method']}, call {f['in_call']}): the error was not latched",
                              where, {'fault': f, 'written_after_it': ev[1], 'all_written': r['written'], 'err_now': r['err']},
                              'the first error is latched and no bytes are written afterwards',
                              key=fault_key((0, f['kind'], f), f'C04:{name}:writes-after-unlatched-fault'))
                    break
        if fault and not blocked and name in req and (r['exc'] or not F.is_failure(r['ret'])):
            unlatched(ctx, f"{name} does not return its failure value after {fault['kind']} ({fault['method']}, call {fault['in_call']})",
                      where, {'fault': fault, 'ret': r['exc'] or repr(r['ret']), 'err_now': r['err']}, 'False / None / (None, None)',
                      key=fault_key((0, fault['kind'], fault), f'C04:{name}:no-failure-after-unlatched-fault'))
        if fault is None and faults:
            fault = faults[0]
        # write / assignment granularity: the port records at every write whether an error is set - or was EVER
        # recorded - at that moment, and every assignment to `err` is logged (an error recorded and erased again
        # between two port operations never shows at I/O time)
        for ev in r['events']:
            if ev[0] == 'e' and ev[1] is not None and ev[2] != ev[1]:
                nontrivial = True
                F.violate(ctx, f'{name} ' + ('erases' if ev[2] is None else 'replaces') + ' the recorded error', where,
                          {'before': ev[1], 'assigned': ev[2]}, 'the first message is kept',
                          key=f'C04:{name}:message-replaced')
                break
        if name != 'connect':
            for ev in r['events']:
                if ev[0] == 'w' and (ev[3] or ev[4] or ev[6]):
                    nontrivial = True
                    F.violate(ctx, f'{name} transmits after an error was recorded' + ('' if ev[3] else ' (and erased again)')
                              if (ev[3] or ev[6]) else f'{name} transmits on a port that was already dropped', where,
                              {'written_after_error': ev[1], 'all_written': r['written'], 'err_now': r['err'],
                               'first_recorded': r['ever_err']},
                              'no bytes written once an error is recorded', key=f'C04:{name}:writes-after-error')
                    break
        if latched is not None and r['err'] != latched:
            F.violate(ctx, f'{name} replaces the recorded error', where, {'before': latched, 'after': r['err']},
                        'the first message is kept', key=f'C04:{name}:message-replaced')
        if latched is None and (r['err'] is not None or r['ever_err'] is not None):
            latched = r['err'] if r['err'] is not None else r['ever_err']     # recorded during the call (even if erased)
            nontrivial = True
        port = r['port']
    first = recs[0] if recs else None
    path = sc.tag.split('@')[0] + ':' + (first['call'][0] if first else '-')
    ctx.count((json.dumps(desc, sort_keys=True),), path, nontrivial)
    if sc.tag.startswith('fault:raise') and len(ctx.samples) < 4:
        ctx.sample({'scenario': desc, 'observed': [{'call': r['call'][0], 'ret': repr(r['ret']), 'written': r['written'],
                                                    'err': r['err']} for r in recs]})


# ----------------------------------------------------------------------------------------------
# compound faults: a null read (timeout b'' / blank line) and THEN the fault, inside one exchange
# ----------------------------------------------------------------------------------------------
_COUNTS = {}


def _counts(name, args):
    if (name, args) not in _COUNTS:
        _COUNTS[(name, args)] = F.clean_counts(name, args)
    return _COUNTS[(name, args)]


def null_prefixes():
    """what may precede the reply inside the waiting window of one exchange"""
    e, b = ('empty',), ('line', '\r\n')
    return {'e': [e], 'b': [b], 'eb': [e, b], 'be': [('line', ' \r\n'), e], 'e2': [e, e], 'b3': [b, ('line', '\n'), ('line', '\t\r\n')],
            'e24': [e] * 24, 'b24': [b] * 24}


def late_tails():
    """the reply that ends the wait: every error of the statement that is a *line* or an exception"""
    P = F.DEFAULT_PAY
    return {'OK': [('line', 'OK\r\n')],                          # the legacy-syntax acknowledgement
            'wrong': [('wrong', dict(P, m=0))], 'wrong-data': [('wrong', dict(P, m=1))],
            'wrong-same-letter': [('wrong1', dict(P, m=0))],
            'err': [('err', P)], 'nameerr': [('nameerr', P)],
            'raise': [('raise', 'serial')], 'raise-oserror': [('raise', 'oserror')]}


def request_calls():
    """(method, args) for every request method: its first argument class, and for the free-text methods one request of
    each syntactic class (one letter, one letter with arguments, two letters, name ending in a digit, padded)"""
    ac = F.arg_classes()
    out = []
    for name in F.request_methods():
        for args in (ac[name] if name in ('command', 'query') else ac[name][:1]):
            args = F.normalise_args(name, args)
            if args and args[0] is None and name in ('command', 'query', 'write_nickname'):
                continue
            out.append((name, args))
    return out


def late_fault_scenarios():
    """every request method x every read position of its fault-free run x {one empty read, one blank line, mixed, 2, 3, 24
    null reads} x {OK, wrong name, wrong name sharing the first letter, Err line, name+Err, exception}: the fault arrives on
    a RETRIED read.  Followed by two later requests rotating through all request methods."""
    k = 0
    tails = late_tails()
    for name, args in request_calls():
        nr, _ = _counts(name, args)
        first_class = (name, args) == (name, F.normalise_args(name, F.arg_classes()[name][0]))
        for pos in range(nr):
            for pn, pre in null_prefixes().items():
                for tn, tail in tails.items():
                    if not first_class and (pn not in ('e', 'b') or tn not in ('OK', 'wrong-same-letter', 'err')):
                        continue
                    k += 1
                    yield F.Scenario(F.State(port=True), [F.GOOD] * pos + pre + tail + [F.GOOD] * 12, [],
                                     [(name, args)] + F.followups(k), f'late:{pn}+{tn}@r{pos}')


def safe_predecessors():
    """requests that leave a healthy object connected (reboot/bootload close the port)"""
    return [c for c in request_calls() if c[0] not in ('reboot', 'bootload')]


def position_scenarios(rng, n):
    """the compound fault at EVERY call position of a sequence: for each request method as the failing call, after 1..4
    healthy earlier requests (rotating through all request methods, replies aligned by the fault-free read counts), at a
    read position of the failing call, then 2..3 later requests; prefix / tail kinds rotate, `n` more are drawn at random"""
    pres, tails = list(null_prefixes().items()), list(late_tails().items())
    calls = request_calls()
    safe = safe_predecessors()
    k = 0

    def build(before, failing, pos, pre, tail, after, tag):
        skip = sum(_counts(*c)[0] for c in before)
        return F.Scenario(F.State(port=True), [F.GOOD] * (skip + pos) + pre + tail + [F.GOOD] * 12, [],
                          before + [failing] + after, tag)
    for fi, failing in enumerate(calls):
        nr, _ = _counts(*failing)
        if nr == 0:
            continue
        for depth in (1, 2, 3, 4):
            k += 1
            before = [safe[(fi * 5 + depth * 11 + j * 3) % len(safe)] for j in range(depth)]
            pn, pre = pres[k % 2] if depth < 3 else pres[k % len(pres)]          # mostly the single null read
            tn, tail = tails[(k // 2) % len(tails)]
            yield build(before, failing, (k % nr), pre, tail, F.followups(k), f'late-seq:{pn}+{tn}@c{depth}')
    for _ in range(n):
        depth = rng.randint(0, 6)
        before = [rng.choice(safe) for _ in range(depth)]
        failing = rng.choice(calls)
        nr, _ = _counts(*failing)
        pn, pre = rng.choice(pres[:2]) if rng.random() < 0.5 else rng.choice(pres)
        if rng.random() < 0.3:
            pre = [rng.choice([('empty',), ('line', rng.choice(['\r\n', '\n', ' ', '\t\r\n', '\r']))])
                   for _ in range(rng.choice([1, 2, 3, 5, 23, 24, 25]))]
            pn = f'mix{len(pre)}'
        tn, tail = rng.choice(tails)
        if rng.random() < 0.25:
            tail = [(tail[0][0], F.rand_payload(rng))] if tail[0][0] in ('wrong', 'wrong1', 'err', 'nameerr') else tail
        after = [F.rand_call(rng, include_conn=rng.random() < 0.2) for _ in range(rng.randint(1, 4))]
        yield build(before, failing, rng.randrange(nr) if nr else 0, pre, tail, after, f'late-seq-random:{pn}+{tn}@c{depth}')


def c04_ignore(sc, recs, k, r, outs):
    if F.escaped_known(r):
        return {'result'}
    return _c04_ignore(sc, recs, k, r, outs)


def _c04_ignore(sc, recs, k, r, outs):
    """C04's theorems speak about: everything a *blocked* call does, and for every call the bytes written, the
    reads, `err` and `port`.  The return value and the nickname attribute of a call that starts on a
    connected, error-free object belong to C05 and are compared there; for a blocked call the nickname is
    compared as "unchanged by this call" on both sides."""
    err = sc.state.err if k == 0 else recs[k - 1]['err']
    port = sc.state.port if k == 0 else recs[k - 1]['port']
    blocked = (err is not None) or (not port)
    if not blocked:
        return {'result', 'name'}
    impl_prev = sc.state.name if k == 0 else recs[k - 1]['name']
    model_prev = F.opt(sc.state.name) if k == 0 else outs[k - 1].split(' ')[7]
    if r['name'] == impl_prev and outs[k].split(' ')[7] == model_prev:
        return {'name'}
    return set()


def run(ctx):
    rng = ctx.rng
    ctx.gen_stream = True        # also run the source-regenerated methods (ebb3gen) on every history: must be identical
    if getattr(ctx, 'replay', None):
        data = json.load(open(ctx.replay))
        items = [v['input'] for v in data.get('violations', [])] + [d['input'] for d in data.get('model_vs_implementation', [])]
        scs = [F.from_json({k: v for k, v in it.items() if k != 'call_index'}) for it in items if 'calls' in it]
        F.run_scenarios(ctx, scs, oracle, 'C04', c04_ignore)
        return
    pub, table = F.check_method_table(ctx)
    if table:
        F.probe_unmodelled(ctx, [m for m in pub if m not in table])
    F.check_params(ctx)
    n = 0
    n += F.run_scenarios(ctx, F.corpus_scenarios('C04'), oracle, 'C04', c04_ignore)
    n += F.run_scenarios(ctx, F.blocked_scenarios(), oracle, 'C04', c04_ignore)
    n += F.run_scenarios(ctx, F.fault_scenarios(), oracle, 'C04', c04_ignore)
    n += F.run_scenarios(ctx, F.pair_scenarios(), oracle, 'C04', c04_ignore)
    n += F.run_scenarios(ctx, late_fault_scenarios(), oracle, 'C04', c04_ignore)
    n += F.run_scenarios(ctx, position_scenarios(rng, ctx.n(400)), oracle, 'C04', c04_ignore)
    n += F.run_scenarios(ctx, F.connect_scenarios(), oracle, 'C04', c04_ignore)
    n += F.run_scenarios(ctx, F.two_object_scenarios(), oracle, 'C04', c04_ignore)
    n += F.run_scenarios(ctx, F.close_fault_scenarios(), oracle, 'C04', c04_ignore)
    n += F.run_scenarios(ctx, F.random_close_scenarios(rng, ctx.n(400)), oracle, 'C04', c04_ignore)
    n += F.run_scenarios(ctx, F.random_scenarios(rng, ctx.n(5000)), oracle, 'C04', c04_ignore)
    ctx.notes.append(f'{len(pub)} public methods by reflection: ' + ' '.join(pub))
    ctx.notes.append('modelled only as far as connect() needs them (never touch the port): find_first (result of the '
                     'comports() scan is an input), parse_version / min_version (release-only versions), record_error (fully)')
    if ctx.__dict__.get('_oracle_only'):
        ctx.notes.append(f"{ctx.__dict__['_oracle_only']} histories with a scripted fault of port.close() / "
                         'port.reset_input_buffer() (every serial I/O exception class; in disconnect(), in the disconnect() '
                         'inside reboot()/bootload()/a failed connect(), followed by requests) are judged by the oracle only: '
                         "the Lean model's disconnect has no close-fault outcome, so there is no model / regenerated-code "
                         'comparison for them')
    ign = ctx.__dict__.get('_ignored_diffs', [])
    if ign:
        ctx.out_of_domain.append({'note': 'differences in observables owned by C05 (return value / nickname of unblocked calls)',
                                  'count': len(ign), 'methods': sorted({m for m, _ in ign})})
