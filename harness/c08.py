"""C08 - segment clipping (plot_utils.clip_code / clip_segment).

Stream (i), exact: the *real* clip_segment is run on fractions.Fraction coordinates (the code is
duck-typed, so every operation is exact) and compared bit for bit with the Lean model
(C08.clipSegment through the driver): accept flag, both endpoints, number of loop passes.
Stream (ii), float: the same kinds of cases on binary64 doubles over 12 decades of scale.
Both streams are judged by the same GEOMETRIC oracle, written from the property statement in exact
rational arithmetic (Liang-Barsky parameter interval on the rectangle shrunk / grown by
tol = 1e-9 * scale), independent of the model and of the outcode algorithm.
"""
import os, json, math
from fractions import Fraction as F
from .common import frac_str, Infra, VERIF

RULE = ('exact stream: every ordered pair of lattice points of a 9x8 grid around each of 6 rectangles (ordinary, '
        'rational, zero-width, zero-height, single point, offset) = all 9x9 realisable outcode pairs x {one edge, two '
        'edges, corner, grazing, parallel, zero length}; every exactly vertical / horizontal / zero-length segment in '
        'BOTH directions through, along and beside every edge and corner (7x7x7 per axis) of those and of random '
        'rectangles; per-outcode-pair structured cases (corner-aimed, grazing, four-clip diagonals, axis-parallel) and '
        'random rationals. Float stream: the same structures on doubles, scale 1e-6..1e6, a third aimed through a '
        'corner, ulp-perturbed grazing; a far stream translated by 1e3..1e12 with extents 1e-6..1 (nearly vertical / '
        'horizontal segments 0..8 ulps wide with the clipped edge between the ends, corner-aimed); magnitudes up to '
        '1e+-90; whole figures (dyadic lattice, structured and ordinary float cases) multiplied per axis by an exact power of '
        'two, coordinates 2^-1000..2^1012 (biased to both ends of that range and to 2^+-490..560 where a product of two '
        'lengths leaves the binary64 range), one in five with different exponents on the two axes (up to 2^600 apart). '
        'Sequence stream: every case again, consecutively, on long-lived segment/bounds list objects '
        'overwritten in place (both / bounds only / segment only, blocks of 40). Container stream: every case again with '
        'the segment / its points / the bounds / their corners in tuples instead of lists (all-tuple, list of tuple points, '
        'random mixtures) and, where the values coincide, ONE point object for both ends of the segment or for a segment end '
        'and a corner of the bounds; judged against the values passed. A case is non-trivial unless both '
        'ends are inside; distinct by (stream, segment, bounds)')
TRUSTED = ['hand-written model C08.clipSegment tied to plot_utils.clip_segment by exact differential execution on '
           'Fractions (accept flag, both endpoints, pass count) in this run',
           'Python fractions.Fraction arithmetic = exact rational arithmetic; Python comparison of Fractions/floats is exact',
           'modelled not verified: binary64 rounding inside clip_segment (runtime residue; covered by the float stream '
           'under the geometric oracle with tol = 1e-9*scale, never by the theorems)']
ASSUMPTIONS = ['coordinates are finite numbers; rectangle has x_min <= x_max and y_min <= y_max',
               'float stream: every coordinate is 0 or has magnitude within [1e-100, 1e100] (binary64 range effects - overflow of '
               'the slope quotient for coordinates that differ by subnormal amounts - are outside the domain, see '
               'out_of_domain_differences); generated magnitudes 1e-90 .. 1e90; tolerance 1e-9*scale with scale = largest '
               'absolute input coordinate (measured worst deviation of the unchanged code, 8.5e5 cases incl. 3e5 translated by '
               '1e3..1e12: 3.4e-16*scale)',
               'float stream, additionally: figures of comparable coordinates at any magnitude - per axis every non-zero coordinate '
               'and every non-zero gap between two coordinates (segment ends and rectangle sides together) within [2^-1000, 2^1012] '
               'and within a factor 2^100 of each other, across the two axes within a factor 2^700 (so neither the differences nor '
               'the slope quotient nor its product with a difference can leave the normal binary64 range); same oracle and '
               'tolerance (measured worst deviation of the unchanged code on 1.8e5 such figures: 2.5e-16*scale)',
               'the segment, its points, the bounds and their corners may be any mixture of lists and tuples, and one point object '
               'may occur twice in a call (the statement speaks of a segment and a rectangle, the docstring writes them as nested '
               'lists; the unchanged code only reads them by index)',
               'the statement is silent about the argument lists and about earlier results: a call that modifies its arguments '
               'or the object returned by an earlier call is reported as a model/implementation disagreement, not a violation']
STAGED = []

TOL_REL = F(1, 10 ** 9)
FLOAT_MIN, FLOAT_MAX = 1e-100, 1e100    # float-stream domain: every coordinate is 0 or has a magnitude in this range
MAX_PASSES = 5


class LoopGuard(BaseException):
    pass


# ----------------------------------------------------------------------------------------------
# the property oracle: exact Liang-Barsky, written from the statement (no outcodes, no iteration)
# ----------------------------------------------------------------------------------------------
TIE_SCALE = 5   # once the tie is broken the failing-input search runs at this multiple of the budget (default 10; this check is slow)

def lb_interval(seg, b, grow=0):
    """{t in [0,1] | On(t) inside the rectangle grown by `grow` (shrunk if negative)} as (t0,t1) or None"""
    (x1, y1), (x2, y2) = seg
    xmin, ymin, xmax, ymax = b[0][0] - grow, b[0][1] - grow, b[1][0] + grow, b[1][1] + grow
    if xmin > xmax or ymin > ymax:
        return None
    t0, t1 = F(0), F(1)
    dx, dy = x2 - x1, y2 - y1
    for p, q in ((-dx, x1 - xmin), (dx, xmax - x1), (-dy, y1 - ymin), (dy, ymax - y1)):
        if p == 0:
            if q < 0:
                return None
        else:
            c = F(q) / p
            if p < 0:
                if c > t1:
                    return None
                if c > t0:
                    t0 = c
            else:
                if c < t0:
                    return None
                if c < t1:
                    t1 = c
    return (t0, t1)


def on(seg, t):
    (x1, y1), (x2, y2) = seg
    return [x1 + t * (x2 - x1), y1 + t * (y2 - y1)]


def dist2_point_seg(p, seg):
    (x1, y1), (x2, y2) = seg
    dx, dy = x2 - x1, y2 - y1
    L2 = dx * dx + dy * dy
    if L2 == 0:
        return (p[0] - x1) ** 2 + (p[1] - y1) ** 2
    t = ((p[0] - x1) * dx + (p[1] - y1) * dy) / L2
    t = max(F(0), min(F(1), t))
    return (p[0] - x1 - t * dx) ** 2 + (p[1] - y1 - t * dy) ** 2


def outside_by(p, b):
    return max(b[0][0] - p[0], p[0] - b[1][0], b[0][1] - p[1], p[1] - b[1][1], 0)


def judge(seg, b, accept, out, tol, metrics=None):
    """the property statement as predicates; returns a list of (what, observed, required).
    All arguments are exact Fractions.  `metrics` (dict) collects the worst observed deviations / tol-free."""
    bad = []

    def m(k, v):
        if metrics is not None and v > metrics.get(k, 0):
            metrics[k] = v
    tol2 = tol * tol
    if not accept:
        iv = lb_interval(seg, b, -tol)
        if iv is not None:
            mid = on(seg, (iv[0] + iv[1]) / 2)
            bad.append(('rejected although part of the segment is inside the rectangle by more than the tolerance',
                        'accept=False', f'accept=True: the point {[frac_str(v) for v in mid]} of the segment is inside'))
        if metrics is not None:
            e = lb_interval(seg, b, 0)
            if e is not None:   # exact says accept: how deep is the deepest point? (depth of a convex piece: try ends+middle)
                deep = 0
                for t in (e[0], e[1], (e[0] + e[1]) / 2):
                    p = on(seg, t)
                    deep = max(deep, min(p[0] - b[0][0], b[1][0] - p[0], p[1] - b[0][1], b[1][1] - p[1]))
                m('reject_depth', deep)
        return bad
    q1, q2 = out
    # (a) on the input segment
    for i, q in enumerate((q1, q2)):
        d2 = dist2_point_seg(q, seg)
        m('off_segment2', d2)
        if d2 > tol2:
            bad.append((f'returned endpoint {i + 1} is not on the input segment',
                        f'{[frac_str(v) for v in q]}', 'within tolerance of the input segment'))
    # (b) inside the rectangle
    for i, q in enumerate((q1, q2)):
        o = outside_by(q, b)
        m('outside', o)
        if o > tol:
            bad.append((f'returned endpoint {i + 1} is outside the rectangle',
                        f'{[frac_str(v) for v in q]}', 'inside the rectangle (within tolerance)'))
    # (c) orientation: first endpoint corresponds to first
    dx, dy = seg[1][0] - seg[0][0], seg[1][1] - seg[0][1]
    L2 = dx * dx + dy * dy
    if L2 != 0:
        dot = (q2[0] - q1[0]) * dx + (q2[1] - q1[1]) * dy
        if dot < 0:
            m('backward2', dot * dot / L2)
            if dot * dot > tol2 * L2:
                bad.append(('returned segment has the opposite orientation of the input',
                            f'{[[frac_str(v) for v in q] for q in (q1, q2)]}', 'first endpoint corresponds to first'))
    # (d) covers all of the inside part (inside by more than tol)
    iv = lb_interval(seg, b, -tol)
    if iv is not None:
        for k, t in enumerate(iv):
            p = on(seg, t)
            d2 = dist2_point_seg(p, (q1, q2))
            m('uncovered2', d2)
            if d2 > tol2:
                bad.append(('returned segment does not cover all of the inside part',
                            f'{[[frac_str(v) for v in q] for q in (q1, q2)]}',
                            f'covers the inside point {[frac_str(v) for v in p]}'))
                break
        # and in the right order: the entry point is nearer to endpoint 1 than the exit point is (orientation of cover)
    # (e) accept only when something is inside
    if lb_interval(seg, b, tol) is None:
        bad.append(('accepted although no part of the segment is inside the rectangle', 'accept=True', 'accept=False'))
    if metrics is not None and lb_interval(seg, b, 0) is None:
        # exact says reject: how far outside is the nearest point of the segment?  (cheap bound: the returned points)
        m('accept_outside', max(outside_by(q1, b), outside_by(q2, b)))
    return bad


# ----------------------------------------------------------------------------------------------
# running the implementation
# ----------------------------------------------------------------------------------------------
class Impl:
    """the real clip_segment with a pass counter (clip_code is called exactly twice per loop pass)"""

    def __init__(self):
        from plotink import plot_utils as pu
        self.pu = pu
        self.calls = 0
        self.orig = pu.clip_code

        def counted(*a, **k):
            self.calls += 1
            if self.calls > 400:
                raise LoopGuard()
            return self.orig(*a, **k)
        self.counted = counted

        # long-lived argument objects for the sequence stream: mutated in place between calls
        self.seg_obj = [[0, 0], [0, 0]]
        self.bnd_obj = [[0, 0], [0, 0]]
        self.input_modified = None
        self.prev_result_changed = None
        self.last_ret = None

    def run(self, seg, b, reuse=''):
        """-> ('ok', accept, [[x,y],[x,y]], passes) | ('raise', repr, passes)
        reuse: 's' / 'b' / 'sb' - the segment / bounds argument is the SAME list object as in every earlier reuse
        call, overwritten in place with this case's numbers (the other one is a fresh list); afterwards
        `self.input_modified` tells whether the call changed its arguments and `self.prev_result_changed` whether
        the object returned by the PREVIOUS call (when it was not one of that call's own arguments) has changed"""
        a_seg = self.seg_obj if 's' in reuse else [list(seg[0]), list(seg[1])]
        a_b = self.bnd_obj if 'b' in reuse else [list(b[0]), list(b[1])]
        for i in (0, 1):
            for j in (0, 1):
                a_seg[i][j] = seg[i][j]
                a_b[i][j] = b[i][j]
        return self._call(a_seg, a_b, seg, b)

    def run_shaped(self, seg, b, shape, alias=''):
        """the same call with other argument CONTAINERS (the statement speaks of a segment and a rectangle, not of lists).
        shape: six letters 'l' (list) / 't' (tuple) for: the segment, its first point, its second point, the bounds,
        their first corner, their second corner.
        alias: '' | 'pp' - both ends of the segment are ONE point object (needs equal ends) | 's<i>c<j>' - end i of the
        segment IS the object that is corner j of the bounds (needs equal coordinates).  Judged against the values passed."""
        mk = lambda kind, vals: list(vals) if kind == 'l' else tuple(vals)      # noqa: E731
        pts = [mk(shape[1], seg[0]), mk(shape[2], seg[1])]
        cor = [mk(shape[4], b[0]), mk(shape[5], b[1])]
        if alias == 'pp':
            pts[1] = pts[0]
        elif alias:
            pts[int(alias[1])] = cor[int(alias[3])]
        return self._call(mk(shape[0], pts), mk(shape[3], cor), seg, b)

    def _call(self, a_seg, a_b, seg, b):
        self.calls = 0
        self.input_modified = None
        self.prev_result_changed = None
        ids = (id(a_seg), id(a_seg[0]), id(a_seg[1]), id(a_b), id(a_b[0]), id(a_b[1]))
        self.pu.clip_code = self.counted
        try:
            r = self.pu.clip_segment(a_seg, a_b)
            same = ids == (id(a_seg), id(a_seg[0]), id(a_seg[1]), id(a_b), id(a_b[0]), id(a_b[1])) and \
                all(len(o) == 2 for o in (a_seg, a_seg[0], a_seg[1], a_b, a_b[0], a_b[1])) and \
                all(a_seg[i][j] == seg[i][j] and type(a_seg[i][j]) is type(seg[i][j]) and
                    a_b[i][j] == b[i][j] and type(a_b[i][j]) is type(b[i][j]) for i in (0, 1) for j in (0, 1))
            if not same:
                self.input_modified = f'segment={a_seg!r} bounds={a_b!r}'
                self.seg_obj = [[0, 0], [0, 0]]; self.bnd_obj = [[0, 0], [0, 0]]
            # has this call changed the object the previous call returned?
            if self.last_ret is not None:
                obj, snap = self.last_ret
                try:
                    now = [[obj[0][0], obj[0][1]], [obj[1][0], obj[1][1]]]
                except Exception:
                    now = None
                if now != snap:
                    self.prev_result_changed = f'was {snap!r}, now {now!r}'
            self.last_ret = None
            try:
                ro = r[1]
                mine = (a_seg, a_seg[0], a_seg[1], a_b, a_b[0], a_b[1])
                if not any(o is m for o in (ro, ro[0], ro[1]) for m in mine):
                    self.last_ret = (ro, [[ro[0][0], ro[0][1]], [ro[1][0], ro[1][1]]])
            except Exception:
                pass
        except LoopGuard:
            return ('raise', 'no return after 200 loop passes (infinite loop)', self.calls // 2)
        except Exception as ex:
            return ('raise', f'{type(ex).__name__}: {ex}', (self.calls + 1) // 2)
        finally:
            self.pu.clip_code = self.orig
        passes = (self.calls + 1) // 2
        try:
            acc, s = r
            out = [[s[0][0], s[0][1]], [s[1][0], s[1][1]]]
            if acc is not True and acc is not False:
                return ('raise', f'accept flag is {acc!r}', passes)
            for p in out:
                for v in p:
                    if isinstance(v, float) and not math.isfinite(v):
                        return ('raise', f'non-finite coordinate {v!r} returned', passes)
                    F(v)
        except Exception as ex:
            return ('raise', f'malformed result {r!r} ({type(ex).__name__})', passes)
        return ('ok', acc, out, passes)


# ----------------------------------------------------------------------------------------------
# generators (everything from ctx.rng)
# ----------------------------------------------------------------------------------------------
RECTS = [
    ((F(0), F(0)), (F(4), F(3))),             # ordinary
    ((F(1, 2), F(-1, 3)), (F(7, 2), F(8, 3))),   # rational bounds: lattice points never on a boundary... except by slope
    ((F(2), F(0)), (F(2), F(3))),             # zero width
    ((F(0), F(1)), (F(4), F(1))),             # zero height
    ((F(2), F(1)), (F(2), F(1))),             # single point
    ((F(-3), F(-2)), (F(0), F(0))),           # offset, lattice mostly on one side
]


def grid_cases():
    pts = [(F(x), F(y)) for x in range(-2, 7) for y in range(-2, 6)]
    for b in RECTS:
        for p in pts:
            for q in pts:
                yield (p, q), b


def axis_cases(b):
    """exactly vertical / horizontal / zero-length segments, BOTH directions, through / along / beside every edge
    and through every corner of rectangle `b` (orientation clause of the statement)"""
    (xmin, ymin), (xmax, ymax) = b
    w, h = (xmax - xmin) or F(1), (ymax - ymin) or F(1)
    xs = [xmin - w, xmin - w / 3, xmin, xmin + (xmax - xmin) / 3, xmax, xmax + w / 3, xmax + w]
    ys = [ymin - h, ymin - h / 3, ymin, ymin + (ymax - ymin) / 3, ymax, ymax + h / 3, ymax + h]
    for x in xs:
        for y1 in ys:
            for y2 in ys:           # y1 == y2: zero length, at every region, on every edge and corner
                yield ((x, y1), (x, y2)), b
    for y in ys:
        for x1 in xs:
            for x2 in xs:
                if x1 != x2:
                    yield ((x1, y), (x2, y)), b


def region_coord(rng, lo, hi, region, den):
    """a rational in region -1 (below lo), 0 (inside [lo,hi], boundary-biased), +1 (above hi)"""
    if region < 0:
        return lo - F(rng.randint(1, 6 * den), den)
    if region > 0:
        return hi + F(rng.randint(1, 6 * den), den)
    k = rng.random()
    if k < 0.25:
        return lo
    if k < 0.5:
        return hi
    if hi == lo:
        return lo
    return lo + (hi - lo) * F(rng.randint(0, 8), 8)


def rand_rect(rng, den):
    g = lambda: F(rng.randint(-6 * den, 8 * den), den)
    xs = sorted([g(), g()]); ys = sorted([g(), g()])
    k = rng.random()
    if k < 0.08:
        xs[1] = xs[0]
    elif k < 0.16:
        ys[1] = ys[0]
    elif k < 0.2:
        xs[1] = xs[0]; ys[1] = ys[0]
    return ((xs[0], ys[0]), (xs[1], ys[1]))


def structured_case(rng, kind=None):
    """one exact case: all 9x9 outcode pairs x {region-random, corner-aimed, grazing, four-clip diagonal, parallel, zero length}"""
    den = rng.choice([1, 1, 2, 3, 5, 7, 12])
    b = rand_rect(rng, den)
    (xmin, ymin), (xmax, ymax) = b
    kind = kind or rng.choice(['regions', 'regions', 'corner', 'graze', 'diag4', 'parallel', 'zero', 'axis', 'random'])
    if kind == 'regions':
        r = [rng.choice([-1, 0, 1]) for _ in range(4)]
        p = (region_coord(rng, xmin, xmax, r[0], den), region_coord(rng, ymin, ymax, r[1], den))
        q = (region_coord(rng, xmin, xmax, r[2], den), region_coord(rng, ymin, ymax, r[3], den))
    elif kind == 'corner':
        cx, cy = rng.choice([xmin, xmax]), rng.choice([ymin, ymax])
        dx, dy = F(rng.randint(-5, 5), rng.choice([1, 2, 3])), F(rng.randint(-5, 5), rng.choice([1, 2, 3]))
        t1, t2 = F(rng.randint(0, 6), 2), F(rng.randint(-2, 6), 2)
        p = (cx - t1 * dx, cy - t1 * dy); q = (cx + t2 * dx, cy + t2 * dy)
    elif kind == 'graze':
        # collinear with a boundary line, overlapping the edge / touching its end / missing it
        a, c = F(rng.randint(-12, 24), 4), F(rng.randint(-12, 24), 4)
        if rng.random() < 0.5:
            x = rng.choice([xmin, xmax]); p = (x, ymin + a * (ymax - ymin + 1) / 4); q = (x, ymin + c * (ymax - ymin + 1) / 4)
        else:
            y = rng.choice([ymin, ymax]); p = (xmin + a * (xmax - xmin + 1) / 4, y); q = (xmin + c * (xmax - xmin + 1) / 4, y)
    elif kind == 'diag4':
        # both ends outside two lines each, crossing the rectangle: needs all four clips in exact arithmetic
        w, h = xmax - xmin + 1, ymax - ymin + 1
        e1, e2 = F(rng.randint(1, 8), 8), F(rng.randint(1, 8), 8)
        sx, sy = rng.choice([1, -1]), rng.choice([1, -1])
        cx, cy = (xmin + xmax) / 2, (ymin + ymax) / 2
        p = (cx - sx * w * (F(1, 2) + e1 / 4), cy - sy * h * (F(1, 2) + e1 / 2))
        q = (cx + sx * w * (F(1, 2) + e2 / 4), cy + sy * h * (F(1, 2) + e2 / 2))
        if rng.random() < 0.5:
            p, q = q, p
    elif kind == 'parallel':
        off = F(rng.choice([-2, -1, 0, 1, 2]), rng.choice([1, 2, 16]))
        a, c = F(rng.randint(-12, 24), 4), F(rng.randint(-12, 24), 4)
        if rng.random() < 0.5:
            x = rng.choice([xmin, xmax]) + off; p = (x, ymin + a); q = (x, ymin + c)
        else:
            y = rng.choice([ymin, ymax]) + off; p = (xmin + a, y); q = (xmin + c, y)
    elif kind == 'axis':
        w, h = (xmax - xmin) or F(1), (ymax - ymin) or F(1)
        xs = [xmin - w, xmin - w / 3, xmin, xmin + (xmax - xmin) / 3, xmax, xmax + w / 3, xmax + w]
        ys = [ymin - h, ymin - h / 3, ymin, ymin + (ymax - ymin) / 3, ymax, ymax + h / 3, ymax + h]
        if rng.random() < 0.5:
            x = rng.choice(xs); p = (x, rng.choice(ys)); q = (x, rng.choice(ys))
        else:
            y = rng.choice(ys); p = (rng.choice(xs), y); q = (rng.choice(xs), y)
    elif kind == 'zero':
        r = [rng.choice([-1, 0, 1]) for _ in range(2)]
        p = (region_coord(rng, xmin, xmax, r[0], den), region_coord(rng, ymin, ymax, r[1], den)); q = p
    else:
        g = lambda: F(rng.randint(-8 * den, 10 * den), den)
        p = (g(), g()); q = (g(), g())
    return (p, q), b


def ulp_jitter(rng, v):
    k = rng.random()
    if k < 0.6 or abs(v) < FLOAT_MIN:
        return v
    for _ in range(rng.choice([1, 1, 2, 5])):
        v = math.nextafter(v, math.inf if k < 0.8 else -math.inf)
    return v


def float_case(rng):
    k = rng.random()
    scale = 10.0 ** rng.randint(-6, 6)

    def rnd():
        m = rng.random()
        if m < 0.3:
            return float(rng.randint(-5, 5)) * scale
        if m < 0.6:
            return rng.uniform(-5, 5) * scale
        return rng.choice([0.1, 0.2, 0.3, 1 / 3, 0.7, 1e-3, 1.0, 2.0, 3.0]) * scale * rng.choice([1, -1])
    if k < 0.45:
        # an exact structured case carried to doubles (scaled; thirds/fifths/sevenths become inexact)
        (p, q), b = structured_case(rng)
        off = rng.choice([0.0, 0.0, rnd()])
        cv = lambda v: float(v) * scale + off
        seg = [[cv(p[0]), cv(p[1])], [cv(q[0]), cv(q[1])]]
        bb = [[cv(b[0][0]), cv(b[0][1])], [cv(b[1][0]), cv(b[1][1])]]
        if rng.random() < 0.3:
            seg = [[ulp_jitter(rng, v) for v in pt] for pt in seg]
        return seg, bb
    xs = sorted([rnd(), rnd()]); ys = sorted([rnd(), rnd()])
    z = rng.random()
    if z < 0.05:
        xs[1] = xs[0]
    elif z < 0.1:
        ys[1] = ys[0]
    bb = [[xs[0], ys[0]], [xs[1], ys[1]]]
    if k < 0.57 and xs[0] < xs[1] and ys[0] < ys[1]:
        # enters through an edge with endpoint 1 outside two lines, leaves exactly through the far corner with
        # endpoint 2 beyond it: two clips for endpoint 1, then endpoint 2 oscillates around the corner -> failsafe
        fx, fy = rng.random() < 0.5, rng.random() < 0.5
        cx, cy = (xs[0] if fx else xs[1]), (ys[0] if fy else ys[1])          # exit corner
        ex, ey = rng.uniform(xs[0], xs[1]), (ys[1] if fy else ys[0])          # entry point on the opposite horizontal edge
        dx, dy = cx - ex, cy - ey
        far = (xs[1] - xs[0]) / max(abs(dx), 1e-3 * (xs[1] - xs[0]))
        t1, t2 = rng.uniform(1.0, 3.0) * far, rng.uniform(0.05, 3.0)
        seg = [[ex - t1 * dx, ey - t1 * dy], [cx + t2 * dx, cy + t2 * dy]]
        if rng.random() < 0.2:
            seg.reverse()
        return seg, bb
    if k < 0.8:
        # aimed through a corner (ill-conditioned accept/reject and four-clip sequences)
        cx, cy = rng.choice(xs), rng.choice(ys)
        dx, dy = rnd(), rnd()
        t1, t2 = rng.uniform(0.1, 3), rng.uniform(0.1, 3)
        seg = [[cx - t1 * dx, cy - t1 * dy], [cx + t2 * dx, cy + t2 * dy]]
    else:
        seg = [[rnd(), rnd()], [rnd(), rnd()]]
        if rng.random() < 0.1:
            seg[1] = list(seg[0])
        if rng.random() < 0.15:
            seg[1][rng.randint(0, 1)] = seg[0][rng.randint(0, 1)]
    return seg, bb


def ulps(v, k):
    for _ in range(abs(k)):
        v = math.nextafter(v, math.inf if k > 0 else -math.inf)
    return v


def float_far_case(rng):
    """coordinates far from the origin relative to the extent of the figure (offset 1e3..1e12, extent 1e-6..1):
    cancellation in any formula that is not translation-stable shows here; a third nearly (or exactly) vertical /
    horizontal with the clipped edge between the two ends, a few ulps apart"""
    ox = rng.choice([-1, 1]) * 10.0 ** rng.uniform(3, 12)
    oy = rng.choice([-1, 1]) * 10.0 ** rng.uniform(3, 12)
    z = rng.random()
    if z < 0.15:
        oy = rng.choice([0.0, rng.uniform(-1, 1)])
    elif z < 0.3:
        ox = rng.choice([0.0, rng.uniform(-1, 1)])
    e = 10.0 ** rng.uniform(-6, 0)
    if rng.random() < 0.3:
        e *= max(abs(ox), abs(oy)) * 10.0 ** rng.uniform(-6, 0)     # extent up to the size of the offset
    k = rng.random()
    if k < 0.4:
        (p, q), b = structured_case(rng)
        cx, cy = (lambda v: ox + float(v) * e / 8), (lambda v: oy + float(v) * e / 8)
        seg = [[cx(p[0]), cy(p[1])], [cx(q[0]), cy(q[1])]]
        bb = [[cx(b[0][0]), cy(b[0][1])], [cx(b[1][0]), cy(b[1][1])]]
    elif k < 0.75:
        # nearly vertical (or, transposed, nearly horizontal): the two ends 0..8 ulps apart across, an edge between them
        n = rng.choice([0, 1, 2, 2, 3, 4, 8])
        x1 = ox + rng.uniform(-1, 1) * e
        x2 = ulps(x1, rng.choice([-1, 1]) * n)
        lo, hi = min(x1, x2), max(x1, x2)
        edge = ulps(lo, rng.randint(0, n)) if n else lo
        y1, y2 = oy + rng.uniform(-2, 2) * e, oy + rng.uniform(-2, 2) * e
        ys = sorted([oy + rng.uniform(-1, 1) * e, oy + rng.uniform(-1, 1) * e])
        if rng.random() < 0.5:
            xs = [edge, edge + rng.uniform(0, 2) * e]       # the edge is x_min
        else:
            xs = [edge - rng.uniform(0, 2) * e, edge]       # the edge is x_max
        seg = [[x1, y1], [x2, y2]]
        bb = [[xs[0], ys[0]], [xs[1], ys[1]]]
        if rng.random() < 0.5:                                # transpose: nearly horizontal
            seg = [[p[1], p[0]] for p in seg]; bb = [[p[1], p[0]] for p in bb]
    else:
        # through a corner of a far rectangle
        xs = sorted([ox + rng.uniform(-1, 1) * e, ox + rng.uniform(-1, 1) * e])
        ys = sorted([oy + rng.uniform(-1, 1) * e, oy + rng.uniform(-1, 1) * e])
        bb = [[xs[0], ys[0]], [xs[1], ys[1]]]
        cx, cy = rng.choice(xs), rng.choice(ys)
        dx, dy = rng.uniform(-1, 1) * e, rng.uniform(-1, 1) * e
        t1, t2 = rng.uniform(0.1, 3), rng.uniform(0.1, 3)
        seg = [[cx - t1 * dx, cy - t1 * dy], [cx + t2 * dx, cy + t2 * dy]]
    if bb[0][0] > bb[1][0]:
        bb[0][0], bb[1][0] = bb[1][0], bb[0][0]
    if bb[0][1] > bb[1][1]:
        bb[0][1], bb[1][1] = bb[1][1], bb[0][1]
    return seg, bb


def float_wide_case(rng):
    """an ordinary float case at an extreme (but in-domain) magnitude: 1e-90 .. 1e90"""
    seg, bb = float_case(rng)
    m = 2.0 ** rng.choice([-1, 1]) * 2.0 ** rng.randint(60, 290) if rng.random() < 0.5 else 2.0 ** -rng.randint(60, 290)
    return [[v * m for v in p] for p in seg], [[v * m for v in p] for p in bb]


# ---- figures scaled as a whole by an exact power of two --------------------------------------------------------
# A figure (segment AND rectangle) whose coordinates are of comparable size is multiplied, per axis, by 2^k.  Binary64
# arithmetic commutes with multiplication by a power of two as long as nothing overflows or becomes subnormal, so
# any formula that is sound at everyday magnitudes and keeps its intermediate values of the size of its inputs and
# results (differences, quotient of differences, quotient times a difference no longer than the divisor) gives the
# scaled result of the unscaled figure.  A formula with an intermediate value of a different DIMENSION (a product or
# a square of two lengths, a reciprocal of a length, an absolute epsilon) overflows / underflows / stops being
# negligible here although the inputs and the true result are comfortably representable.
HOMOG_MAX = 2.0 ** 1012        # largest coordinate magnitude (the largest double is just under 2^1024)
HOMOG_MIN = 2.0 ** -1000       # smallest non-zero coordinate / coordinate gap (the smallest normal double is 2^-1022)
HOMOG_RATIO = 2.0 ** 100       # per axis: largest coordinate / smallest non-zero coordinate or gap
HOMOG_CROSS = 2.0 ** 700       # across the axes (bounds the slope quotient and its reciprocal: no overflow / underflow)


def axis_extent(s, b, a):
    """(largest magnitude, smallest non-zero magnitude among the coordinates and their pairwise gaps) on axis a"""
    vals = [s[0][a], s[1][a], b[0][a], b[1][a]]
    big = max(abs(v) for v in vals)
    small = [abs(v) for v in vals if v != 0] + [abs(u - v) for i, u in enumerate(vals) for v in vals[:i] if u != v]
    return big, (min(small) if small else None)


def homogeneous(s, b):
    """domain of the power-of-two stream: on each axis the non-zero coordinates and gaps lie within a factor 2^100 of
    each other and within [2^-1000, 2^1012]; across the axes within a factor 2^700"""
    ext = [axis_extent(s, b, 0), axis_extent(s, b, 1)]
    for i, (big, small) in enumerate(ext):
        if not math.isfinite(big) or big > HOMOG_MAX:
            return False
        if small is None:
            continue
        if small < HOMOG_MIN or big > small * HOMOG_RATIO:
            return False
        obig = ext[1 - i][0]
        if obig > small * HOMOG_CROSS:
            return False
    return True


def in_float_domain(s, b):
    if not (b[0][0] <= b[1][0] and b[0][1] <= b[1][1]):
        return False
    if not all(math.isfinite(v) for p in s + b for v in p):
        return False
    return all(v == 0 or FLOAT_MIN <= abs(v) <= FLOAT_MAX for p in s + b for v in p) or homogeneous(s, b)


def _exp_range(big, small):
    """the exponents k for which big*2^k <= HOMOG_MAX and small*2^k >= HOMOG_MIN"""
    return -1000 - (math.frexp(small)[1] - 1), 1012 - math.frexp(big)[1]


def _pick_exp(rng, lo, hi):
    z = rng.random()
    if z < 0.3:
        return rng.randint(max(lo, hi - 80), hi)          # near the top of the range
    if z < 0.6:
        return rng.randint(lo, min(hi, lo + 80))          # near the bottom
    if z < 0.8:
        # around the square root of the range limits, where a product of two lengths starts to leave the range
        c = rng.choice([-560, -540, -520, -505, -490, 490, 505, 512, 520, 540])
        return min(hi, max(lo, c + rng.randint(-12, 12)))
    return rng.randint(lo, hi)


def float_pow2_case(rng):
    """an everyday figure (dyadic lattice / structured / ordinary float case) times 2^kx on the x axis and 2^ky on the
    y axis (kx == ky in four cases of five), |k| up to about 1000; None when the base figure is not homogeneous"""
    z = rng.random()
    if z < 0.4:
        # dyadic base: every coordinate a small multiple of 1/8 (intersections often exactly representable)
        (p, q), b = structured_case(rng)
        den = rng.choice([1, 2, 8])
        cv = lambda v: float(round(v * den)) / den                  # noqa: E731
        seg = [[cv(p[0]), cv(p[1])], [cv(q[0]), cv(q[1])]]
        bb = [[cv(b[0][0]), cv(b[0][1])], [cv(b[1][0]), cv(b[1][1])]]
    elif z < 0.7:
        (p, q), b = structured_case(rng)
        seg = [[float(p[0]), float(p[1])], [float(q[0]), float(q[1])]]
        bb = [[float(b[0][0]), float(b[0][1])], [float(b[1][0]), float(b[1][1])]]
    else:
        seg, bb = float_case(rng)
    ex, ey = axis_extent(seg, bb, 0), axis_extent(seg, bb, 1)
    if ex[1] is None and ey[1] is None:
        return None
    ref = [e for e in (ex, ey) if e[1] is not None]
    lo = max(_exp_range(*e)[0] for e in ref)
    hi = min(_exp_range(*e)[1] for e in ref)
    if lo > hi:
        return None
    kx = ky = _pick_exp(rng, lo, hi)
    if rng.random() < 0.2:
        # anisotropic: the other axis up to 2^600 away (a product of an x length and a y length then leaves the range
        # although both axes are far from its ends)
        ky = min(hi, max(lo, kx + rng.choice([-1, 1]) * rng.randint(1, 600)))
        if rng.random() < 0.5:
            kx, ky = ky, kx
    sc = lambda pts: [[math.ldexp(pt[0], kx), math.ldexp(pt[1], ky)] for pt in pts]       # noqa: E731
    seg, bb = sc(seg), sc(bb)
    if not (bb[0][0] <= bb[1][0] and bb[0][1] <= bb[1][1]) or not homogeneous(seg, bb):
        return None
    return seg, bb


# ----------------------------------------------------------------------------------------------
def enc_case(stream, seg, b):
    if stream == 'float':
        return {'stream': 'float', 'segment': [[repr(float(v)) for v in p] for p in seg],
                'bounds': [[repr(float(v)) for v in p] for p in b]}
    return {'stream': 'exact', 'segment': [[frac_str(v) for v in p] for p in seg],
            'bounds': [[frac_str(v) for v in p] for p in b]}


def dec_case(d):
    cv = (lambda s: float(s)) if d.get('stream') == 'float' else (lambda s: F(s))
    seg = [[cv(v) for v in p] for p in d['segment']]
    b = [[cv(v) for v in p] for p in d['bounds']]
    return d.get('stream', 'exact'), seg, b


SHAPE_NAMES = {'l': 'list', 't': 'tuple'}


def pick_shape(rng, seg, b):
    """(shape, alias) for Impl.run_shaped: never all lists without aliasing (that is the ordinary call)"""
    z = rng.random()
    if z < 0.25:
        shape = 'tttttt'
    elif z < 0.45:
        shape = 'lttlll'                 # a list of two (x, y) tuples, ordinary bounds
    elif z < 0.55:
        shape = 'tlltll'
    elif z < 0.65:
        shape = rng.choice(['lllltt', 'llltll', 'lllttt', 'ltllll', 'lltlll'])
    else:
        shape = ''.join(rng.choice('lt') for _ in range(6))
    alias = ''
    can = (['pp'] if list(seg[0]) == list(seg[1]) else []) + \
        [f's{i}c{j}' for i in (0, 1) for j in (0, 1) if list(seg[i]) == list(b[j])]
    if can and rng.random() < 0.7:
        alias = rng.choice(can)
        if rng.random() < 0.5:
            shape = 'llllll'            # shared LIST objects: writable through either name
    elif shape == 'llllll':
        shape = 'lltlll' if rng.random() < 0.5 else 'ltllll'
    return norm_shape(shape, alias), alias


def norm_shape(shape, alias):
    """the shape letters as they are after aliasing (the shared object has one container type)"""
    sh = list(shape)
    if alias == 'pp':
        sh[2] = sh[1]
    elif alias:
        sh[1 + int(alias[1])] = sh[4 + int(alias[3])]
    return ''.join(sh)


def describe_shape(shape, alias):
    d = {'containers': {'segment': SHAPE_NAMES[shape[0]], 'points': [SHAPE_NAMES[shape[1]], SHAPE_NAMES[shape[2]]],
                        'bounds': SHAPE_NAMES[shape[3]], 'corners': [SHAPE_NAMES[shape[4]], SHAPE_NAMES[shape[5]]]},
         'shape': shape}
    if alias == 'pp':
        d['aliasing'] = 'both ends of the segment are the same point object'
    elif alias:
        d['aliasing'] = f'end {int(alias[1]) + 1} of the segment is the same object as corner {int(alias[3]) + 1} of the bounds'
    if alias:
        d['alias'] = alias
    return d


def case_key(inp):
    return json.dumps([inp.get('stream'), inp.get('segment'), inp.get('bounds')])


def note_forced(ctx, inp):
    """a case recorded with its argument containers (container stream): run it again with the same containers / aliasing"""
    if isinstance(inp.get('shape'), str) and len(inp['shape']) == 6 and set(inp['shape']) <= set('lt'):
        alias = str(inp.get('alias') or '')
        if alias in ('', 'pp', 's0c0', 's0c1', 's1c0', 's1c1'):
            ctx._c08_forced.setdefault(case_key(inp), []).append((norm_shape(inp['shape'], alias), alias))


def load_corpus(ctx):
    cases = []
    ctx._c08_forced = {}
    d = os.path.join(VERIF, 'corpus', 'C08')
    files = sorted(os.path.join(d, f) for f in os.listdir(d)) if os.path.isdir(d) else []
    for path in files:
        if path.endswith('.jsonl'):
            for line in open(path):
                line = line.strip()
                if line and not line.startswith('#'):
                    d = json.loads(line)
                    cases.append(dec_case(d))
                    note_forced(ctx, d)
    rp = getattr(ctx, 'replay', None)
    if rp and os.path.exists(rp):
        payload = json.load(open(rp))
        for v in payload.get('violations', []) + payload.get('model_vs_implementation', []):
            inp = v.get('input')
            if isinstance(inp, dict) and 'segment' in inp:
                if isinstance(inp.get('previous'), dict) and 'segment' in inp['previous']:
                    cases.append(dec_case(inp['previous']))
                cases.append(dec_case(inp))
                note_forced(ctx, inp)
    return cases


def show_out(res):
    if res[0] == 'raise':
        return f'raised: {res[1]} (after {res[2]} passes)'
    _, acc, out, passes = res
    return f'accept={acc} segment={[[frac_str(F(v)) for v in p] for p in out]} passes={passes}'


def run(ctx):
    rng = ctx.rng
    impl = Impl()
    measure = bool(os.environ.get('C08_MEASURE'))
    metrics = {} if measure else None

    corpus = load_corpus(ctx)
    exact_cases = [(s, b) for (st, s, b) in corpus if st == 'exact']
    float_cases = [(s, b) for (st, s, b) in corpus if st == 'float']
    n_corpus = len(corpus)
    exact_cases += list(grid_cases())
    for b in RECTS:
        exact_cases += list(axis_cases(b))
    for _ in range(3 * ctx.scale):
        exact_cases += list(axis_cases(rand_rect(rng, rng.choice([1, 2, 3, 7]))))
    kinds = ['regions', 'corner', 'graze', 'diag4', 'parallel', 'zero', 'axis', 'random']
    for i in range(ctx.n(5000)):
        exact_cases.append(structured_case(rng, kinds[i % len(kinds)] if i < 2400 else None))
    nfloat = ctx.n(int(os.environ.get('C08_NFLOAT', '15000')))
    nfar = ctx.n(int(os.environ.get('C08_NFAR', '7000')))
    # the exact cases as doubles (integers and dyadics are exact, so the float run must agree there too)
    for (s, b) in exact_cases[n_corpus:n_corpus + 3000:3]:
        float_cases.append(([[float(v) for v in p] for p in s], [[float(v) for v in p] for p in b]))
    for _ in range(nfloat):
        float_cases.append(float_case(rng))
    n_near = len(float_cases)
    for _ in range(nfar):
        float_cases.append(float_far_case(rng))
    n_far = len(float_cases)
    for _ in range(nfar // 12):
        float_cases.append(float_wide_case(rng))
    n_wide = len(float_cases)
    for _ in range(ctx.n(int(os.environ.get('C08_NPOW2', '2500')))):
        c = float_pow2_case(rng)
        if c is not None:
            float_cases.append(c)
    n_pow2 = len(float_cases)
    # one out-of-domain probe, logged only: an endpoint outside a boundary by a subnormal amount
    float_cases.append(([[-0.0002, -2.5e-323], [-0.00016, 0.0]], [[-0.0003, 0.0], [-0.0001, 0.0002]]))

    # ---- sequences: every case is run a second time on two long-lived list objects that are overwritten in place
    # between calls (state carried between calls, results cached by object identity, arguments modified in place)
    prev = {'inp': None}
    nseq = [0, 0, 0]
    pending = []

    def sequence_call(ns, nb, fs, fb, tol, res, inp, mode):
        res2 = impl.run(ns, nb, reuse=mode)
        nseq[0] += 1
        sinp = {**inp, 'sequence': {'s': 'same segment list object', 'b': 'same bounds list object',
                                    'sb': 'same segment and bounds list objects'}[mode] +
                ' as in the previous call, overwritten in place', 'previous': prev['inp']}
        prev['inp'] = dict(inp)
        if impl.input_modified:
            nseq[2] += 1
            # the statement says nothing about the arguments: model comparison only (the model is a pure function)
            ctx.disagree('clip_segment modified its argument lists', sinp, impl.input_modified, 'arguments unchanged')
        if impl.prev_result_changed:
            nseq[2] += 1
            # results are values in the model; the statement speaks about a call's result when it is returned
            ctx.disagree('the segment object returned by the previous call was changed by this call', sinp,
                         impl.prev_result_changed, 'earlier results unchanged')
        if res2 == res:
            return
        nseq[1] += 1
        ctx.disagree('clip_segment on reused argument objects differs from the same call on fresh objects', sinp,
                     show_out(res2), show_out(res))
        if res2[0] == 'raise':
            ctx.violate('clip_segment raised or did not return', sinp, res2[1], 'a result (accept flag, segment)',
                        key='raises')
            return
        for what, obs, req in judge(fs, fb, res2[1], [[F(v) for v in p] for p in res2[2]], tol):
            ctx.violate(what, sinp, f'{obs}; returned {show_out(res2)}', req)

    # ---- containers: every case is run once more with the segment / its points / the bounds / their corners held in
    # tuples instead of lists (a random mixture; all-tuple and list-of-tuple-points most often), and - where the values
    # coincide - with ONE point object used for both ends of the segment or for a segment end and a corner of the bounds.
    # The statement speaks of a segment and a rectangle, not of their containers: same oracle, values as passed.
    nshape = [0, 0, 0]
    forced = getattr(ctx, '_c08_forced', {})

    def shaped_call(ns, nb, fs, fb, tol, res, inp, shape, alias):
        res2 = impl.run_shaped(ns, nb, shape, alias)
        nshape[0] += 1
        nshape[2] += bool(alias)
        if res2 == res and not impl.input_modified and not impl.prev_result_changed:
            return
        sinp = {**inp, **describe_shape(shape, alias)}
        if impl.input_modified:
            ctx.disagree('clip_segment modified its arguments', sinp, impl.input_modified, 'arguments unchanged')
        if impl.prev_result_changed:
            ctx.disagree('the segment object returned by the previous call was changed by this call', sinp,
                         impl.prev_result_changed, 'earlier results unchanged')
        if res2 == res:
            return
        nshape[1] += 1
        ctx.disagree('clip_segment on tuple / shared argument containers differs from the same call on fresh lists', sinp,
                     show_out(res2), show_out(res))
        if res2[0] == 'raise':
            ctx.violate('clip_segment raised or did not return', sinp, res2[1], 'a result (accept flag, segment)',
                        key='raises')
            return
        for what, obs, req in judge(fs, fb, res2[1], [[F(v) for v in p] for p in res2[2]], tol):
            ctx.violate(what, sinp, f'{obs}; returned {show_out(res2)}', req)

    def run_shapes():
        for item in pending:
            ns, nb, inp = item[0], item[1], item[6]
            todo = list(forced.get(case_key(inp), ())) if forced else []
            todo.append(pick_shape(rng, ns, nb))
            for shape, alias in todo:
                shaped_call(*item, shape, alias)

    def run_sequences():
        """consecutive calls on the long-lived objects, no fresh-object call in between; blocks of 40 calls cycle
        through: both arguments reused / only the bounds (one rectangle, many segments) / only the segment"""
        run_shapes()
        for i, item in enumerate(pending):
            sequence_call(*item, ('sb', 'b', 's')[(i // 40) % 3])
        pending.clear()

    # ---- stream (i): exact ----------------------------------------------------------------------
    lines = ['c08 clip ' + ' '.join(frac_str(v) for v in (s[0][0], s[0][1], s[1][0], s[1][1],
                                                           b[0][0], b[0][1], b[1][0], b[1][1]))
             for (s, b) in exact_cases]
    outs = ctx.driver.batch(lines) if ctx.driver else [None] * len(lines)
    seen_pairs, seen_len, seen_steps = set(), set(), set()
    for (s, b), ans in zip(exact_cases, outs):
        s = [[F(v) for v in p] for p in s]; b = [[F(v) for v in p] for p in b]
        inp = enc_case('exact', s, b)
        res = impl.run(s, b)
        scale = max([abs(v) for p in s + b for v in p])
        tol = TOL_REL * scale
        pending.append((s, b, s, b, tol, res, inp))
        exact_iv = lb_interval(s, b)
        want = None if exact_iv is None else [on(s, exact_iv[0]), on(s, exact_iv[1])]
        nontriv = not (exact_iv == (0, 1))
        path = None
        model = None
        if ans is not None:
            parts = [x.strip() for x in ans.split('|')]
            if len(parts) != 3:
                raise Infra(f'driver answered {ans!r}')
            model, path, spec = parts
            codes, trace = path.split(':')
            seen_pairs.add(codes); seen_len.add(len(trace) // 2)
            seen_steps.update(trace[i:i + 2] for i in range(0, len(trace), 2))
            # second opinion: the Lean executable Spec must agree with the Python oracle (both are Liang-Barsky)
            spec_py = 'NONE' if want is None else ' '.join(frac_str(v) for p in want for v in p)
            if spec != spec_py:
                raise Infra(f'Lean specClip and the Python oracle differ on {inp}: {spec} vs {spec_py}')
        ctx.count(('exact', inp['segment'], inp['bounds']), 'exact ' + (path or 'no-driver'), nontriv)
        if res[0] == 'raise':
            ctx.violate('clip_segment raised or did not return', inp, res[1], 'a result (accept flag, segment)',
                        key='raises')
            if model is not None:
                ctx.disagree('clip_segment (exact)', inp, show_out(res), model)
            continue
        _, acc, out, passes = res
        out = [[F(v) for v in p] for p in out]
        # correspondence, bit for bit
        if model is not None:
            implstr = ('ACC ' if acc else 'REJ ') + ' '.join(frac_str(v) for p in out for v in p)
            mpasses = len(path.split(':')[1]) // 2 + 1
            if model != implstr or passes != mpasses:
                ctx.disagree('clip_segment (exact)', inp, f'{implstr} passes={passes}', f'{model} passes={mpasses}')
        elif acc != (want is not None) or (acc and out != want):
            # no driver: the exact Liang-Barsky value (= the model's, by C08_model_eq_spec) stands in for the model
            wanted = 'REJ' if want is None else 'ACC ' + ' '.join(frac_str(v) for p in want for v in p)
            ctx.disagree('clip_segment (exact) vs Liang-Barsky spec', inp, show_out(res), wanted)
        # property oracle (the statement's tolerance applies to the exact stream too; a zero-tolerance difference
        # alone is a model/implementation disagreement, not a violation)
        for what, obs, req in judge(s, b, acc, out, tol):
            ctx.violate(what, inp, f'{obs}; returned {show_out(res)}', req)
        ctx.sample({'stream': 'exact', **inp, 'impl': show_out(res), 'model': model, 'path': path})
    run_sequences()
    if ctx.driver:
        need_pairs = {f'{a},{c}' for a in (0, 1, 2, 4, 5, 6, 8, 9, 10) for c in (0, 1, 2, 4, 5, 6, 8, 9, 10)}
        need_steps = {e + sd for e in '12' for sd in 'LRTB'}
        missing = sorted(need_pairs - seen_pairs) + sorted(need_steps - seen_steps) + \
            [f'{k} clips' for k in range(5) if k not in seen_len]
        if missing:
            raise Infra(f'model paths without input: {missing}')
        if 'E' in ''.join(seen_steps) or '!' in ''.join(seen_steps):
            ctx.notes.append('model took an exception/failsafe path (contradicts C08_total)')

    # ---- stream (ii): floats ---------------------------------------------------------------------
    nfs = 0
    over5 = 0
    for idx, (s, b) in enumerate(float_cases):
        grp = 'float' if idx < n_near else 'far' if idx < n_far else 'wide' if idx < n_wide else 'pow2' if idx < n_pow2 else 'probe'
        s = [[float(v) for v in p] for p in s]; b = [[float(v) for v in p] for p in b]
        if not in_float_domain(s, b):
            ctx.out_of_domain.append({**enc_case('float', s, b), 'observed': show_out(impl.run(s, b)),
                                      'why': 'coordinate magnitudes outside [1e-100, 1e100] and not a figure of comparable '
                                             'coordinates and gaps within [2^-1000, 2^1012]: the slope quotient can overflow'})
            continue
        inp = enc_case('float', s, b)
        res = impl.run(s, b)
        fs = [[F(v) for v in p] for p in s]; fb = [[F(v) for v in p] for p in b]
        scale = max(abs(v) for p in fs + fb for v in p)
        tol = TOL_REL * scale
        pending.append((s, b, fs, fb, tol, res, inp))
        if res[0] == 'raise':
            ctx.count(('float', inp['segment'], inp['bounds']), f'{grp} raise')
            ctx.violate('clip_segment raised or did not return', inp, res[1], 'a result (accept flag, segment)',
                        key='raises')
            continue
        _, acc, out, passes = res
        fout = [[F(v) for v in p] for p in out]
        codes_end = (impl.orig(out[0][0], out[0][1], b[0][0], b[1][0], b[0][1], b[1][1]),
                     impl.orig(out[1][0], out[1][1], b[0][0], b[1][0], b[0][1], b[1][1]))
        failsafe = acc and codes_end != (0, 0)
        nfs += failsafe
        ctx.count(('float', inp['segment'], inp['bounds']),
                  f'{grp} {"acc" if acc else "rej"} passes={passes}' + (' failsafe' if failsafe else ''),
                  not (acc and passes == 1))
        if passes > MAX_PASSES:
            over5 += 1
        if metrics is not None and scale:
            mm = {}
            bad = judge(fs, fb, acc, fout, tol, mm)
            for k, v in mm.items():
                rel = float(v / scale) if not k.endswith('2') else math.sqrt(float(v / (scale * scale)))
                if rel > metrics.get(f'float {grp} ' + k, (0, None))[0]:
                    metrics[f'float {grp} ' + k] = (rel, inp)
        else:
            bad = judge(fs, fb, acc, fout, tol)
        for what, obs, req in bad:
            ctx.violate(what, inp, f'{obs}; returned {show_out(res)}', req)
        if len(ctx.samples) < 12 and passes >= 3:
            ctx.sample({'stream': 'float', **inp, 'impl': show_out(res)})
    run_sequences()
    ctx.notes.append(f'sequence stream: {nseq[0]} calls on reused, in-place overwritten argument objects; {nseq[1]} differed '
                     f'from the fresh-object call; {nseq[2]} modified their arguments')
    ctx.notes.append(f'container stream: {nshape[0]} calls with tuple / mixed tuple-list argument containers ({nshape[2]} with one '
                     f'point object shared between the two ends or between an end and a corner of the bounds); {nshape[1]} differed '
                     f'from the call on fresh lists')
    ctx.notes.append(f'float stream: {len(float_cases)} cases ({n_near} ordinary, {n_far - n_near} translated by 1e3..1e12, '
                     f'{n_wide - n_far} at magnitudes up to 1e+-90, {n_pow2 - n_wide} figures scaled as a whole by 2^k per axis, '
                     f'coordinates 2^-1000..2^1012), {nfs} returned through the iterations>3 failsafe; '
                     f'{over5} needed more than 5 loop passes; tolerance 1e-9*scale')
    if measure:
        ctx.notes.append('measured worst deviations relative to scale: ' +
                         json.dumps({k: (v if not isinstance(v, tuple) else v[0]) for k, v in metrics.items()
                                     if k.startswith('float')}, default=str))
        print(json.dumps({k: v for k, v in metrics.items() if k.startswith('float')}, indent=1, default=str))

    # =================================================================================================
    # ---- stream (iii): the SOURCE-REGENERATED code (translator extension) -----------------------------
    # Gen.clip_segment / Gen.clip_code (lean/Plotink/Gen/*.lean, regenerated from plot_utils.py on every run,
    # the definitions the C08_gen_* theorems are about) against the real functions:
    #   exact  - Rounding.exact on the Fraction cases (a `flt` under identity rounding is an exact rational):
    #            accept flag and all four coordinates identical;
    #   ieee   - Rounding.ieee on the double cases: BIT-IDENTICAL to CPython (every returned double equal as an
    #            exact rational), failsafe returns included.  Rounding.ieee has an unbounded exponent, so the
    #            comparison is restricted to coordinates that are 0 or of magnitude in [1e-30, 1e30]
    #            (no overflow / gradual underflow anywhere in the computation).
    gen_stream(ctx, impl, exact_cases, float_cases)
    # ======== "sitecov" input stream - self-contained, implemented at the end of this file; keep this call last ========
    _sitecov_tail(ctx)


GEN_FUNCTIONS = ['clip_code', 'clip_segment']
TRUSTED = TRUSTED + ['Gen.clip_code / Gen.clip_segment are regenerated from plot_utils.py on every run and proved equal to the hand '
                     'model in exact arithmetic (C08_gen_bridge, C08_gen_bridge_num; fuel >= 5); not verified, validated by the '
                     'generated-code stream of this run: the translator (loops on fuel, lists, bit operators) and the Py.Val '
                     'library, and Rounding.ieee as a description of binary64 (bit-identical results on the double cases)']
GEN_FUEL = 5
GEN_FMIN, GEN_FMAX = 1e-30, 1e30


def _gv(v):
    """a coordinate in the driver's argument syntax: ints stay ints, floats/Fractions are `f<exact value>`"""
    if isinstance(v, int) and not isinstance(v, bool):
        return str(v)
    return 'f' + frac_str(F(v))


def _gseg(s):
    return '[' + ','.join('[' + ','.join(_gv(v) for v in p) + ']' for p in s) + ']'


def _gshow(acc, out):
    return '(' + ('True' if acc else 'False') + ' (' + ' '.join('(' + ' '.join(_gv(v) for v in p) + ')' for p in out) + '))'


def gen_stream(ctx, impl, exact_cases, float_cases):
    if not ctx.driver:
        ctx.notes.append('generated-code stream skipped: no driver')
        return
    import time
    t_start = time.time()
    budget = ctx.n(9000)
    jobs = []      # (kind, seg, bounds)
    ex = exact_cases if len(exact_cases) <= budget else \
        exact_cases[:200] + [exact_cases[i] for i in sorted(ctx.rng.sample(range(200, len(exact_cases)), max(0, min(len(exact_cases) - 200, budget - 200))))]
    for (s, b) in ex:
        jobs.append(('exact', [[F(v) for v in p] for p in s], [[F(v) for v in p] for p in b]))
    fl = float_cases if len(float_cases) <= budget else \
        float_cases[:200] + [float_cases[i] for i in sorted(ctx.rng.sample(range(200, len(float_cases)), max(0, min(len(float_cases) - 200, budget - 200))))]
    skipped = 0
    for (s, b) in fl:
        s = [[float(v) for v in p] for p in s]; b = [[float(v) for v in p] for p in b]
        if not all(v == 0 or GEN_FMIN <= abs(v) <= GEN_FMAX for p in s + b for v in p):
            skipped += 1
            continue
        jobs.append(('ieee', s, b))
    lines = []
    for kind, s, b in jobs:
        dps = 'x15' if kind == 'exact' else '15'
        lines.append(f'gen clip_segment {dps} {GEN_FUEL} {_gseg(s)} {_gseg(b)}')
        # clip_code of both input endpoints (argument order of the Python function)
        for p in s:
            lines.append(f'gen clip_code {dps} ' + ' '.join(_gv(v) for v in (p[0], p[1], b[0][0], b[1][0], b[0][1], b[1][1])))
    outs = ctx.driver.batch(lines)
    n = {'exact': 0, 'ieee': 0}
    bad = {'exact': 0, 'ieee': 0}
    for k, (kind, s, b) in enumerate(jobs):
        g_seg, g_c1, g_c2 = outs[3 * k: 3 * k + 3]
        inp = {**enc_case('float' if kind == 'ieee' else 'exact', s, b), 'gen': kind}
        res = impl.run(s, b)
        if res[0] == 'raise':
            want = 'RAISE'
            agree = 'ERR' in g_seg or g_seg == 'FUELOUT' and 'infinite loop' in res[1]
        else:
            want = _gshow(res[1], res[2])
            agree = (g_seg == want)
        n[kind] += 1
        ctx.count(('gen', kind, inp['segment'], inp['bounds']), f'gen {kind}', False)
        if not agree:
            bad[kind] += 1
            ctx.disagree(f'Gen.clip_segment (Rounding.{kind}) vs plot_utils.clip_segment', inp,
                         want if res[0] != 'raise' else show_out(res), g_seg)
        for p, g in ((s[0], g_c1), (s[1], g_c2)):
            try:
                c = str(impl.orig(p[0], p[1], b[0][0], b[1][0], b[0][1], b[1][1]))
            except Exception as exn:
                c = 'RAISE ' + type(exn).__name__
            if c != g and not (c.startswith('RAISE') and g == 'ERR'):
                ctx.disagree(f'Gen.clip_code (Rounding.{kind}) vs plot_utils.clip_code', {**inp, 'point': [_gv(v) for v in p]}, c, g)
    ctx.notes.append(f"generated-code stream: Gen.clip_segment/Gen.clip_code vs the real functions: {n['exact']} Fraction cases under "
                     f"Rounding.exact ({bad['exact']} differ), {n['ieee']} double cases under Rounding.ieee compared bit for bit "
                     f"({bad['ieee']} differ; {skipped} cases outside [1e-30,1e30] not compared); fuel {GEN_FUEL}; {time.time() - t_start:.1f}s")


# ================================================================================================
# "sitecov" input stream (harness/sitecov.py, DESIGN 3c): every comparison / bit test of the CURRENT source of
# clip_segment and clip_code is driven to lhs == rhs and to either side, separately for the first executions of each
# site in a call (endpoint 1, endpoint 2, after the first clip ...), by exact moves on the eight Fraction coordinates;
# the inputs found go through run() itself (exact stream: real code, Lean model bit for bit, geometric oracle,
# sequence stream, generated-code stream) and are additionally counted under the path 'sitecov'.
# Self-contained block at the end of the file on purpose (the body of `run` is untouched except for its last line).
# ================================================================================================
def _sitecov_plain_case(rng, kind=None):
    """a case WITHOUT boundary bias (large denominators: coincidences with an edge do not happen by chance)"""
    den = rng.choice([97, 1009, 10007])
    g = lambda: F(rng.randint(-8 * den, 10 * den), den)      # noqa: E731
    xs, ys = sorted([g(), g()]), sorted([g(), g()])
    return ((g(), g()), (g(), g())), ((xs[0], ys[0]), (xs[1], ys[1]))


def _sitecov_domain(a):
    seg, b = a
    vals = [v for p in list(seg) + list(b) for v in p]
    if not all(type(v) in (int, F) and abs(v) <= 10 ** 6 for v in vals):       # the scale of the module's exact generators
        return False
    return b[0][0] <= b[1][0] and b[0][1] <= b[1][1]


def _sitecov_adjust(args, path):
    """keep min <= max: when one corner coordinate of the rectangle is moved past the opposite one, drag that one along"""
    seg, b = args
    if path[0] == 1:
        i, j = path[1], path[2]
        if i == 0 and b[0][j] > b[1][j]:
            b[1][j] = b[0][j]
        elif i == 1 and b[1][j] < b[0][j]:
            b[0][j] = b[1][j]
    return (seg, b)


def _sitecov_rerun(ctx, cases):
    from . import sitecov
    exact = [('exact', [[F(v) for v in p] for p in s], [[F(v) for v in p] for p in b]) for (s, b) in cases]
    cut = sitecov.rerun_patched(ctx, globals(), over={'scale': 0},
                                patches={'load_corpus': lambda _ctx: list(exact), 'grid_cases': lambda: iter(()),
                                         'RECTS': [], 'axis_cases': lambda b: iter(())})
    if cut:     # the nested pass ended at its path-coverage requirement: the generated-code stream comes after it
        gen_stream(ctx, Impl(), [(s, b) for (_, s, b) in exact], [])
        del ctx.notes[-1:]


def _sitecov_tail(ctx):
    if getattr(ctx, '_in_sitecov', False) or getattr(ctx, '_only_main', False) or getattr(ctx, 'replay', None) \
            or os.environ.get('SITECOV_OFF'):
        return
    from . import sitecov
    from plotink import plot_utils as pu
    rng = ctx.rng
    gen = _sitecov_plain_case if os.environ.get('SITECOV_ONLY') else structured_case
    seeds = []
    for _ in range(160):
        (p, q), b = gen(rng)
        seeds.append(([[F(p[0]), F(p[1])], [F(q[0]), F(q[1])]], [[F(b[0][0]), F(b[0][1])], [F(b[1][0]), F(b[1][1])]]))
    sitecov.stream(ctx, 'clip_segment', pu.clip_segment, seeds, rerun=lambda cs: _sitecov_rerun(ctx, cs),
                   moves=sitecov.Moves(domain=_sitecov_domain, adjust=_sitecov_adjust, groups=lambda path, v: 'xy'[path[-1]]),
                   budget=4000, max_inputs=300)


if os.environ.get('SITECOV_ONLY'):
    # EXPERIMENT ONLY (measures what the sitecov stream finds on its own): corpus, lattice grids, axis cases and the
    # structured (corner-aimed, grazing, ...) generators are disabled, the float streams are switched off
    from . import sitecov as _sc
    _sc.only_mode(globals(), tail=_sitecov_tail, environ={'C08_NFLOAT': '0', 'C08_NFAR': '0'},
                  patches={'load_corpus': lambda _ctx: [], 'grid_cases': lambda: iter(()), 'RECTS': [],
                           'axis_cases': lambda b: iter(()), 'structured_case': _sitecov_plain_case},
                  note='corpus, lattice grids, axis-parallel families, structured boundary generators and the float streams are '
                       'disabled; inputs = unbiased random rational cases + the sitecov stream')
