"""X03 — supplementary (NOT one of the twenty listed properties, not registered in MANIFEST.json):
plot_utils.pathdata_first_point / pathdata_last_point.

The regenerated functions take the parse result as a parameter (translator rule: `simplepath.parsePath(path)` becomes
`parsed_path`).  Correspondence: the real functions run on path-data strings; the same strings are parsed here with the
installed `simplepath.parsePath` and the regenerated functions run on that parse result; the answers must be identical
(value and type).  Statement-level oracle: first point = the first moveto's coordinates; last point = the coordinates the
pen ends at (closepath returns to the start of the last subpath)."""
from fractions import Fraction
from .common import pyval

GEN_FUNCTIONS = ['pathdata_first_point', 'pathdata_last_point']
RULE = ('path-data strings assembled from absolute and relative M/L/H/V/C/S/Q/T/A/Z commands (1..8 segments, several subpaths, '
        'closepath in the last or an inner position, implicit lineto after moveto, integer and decimal coordinates); a case is '
        'non-trivial when the path has more than one subpath or ends in closepath; distinct by string')
TRUSTED = ['translator/pynum2lean.py incl. the rule replacing simplepath.parsePath(path) by the parameter parsed_path (validated by this run)',
           'ink_extensions.simplepath.parsePath as the SVG path-data parser (its output is the input of the regenerated code)']
ASSUMPTIONS = ['non-empty path data beginning with a moveto (what SVG requires); coordinates are finite decimals']
EVIDENCE_DIR = 'supplementary'


def fnum(rng):
    k = rng.random()
    if k < 0.5:
        return str(rng.randint(-50, 50))
    if k < 0.9:
        return f'{rng.uniform(-100, 100):.{rng.randint(1, 4)}f}'
    return rng.choice(['0', '-0.5', '1e1', '.5', '2.'])


def gen_path(rng):
    n = rng.randint(0, 7)
    parts = []
    absolute = rng.random() < 0.7
    m = 'M' if absolute or True else 'm'
    parts.append(f'{m} {fnum(rng)},{fnum(rng)}')
    if rng.random() < 0.2:
        parts.append(f'{fnum(rng)},{fnum(rng)}')          # implicit lineto
    for _ in range(n):
        c = rng.choice('LLHVCSQTAZMlhvcsqtazm')
        if c in 'Ll' or c in 'Tt' or c in 'Mm':
            parts.append(f'{c} {fnum(rng)} {fnum(rng)}')
        elif c in 'Hh' or c in 'Vv':
            parts.append(f'{c} {fnum(rng)}')
        elif c in 'Cc':
            parts.append(f'{c} ' + ' '.join(fnum(rng) for _ in range(6)))
        elif c in 'SsQq':
            parts.append(f'{c} ' + ' '.join(fnum(rng) for _ in range(4)))
        elif c in 'Aa':
            parts.append(f'{c} {abs(float(fnum(rng))) + 1} {abs(float(fnum(rng))) + 1} {rng.randint(0, 90)} {rng.randint(0, 1)} {rng.randint(0, 1)} {fnum(rng)} {fnum(rng)}')
        else:
            parts.append(c)
    if rng.random() < 0.35:
        parts.append(rng.choice('Zz'))
    return ' '.join(parts)


def nested(v):
    if isinstance(v, (list, tuple)):
        return '[' + ','.join(nested(x) for x in v) + ']'
    if isinstance(v, str):
        assert len(v) == 1
        return 's' + str(ord(v))
    return pyval(v)


def run(ctx):
    from plotink import plot_utils as pu
    sp = pu.simplepath
    rng = ctx.rng
    paths = ['M 1,2', 'M 1 2 L 3 4', 'M 1 2 L 3 4 Z', 'M 0 0 L 5 5 M 7 7 L 9 9 z', 'm 3 4 l 1 1 z', 'M 0 0 C 1 1 2 2 3 3',
             'M 1 1 H 5 V 7', 'M 0,0 Q 1,1 2,0 T 4,0', 'M 0 0 A 5 5 0 0 1 10 10', 'M 1 2 Z M 3 4 Z', 'M 1 2 3 4 5 6', 'M 2 3 z m 1 1 l 2 2']
    paths += [gen_path(rng) for _ in range(ctx.n(1500))]
    lines, meta = [], []
    for d in paths:
        try:
            parsed = sp.parsePath(d)
        except Exception:
            continue
        if not parsed:
            continue
        for fn in ('pathdata_first_point', 'pathdata_last_point'):
            lines.append(f'gen {fn} 15 ' + nested([[c, list(p)] for c, p in parsed]))
            meta.append((fn, d, parsed))
    outs = ctx.driver.batch(lines) if ctx.driver else [None] * len(lines)
    for (fn, d, parsed), out in zip(meta, outs):
        inp = {'fn': fn, 'path': d}
        try:
            r = getattr(pu, fn)(d)
        except Exception as ex:
            ctx.count((fn, d))
            ctx.violate(f'{fn} raised {type(ex).__name__}', inp, repr(ex), 'a point')
            continue
        impl = pyval(r)
        nsub = sum(1 for c, _ in parsed if c == 'M')
        ctx.count((fn, d), fn + (':Z' if parsed[-1][0].upper() == 'Z' else ':open'), nsub > 1 or parsed[-1][0].upper() == 'Z')
        ctx.sample({'fn': fn, 'path': d, 'impl': impl})
        if out is not None and out != impl:
            ctx.disagree(fn, inp, impl, out)
        # statement-level oracle from the parse result (absolute commands, as parsePath delivers them)
        moves = [p for c, p in parsed if c == 'M']
        if fn == 'pathdata_first_point':
            want = moves[0][:2] if moves else None
        else:
            c, p = parsed[-1]
            if c.upper() == 'Z':
                before = [q for cc, q in parsed[:-1] if cc == 'M']
                want = before[-1][:2] if before else None
            else:
                want = list(p[-2:])
        if (r is None) != (want is None) or (r is not None and [Fraction(x) for x in r] != [Fraction(x) for x in want]):
            ctx.violate(f'{fn}: wrong point', inp, impl, pyval(want))
