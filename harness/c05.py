"""C05 — EBB3 command/query framing and fault handling.

Correspondence as in C04 (same model, same fake port).  Oracle: the property statement, judged per call on
the event log of the fake port (writes and reads in order), independent of the model."""
import json
from . import ebb3_fake as F

RULE = ('exhaustive: request strings of the three syntactic classes (one letter, one letter + arguments, two letters; '
        'upper/lower case; surrounding whitespace) x 13 reply shapes x command/query; every request method x argument class '
        'x fault kind at every read position and write position; 0,1,2,23..27,30 empty or blank reads before the reply '
        '(both sides of the retry limit) for command, query and every decoding method; random histories with random '
        'payloads. Non-trivial = a fault or a retry occurred. Distinct by (state, concrete script, calls).')
TRUSTED = ['translator/pyio2lean.py (class mode) + lean/Plotink/PyObj.lean: every public method of EBB3/EBBMotionWrap is '
           'regenerated and run on every history of this module against the real classes (result, escaping exception class, '
           'bytes written, reads, port, err, version, name, caller, port_name must be identical)',
           'harness/ebb3_fake.py: fake serial port, script player (symbolic replies rendered for the pending request)',
           'modelled not verified: pyserial; str.strip/startswith/in, int() (differentially tested each run)']
ASSUMPTIONS = ['request strings are ASCII and non-empty after trimming (the empty request raises IndexError: outside the alphabet)',
               'reply lines are ASCII; a *correct* reply to QS/QC/QE/PI/QL carries decimal integers (QE codes in '
               '{0,1,2,4,8,16}, QL values in 0..255); other lines that begin with one of those names are outside the alphabet',
               'var_write_int32 values are in the int32 range (OverflowError otherwise: outside the alphabet)',
               'a port raises serial.SerialException, PortNotOpenError, or a plain OSError/IOError (all four are injected '
               'at every read and write position); RuntimeError and other classes are outside the alphabet']
STAGED = []

IGNORED = ('rb', 'r', 'bl')
NON_REQUEST = ('connect', 'disconnect', 'record_error', 'parse_version', 'min_version', 'find_first')
# value a method returns on success must not be one of these (methods that return None always are absent)
VALUE_METHODS = {'command': (False,), 'query': (None,), 'var_write': (False,), 'var_write_int32': (False,),
                 'var_read': (None,), 'var_read_int32': (None, False), 'write_nickname': (False,),
                 'motors_query_enabled': (None,), 'query_steps': (None,), 'dio_b_read': (None,),
                 'query_voltage': (None,), 'query_current': ((None, None),), 'reboot': (False,), 'bootload': (False,)}


def segments(events):
    segs = []
    for ev in events:
        if ev[0] == 'w':
            segs.append({'text': ev[1], 'ok': ev[2], 'reads': []})
        elif ev[0] != 'r':
            continue
        elif segs:
            segs[-1]['reads'].append(ev[1])
        else:
            segs.append({'text': None, 'ok': True, 'reads': [ev[1]]})
    return segs


def judge_segment(seg, limit):
    """(fault kind or None, reply, problems) for one request by the statement's rules"""
    problems = []
    text = seg['text']
    if text is None:
        return 'read-without-request', None, ['a read happened before any request was written']
    if not text.endswith('\r') or '\r' in text[:-1] or '\n' in text:
        problems.append(f'framing: {text!r} is not "<text>\\r"')
    body = text[:-1] if text.endswith('\r') else text
    if body != body.strip() or body == '':
        problems.append(f'framing: {text!r} is not trimmed')
    name = F.req_name(body) if body else ''
    if not seg['ok']:
        if seg['reads']:
            problems.append('reads after a failed write')
        return 'write-exception', None, problems
    reads = seg['reads']
    if limit == 0:              # reboot / bootload: raw write, no reply is read
        if reads:
            problems.append('reads after a raw reboot/bootloader write')
        return None, None, problems
    for i, o in enumerate(reads):
        if F.is_raise(o):
            if i != len(reads) - 1:
                problems.append('reads continue after an I/O exception')
            return 'read-exception', None, problems
        if o.strip() != '':
            if i != len(reads) - 1:
                problems.append(f'{len(reads) - i - 1} read(s) after the reply')
            if i >= limit:
                problems.append(f'reply accepted after {i} empty reads (limit {limit - 1})')
            rep = o.strip()
            if rep.startswith(name) and 'Err:' not in rep:
                return None, rep, problems
            return ('error-reply' if 'Err:' in rep else 'wrong-name'), rep, problems
    if len(reads) != limit:
        problems.append(f'gave up after {len(reads)} empty reads; the statement says wait through {limit - 1} retries')
    return 'timeout', None, problems


def oracle(ctx, sc, recs, desc):
    latched = sc.state.err
    port = sc.state.port
    nontrivial = False
    for k, r in enumerate(recs):
        name, args = r['call']
        ready = port and latched is None
        where = dict(desc, call_index=k)
        port_before = port
        port = r['port']
        if latched is None and r['err'] is not None:
            latched_now = r['err']
        else:
            latched_now = latched
        if not ready or name in NON_REQUEST:
            latched = latched_now
            continue
        # ---- domain
        if name in ('command', 'query', 'write_nickname'):
            if args[0] is None:
                latched = latched_now
                continue
            if name != 'write_nickname' and args[0].strip() == '':
                ctx.out_of_domain.append({'call': [name, repr(args)], 'why': 'empty request string', 'observed': r['res']})
                latched = latched_now
                continue
        if name == 'var_write_int32' and not (-2 ** 31 <= args[0] < 2 ** 31):
            ctx.out_of_domain.append({'call': [name, repr(args)], 'why': 'value outside int32', 'observed': r['res']})
            latched = latched_now
            continue
        raw = name in ('reboot', 'bootload')
        limit = 1 if name == 'query_statusbyte' else (0 if raw else F.RETRY_STATEMENT + 1)
        segs = segments(r['events'])
        fault = None
        fault_seg = None
        for i, seg in enumerate(segs):
            fk, rep, problems = judge_segment(seg, limit)
            for p in problems:
                F.violate(ctx, f'{name}: {p.split(":")[0]}', where, p, 'trimmed text + one CR, written once; up to 25 empty reads',
                            key=f'C05:{name}:framing')
            if fk is not None:
                fault, fault_seg = fk, seg
                if i != len(segs) - 1:
                    F.violate(ctx, f'{name} keeps transmitting after a failed request', where,
                                {'failed': seg['text'], 'later': [s['text'] for s in segs[i + 1:]]},
                                'nothing is transmitted after the failure', key=f'C05:{name}:continues')
                break
        if len(segs) > 1 or (fault is not None) or any(len(s['reads']) > 1 for s in segs):
            nontrivial = True
        # ---- command / query specifics
        if name in ('command', 'query'):
            want = args[0].strip() + '\r'
            if r['written'] != [want]:
                F.violate(ctx, f'{name}: the request is not written exactly once as trimmed text + CR', where,
                            {'written': r['written']}, [want], key=f'C05:{name}:framing')
            if fault is None and not r['exc'] and segs and name == 'query':
                nm = F.req_name(args[0].strip())
                rest = segs[0]['reads'][-1].strip()[len(nm):]
                rest = rest[1:] if rest.startswith(',') else rest
                if r['ret'] != rest:
                    F.violate(ctx, 'query: value is not the reply without name and one comma', where, repr(r['ret']), repr(rest),
                                key='C05:query:value')
        # ---- a recorded failure must stay recorded (assignments to err are logged)
        for ev in r['events']:
            if ev[0] == 'e' and ev[1] is not None and ev[2] != ev[1]:
                F.violate(ctx, f'{name} erases / replaces the error it recorded', where, {'before': ev[1], 'assigned': ev[2]},
                          'the failure is recorded as the object\'s error', key=f'C05:{name}:error-erased')
                break
        # ---- no exception
        if r['exc']:
            cls = next((e[5] for e in r['events'] if e[0] == 'w' and not e[2]), None) or \
                next((e[1].key for e in r['events'] if e[0] == 'r' and F.is_raise(e[1])), None)
            F.violate(ctx, f'{name} raises {r["exc"]} ({fault or "no fault"}' + (f', port raised {cls}' if cls else '') + ')',
                      where, r['exc'], 'no public request method raises; the failure value is returned',
                      key='F11-reboot-oserror-escapes' if F.escaped_known(r) else f'C05:{name}:raises')
            latched = latched_now
            continue
        # ---- failure recorded and reported / success
        if fault is not None:
            io = fault in ('write-exception', 'read-exception')
            fname = F.req_name(fault_seg['text'][:-1]).lower() if fault_seg['text'] else ''
            if io and (raw or (name == 'command' and fname in IGNORED)):
                # deliberate in the code (the board drops off the bus after RB/R/BL): known finding F10
                if r['err'] is None:
                    F.violate(ctx, f'{name}: an I/O exception after a reboot-type request is not recorded as the error', where,
                                {'ret': repr(r['ret']), 'err': None}, 'failure recorded in err',
                                key='F10-reboot-io-ignored')
            else:
                if r['err'] is None:
                    F.violate(ctx, f'{name}: {fault} is not recorded as the error', where, {'ret': repr(r['ret']), 'err': None},
                                'err is set', key=f'C05:{name}:not-recorded')
                if not F.is_failure(r['ret']):
                    F.violate(ctx, f'{name}: {fault} is not reported by the return value', where, repr(r['ret']),
                                'False / None / (None, None)', key=f'C05:{name}:not-reported')
        else:
            if r['err'] is not None:
                F.violate(ctx, f'{name}: an error is recorded although every reply was correct', where, r['err'], 'err stays None',
                            key=f'C05:{name}:false-error')
            elif name in VALUE_METHODS and any(r['ret'] is v or (r['ret'] == v and type(r['ret']) is type(v))
                                               for v in VALUE_METHODS[name]):
                if not (name in ('query_voltage',) and False):
                    F.violate(ctx, f'{name}: failure value returned although every reply was correct', where, repr(r['ret']),
                                'a success value', key=f'C05:{name}:false-failure')
        if r['err'] is not None and name in VALUE_METHODS and not F.is_failure(r['ret']):
            F.violate(ctx, f'{name}: err is set but the return value is not a failure value', where, repr(r['ret']),
                        'False / None / (None, None)', key=f'C05:{name}:not-reported')
        latched = latched_now
    first = recs[0] if recs else None
    path = sc.tag.split('@')[0] + ':' + (first['call'][0] if first else '-')
    ctx.count((json.dumps(desc, sort_keys=True),), path, nontrivial)
    if sc.tag.startswith('retry:25') and len(ctx.samples) < 6:
        ctx.sample({'scenario': desc, 'observed': [{'call': r['call'][0], 'ret': repr(r['ret']), 'reads': r['nreads'],
                                                    'err': r['err']} for r in recs]})


def run(ctx):
    rng = ctx.rng
    ctx.gen_stream = True        # also run the source-regenerated methods (ebb3gen) on every history: must be identical
    if getattr(ctx, 'replay', None):
        data = json.load(open(ctx.replay))
        items = [v['input'] for v in data.get('violations', [])] + [d['input'] for d in data.get('model_vs_implementation', [])]
        scs = [F.from_json({k: v for k, v in it.items() if k != 'call_index'}) for it in items if 'calls' in it]
        F.run_scenarios(ctx, scs, oracle, 'C05', F.ignore_known)
        return
    F.check_method_table(ctx)
    params = F.check_params(ctx)
    if params and (params['retryCmd'] != F.RETRY_STATEMENT or params['retryQry'] != F.RETRY_STATEMENT):
        ctx.notes.append(f'retry limits in the source ({params["retryCmd"]}, {params["retryQry"]}) differ from the statement (25)')
    F.check_primitives(ctx, rng, ctx.n(1500))
    F.probe_connect_exceptions(ctx)
    F.run_scenarios(ctx, F.corpus_scenarios('C05'), oracle, 'C05', F.ignore_known)
    F.run_scenarios(ctx, F.request_string_scenarios(rng), oracle, 'C05', F.ignore_known)
    F.run_scenarios(ctx, F.retry_scenarios(), oracle, 'C05', F.ignore_known)
    F.run_scenarios(ctx, F.two_object_scenarios(), oracle, 'C05', F.ignore_known)
    F.run_scenarios(ctx, F.fault_scenarios(), oracle, 'C05', F.ignore_known)
    F.run_scenarios(ctx, F.random_scenarios(rng, ctx.n(4000), maxlen=12), oracle, 'C05', F.ignore_known)
