"""C18 — travel-limit helpers: correspondence Gen(ieee) <-> plot_utils, and the property oracle."""
import math, os
from fractions import Fraction
from .common import pyval
from . import sitecov

GEN_FUNCTIONS = ['checkLimits', 'checkLimitsTol', 'point_in_bounds', 'constrainLimits']
RULE = ('boundary-biased (value at/around lower, upper, upper+tol, lower-tol, +-1 ulp, degenerate ranges) and random '
        'int/float mixtures; a case is non-trivial when the value is not strictly inside the range; distinct by input tuple; '
        'plus the "sitecov" stream: every comparison of the CURRENT source of the four helpers driven to lhs == rhs, +-1 ulp '
        'and both outcomes (harness/sitecov.py)')
TRUSTED = ['translator/pynum2lean.py (validated by this correspondence run)',
           'Rounding.ieee as model of binary64 addition (validated by this run)',
           'modelled not verified: Python int/float comparison = exact rational comparison']
ASSUMPTIONS = ['arguments are finite ints/floats with lower <= upper and tolerance >= 0']


def ulp_neighbours(x):
    x = float(x)
    return [math.nextafter(x, math.inf), math.nextafter(x, -math.inf)]


def gen_case(rng):
    kind = rng.random()
    if kind < 0.3:
        lo = rng.randint(-50, 50); hi = lo + rng.choice([0, 0, 1, 2, 7, 100])
    elif kind < 0.7:
        lo = round(rng.uniform(-100, 100), rng.choice([0, 1, 3, 9])); hi = lo + rng.choice([0.0, 0.1, 1.0, 12.5, 1e-9, 300.0])
        if rng.random() < 0.3:
            hi = int(math.ceil(hi))
    else:
        lo = rng.uniform(-1e6, 1e6) * 10 ** rng.randint(-9, 3); hi = lo + abs(rng.uniform(0, 1e3)) * 10 ** rng.randint(-9, 2)
    tol = rng.choice([0, 0.0, 0, 1e-9, 1e-9, 0.5, 1, 0.1, rng.uniform(0, 2), 2.0 ** -rng.randint(20, 60)])
    cands = [lo, hi, (lo + hi) / 2 if lo != hi else lo]
    for b in (lo, hi, hi + tol, lo - tol):
        cands += [b] + ulp_neighbours(b) + [b + rng.choice([-1, 1]) * rng.uniform(0, 2 * (tol or 1))]
    cands += [rng.uniform(lo - 5, hi + 5), rng.randint(-200, 200)]
    for b, sgn in ((hi, 1), (lo, -1)):   # outside the range by a tiny amount (far below any default tolerance)
        cands += [b + sgn * 2.0 ** -rng.randint(25, 50), b + sgn * abs(b) * 2.0 ** -rng.randint(40, 52)]
    v = rng.choice(cands)
    return v, lo, hi, tol


SITECOV_ONLY = bool(os.environ.get('SITECOV_ONLY'))   # experiment: unbiased random cases + the sitecov stream only
SITECOV_OFF = bool(os.environ.get('SITECOV_OFF'))     # experiment control: no sitecov stream


def gen_plain(rng):
    """a case WITHOUT boundary bias (used only when SITECOV_ONLY is set)"""
    lo = rng.choice([rng.randint(-1000, 1000), rng.uniform(-1000, 1000)])
    hi = lo + rng.choice([rng.randint(0, 1000), rng.uniform(0, 1000)])
    v = rng.uniform(-3000, 3000)
    tol = rng.choice([0, 1, 0.5, 1e-9, rng.uniform(0, 2)])
    return v, lo, hi, tol


def finite(*xs):
    return all(type(x) is int or (type(x) is float and math.isfinite(x)) for x in xs)


def in_domain(c):
    """ASSUMPTIONS: finite ints/floats, lower <= upper, tolerance >= 0"""
    v, lo, hi, tol = c
    return finite(v, lo, hi, tol) and Fraction(lo) <= Fraction(hi) and tol >= 0


def in_domain2(c):
    x, y, x0, y0, x1, y1, t = c
    return finite(*c) and Fraction(x0) <= Fraction(x1) and Fraction(y0) <= Fraction(y1) and t >= 0


def inside(v, lo, hi):
    return Fraction(lo) <= Fraction(v) <= Fraction(hi)


def run_sequences(ctx, pu, pts):
    """state carried between calls: the SAME bounds / point list objects are reused and mutated in place
    between calls (a cache keyed on object identity or on too few arguments goes stale), tolerance varied
    and repeated; every call is judged."""
    if not pts:
        return
    bounds = [[0, 0], [1, 1]]
    point = [0, 0]
    last_t = None
    for i, (x, y, x0, y0, x1, y1, t) in enumerate(pts):
        mode = i % 4
        if mode == 0:      # fresh objects
            bounds = [[x0, y0], [x1, y1]]
            point = [x, y]
        elif mode == 1:    # mutate one corner in place, keep the other, same tolerance as before if possible
            bounds[1][0], bounds[1][1] = x1, y1
            x0, y0 = bounds[0]
            if not (Fraction(x0) <= Fraction(x1) and Fraction(y0) <= Fraction(y1)):
                bounds[0][0], bounds[0][1] = x0, y0 = min(x0, x1, key=Fraction), min(y0, y1, key=Fraction)
            point[0], point[1] = x, y
            if last_t is not None:
                t = last_t
        elif mode == 2:    # same bounds object, new point object, new tolerance
            x0, y0 = bounds[0]
            x1, y1 = bounds[1]
            point = [x, y]
        else:              # everything mutated in place
            bounds[0][0], bounds[0][1], bounds[1][0], bounds[1][1] = x0, y0, x1, y1
            point[0], point[1] = x, y
        last_t = t
        (bx0, by0), (bx1, by1) = bounds
        px, py = point
        inp = {'fn': 'point_in_bounds(sequence, same objects mutated in place)', 'step': i,
               'args': [pyval(z) for z in (px, py, bx0, by0, bx1, by1, t)]}
        try:
            r = pu.point_in_bounds(point, bounds, t)
            fx = pu.checkLimitsTol(px, bx0, bx1, t)[1]
            fy = pu.checkLimitsTol(py, by0, by1, t)[1]
            c1 = pu.checkLimits(px, bx0, bx1)
            c2 = pu.constrainLimits(px, bx0, bx1)
        except Exception as ex:
            ctx.count(('seq', i)); ctx.violate(f'sequence call raised {type(ex).__name__}', inp, repr(ex), 'a value'); continue
        ctx.count(('seq', i, tuple(inp['args'])), 'sequence', True)
        wantb = (not ((px > bx1 + t) or (px < bx0 - t))) and (not ((py > by1 + t) or (py < by0 - t)))
        if r != wantb:
            ctx.violate('point_in_bounds: not "within tolerance of the bounds" (call sequence)', inp, str(r), str(wantb))
        if r != ((not fx) and (not fy)):
            ctx.violate('point_in_bounds disagrees with checkLimitsTol per coordinate (call sequence)', inp, str(r), str((not fx) and (not fy)))
        want = px if inside(px, bx0, bx1) else (bx1 if Fraction(px) > Fraction(bx1) else bx0)
        if Fraction(c1[0]) != Fraction(want) or c1[1] != (not inside(px, bx0, bx1)) or Fraction(c2) != Fraction(want):
            ctx.violate('checkLimits/constrainLimits wrong in a call sequence', inp, pyval((c1, c2)), pyval(want))


def run(ctx):
    from plotink import plot_utils as pu
    rng = ctx.rng
    cases = []
    if SITECOV_ONLY:
        for _ in range(ctx.n(4000)):
            cases.append(gen_plain(rng))
        ctx.notes.append('SITECOV_ONLY: the small box and the boundary-biased generator are disabled; inputs = unbiased random '
                         'cases + the sitecov stream')
    else:
        # exhaustive small integer box
        for lo in range(-2, 3):
            for hi in range(lo, 3):
                for v in range(-4, 5):
                    for tol in (0, 1):
                        cases.append((v, lo, hi, tol))
        for _ in range(ctx.n(4000)):
            cases.append(gen_case(rng))
    pts = pipeline(ctx, pu, cases, None, sequences=True)

    # ---- sitecov stream: boundary inputs for every comparison of the CURRENT source, through the same pipeline ----
    if not SITECOV_OFF:
        num4 = {0: 'num', 1: 'num', 2: 'num', 3: 'num'}
        seeds = rng.sample(cases, min(len(cases), 150))
        tol_of = lambda: rng.choice([0, 1e-9, 0.5, 1])                  # noqa: E731  (checkLimits has no tolerance)
        sitecov.stream(ctx, 'checkLimits', pu.checkLimits, [c[:3] for c in seeds],
                       rerun=lambda cs: pipeline(ctx, pu, cs, []), to_case=lambda a: a + (tol_of(),),
                       moves=sitecov.Moves(kinds=num4, domain=lambda a: in_domain(a + (0,))), budget=800)
        sitecov.stream(ctx, 'checkLimitsTol', pu.checkLimitsTol, seeds, rerun=lambda cs: pipeline(ctx, pu, cs, []),
                       moves=sitecov.Moves(kinds=num4, lo={3: 0}, domain=in_domain), budget=1500)
        sitecov.stream(ctx, 'constrainLimits', pu.constrainLimits, [c[:3] for c in seeds],
                       rerun=lambda cs: pipeline(ctx, pu, cs, []), to_case=lambda a: a + (tol_of(),),
                       moves=sitecov.Moves(kinds=num4, domain=lambda a: in_domain(a + (0,))), budget=300)
        seeds2 = rng.sample(pts, min(len(pts), 150))
        sitecov.stream(ctx, 'point_in_bounds', pu.point_in_bounds, seeds2, rerun=lambda ps: pipeline(ctx, pu, [], ps),
                       apply=lambda tw, a: tw([a[0], a[1]], [[a[2], a[3]], [a[4], a[5]]], a[6]),
                       moves=sitecov.Moves(kinds={j: 'num' for j in range(7)}, lo={6: 0}, domain=in_domain2), budget=2000)


def pipeline(ctx, pu, cases, pts, sequences=False):
    """driver answers, real code, correspondence and oracle for 1-D cases (v, lo, hi, tol) and 2-D cases
    (x, y, x0, y0, x1, y1, t); pts = None pairs consecutive 1-D cases.  Returns the 2-D cases."""
    lines, meta = [], []
    for (v, lo, hi, tol) in cases:
        a = [pyval(v), pyval(lo), pyval(hi)]
        lines.append('gen checkLimits 15 ' + ' '.join(a)); meta.append(('checkLimits', (v, lo, hi, tol)))
        lines.append('gen checkLimitsTol 15 ' + ' '.join(a + [pyval(tol)])); meta.append(('checkLimitsTol', (v, lo, hi, tol)))
        lines.append('gen constrainLimits 15 ' + ' '.join(a)); meta.append(('constrainLimits', (v, lo, hi, tol)))
    if pts is None:
        # 2-D cases: pair consecutive 1-D cases sharing the tolerance
        pts = []
        for i in range(0, len(cases) - 1, 2):
            (x, x0, x1, t), (y, y0, y1, _) = cases[i], cases[i + 1]
            pts.append((x, y, x0, y0, x1, y1, t))
    for pt in pts:
        lines.append('gen point_in_bounds 15 ' + ' '.join(pyval(z) for z in pt))
        meta.append(('point_in_bounds', tuple(pt)))
    outs = ctx.driver.batch(lines) if ctx.driver else [None] * len(lines)
    if sequences:
        run_sequences(ctx, pu, pts)
    for (fn, args), out in zip(meta, outs):
        try:
            if fn == 'checkLimits':
                v, lo, hi, tol = args
                r = pu.checkLimits(v, lo, hi)
            elif fn == 'checkLimitsTol':
                v, lo, hi, tol = args
                r = pu.checkLimitsTol(v, lo, hi, tol)
            elif fn == 'constrainLimits':
                v, lo, hi, tol = args
                r = pu.constrainLimits(v, lo, hi)
            else:
                x, y, x0, y0, x1, y1, t = args
                r = pu.point_in_bounds([x, y], [[x0, y0], [x1, y1]], t)
        except Exception as ex:  # the helpers must not raise on numeric input
            ctx.count((fn, args))
            ctx.violate(f'{fn} raised {type(ex).__name__}', {'fn': fn, 'args': list(args)}, repr(ex), 'a value')
            continue
        impl = pyval(r)
        if fn != 'point_in_bounds':
            v, lo, hi, tol = args
            nontriv = not (Fraction(lo) < Fraction(v) < Fraction(hi))
            path = ('in' if inside(v, lo, hi) else 'above' if Fraction(v) > Fraction(hi) else 'below')
            ctx.count((fn, args), f'{fn}:{path}', nontriv)
        else:
            ctx.count((fn, args), fn, True)
        ctx.sample({'fn': fn, 'args': [pyval(a) for a in args], 'impl': impl})
        if out is not None and out != impl:
            ctx.disagree(fn, {'fn': fn, 'args': [pyval(a) for a in args]}, impl, out)
        # ---- property oracle (independent of the model) ----
        inp = {'fn': fn, 'args': [pyval(a) for a in args]}
        if fn in ('checkLimits', 'checkLimitsTol'):
            val, flag = r
            want = v if inside(v, lo, hi) else (hi if Fraction(v) > Fraction(hi) else lo)
            if Fraction(val) != Fraction(want):
                ctx.violate(f'{fn}: wrong limited value', inp, impl, pyval(want))
            if fn == 'checkLimits' and flag != (not inside(v, lo, hi)):
                ctx.violate('checkLimits: flag is not "outside the range"', inp, impl, str(not inside(v, lo, hi)))
            if fn == 'checkLimitsTol':
                # band as the code computes it (float addition when floats are involved)
                wantf = (v > hi + tol) or (v < lo - tol)
                if flag != wantf:
                    ctx.violate('checkLimitsTol: flag is not "outside by more than the tolerance"', inp, impl, str(wantf))
        elif fn == 'constrainLimits':
            want = v if inside(v, lo, hi) else (hi if Fraction(v) > Fraction(hi) else lo)
            if Fraction(r) != Fraction(want):
                ctx.violate('constrainLimits: wrong value', inp, impl, pyval(want))
        else:
            fx = pu.checkLimitsTol(x, x0, x1, t)[1]
            fy = pu.checkLimitsTol(y, y0, y1, t)[1]
            wantb = (not ((x > x1 + t) or (x < x0 - t))) and (not ((y > y1 + t) or (y < y0 - t)))
            if r != ((not fx) and (not fy)):
                ctx.violate('point_in_bounds disagrees with checkLimitsTol per coordinate', inp, impl, str((not fx) and (not fy)))
            if r != wantb:
                ctx.violate('point_in_bounds: not "within tolerance of the bounds"', inp, impl, str(wantb))
    return pts
