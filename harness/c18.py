"""C18 — travel-limit helpers: correspondence Gen(ieee) <-> plot_utils, and the property oracle."""
import math, os
from fractions import Fraction
from .common import pyval
from . import sitecov

GEN_FUNCTIONS = ['checkLimits', 'checkLimitsTol', 'point_in_bounds', 'constrainLimits']
RULE = ('boundary-biased (value at/around lower, upper, upper+tol, lower-tol, +-1 ulp, degenerate ranges) and random '
        'int/float mixtures; a case is non-trivial when the value is not strictly inside the range; distinct by input tuple; '
        'plus the "sitecov" stream: every comparison of the CURRENT source of the four helpers driven to lhs == rhs, +-1 ulp '
        'and both outcomes (harness/sitecov.py); plus the extreme-magnitude stream gen_far: values extremely far outside the range '
        'relative to its width on both sides (floats up to the largest finite double, ints up to 10**400), narrow ranges at large '
        'offsets, ranges whose width/sum/midpoint overflows, subnormal-scale ranges, ints beyond 2**53 one unit off a bound')
TRUSTED = ['translator/pynum2lean.py (validated by this correspondence run)',
           'Rounding.ieee as model of binary64 addition (validated by this run)',
           'modelled not verified: Python int/float comparison = exact rational comparison']
ASSUMPTIONS = ['arguments are finite ints/floats with lower <= upper and tolerance >= 0',
               'extreme-magnitude stream: the band lower - tol .. upper + tol is computable (no int beyond the float range combined '
               'with a float tolerance), finite, and contains the range (hypothesis of C18_point_in_bounds)']


def ulp_neighbours(x):
    x = float(x)
    return [math.nextafter(x, math.inf), math.nextafter(x, -math.inf)]


def gen_case(rng):
    kind = rng.random()
    if kind < 0.3:
        lo = rng.randint(-50, 50); hi = lo + rng.choice([0, 0, 1, 2, 7, 100])
    elif kind < 0.7:
        lo = round(rng.uniform(-100, 100), rng.choice([0, 1, 3, 9])); hi = lo + rng.choice([0.0, 0.1, 1.0, 12.5, 1e-9, 300.0])
        if rng.random() < 0.3:
            hi = int(math.ceil(hi))
    else:
        lo = rng.uniform(-1e6, 1e6) * 10 ** rng.randint(-9, 3); hi = lo + abs(rng.uniform(0, 1e3)) * 10 ** rng.randint(-9, 2)
    tol = rng.choice([0, 0.0, 0, 1e-9, 1e-9, 0.5, 1, 0.1, rng.uniform(0, 2), 2.0 ** -rng.randint(20, 60)])
    cands = [lo, hi, (lo + hi) / 2 if lo != hi else lo]
    for b in (lo, hi, hi + tol, lo - tol):
        cands += [b] + ulp_neighbours(b) + [b + rng.choice([-1, 1]) * rng.uniform(0, 2 * (tol or 1))]
    cands += [rng.uniform(lo - 5, hi + 5), rng.randint(-200, 200)]
    for b, sgn in ((hi, 1), (lo, -1)):   # outside the range by a tiny amount (far below any default tolerance)
        cands += [b + sgn * 2.0 ** -rng.randint(25, 50), b + sgn * abs(b) * 2.0 ** -rng.randint(40, 52)]
    v = rng.choice(cands)
    return v, lo, hi, tol


FMAX = 1.7976931348623157e308


def band_computable(lo, hi, tol):
    """the band lower - tol .. upper + tol can be formed in Python arithmetic and is finite (it need NOT contain the range:
    an int bound beyond 2**53 plus a float tolerance rounds INTO the range - still a valid request, see F14)"""
    try:
        a, b = lo - tol, hi + tol
    except OverflowError:
        return False
    return finite(a, b)


def flag_spec(v, lo, hi, t):
    """the tolerant checker's flag by the statement: outside the closed range AND beyond the tolerance band"""
    if Fraction(v) > Fraction(hi):
        return v > hi + t
    if Fraction(v) < Fraction(lo):
        return v < lo - t
    return False


# F14 witnesses (fixed: see known_findings.txt): an int coordinate ON an int bound above 2**53 with a float tolerance
WITNESS_PTS = [(2 ** 53 + 1, 0, 0, 0, 2 ** 53 + 1, 1, 1e-9), (2 ** 61 + 1, 0, 0, 0, 2 ** 61 + 2, 1, 1e-9),
               (-(2 ** 53 + 1), 0, -(2 ** 53 + 1), 0, 5, 1, 1e-9), (0, 2 ** 70 + 1, 0, 3, 1, 2 ** 70 + 1, 0.5),
               (3, -(2 ** 64 + 1), 0, -(2 ** 64 + 3), 5, 0, 1e-9)]


def band_ok(lo, hi, tol):
    """the tolerance band lower - tol .. upper + tol is computable in Python arithmetic, finite and contains the range (an
    int beyond the float range plus a float tolerance raises OverflowError in ANY implementation that forms the band; a
    band that overflows to +-inf is kept out as well: see the scope note in run())"""
    try:
        a, b = lo - tol, hi + tol
    except OverflowError:
        return False
    # ... and the computed band contains the range (the hypothesis of Props/C18.lean:C18_point_in_bounds; it can only fail
    # for an int bound beyond 2**53 that float(bound) rounds INTO the range when the tolerance is a float)
    return finite(a, b) and a <= lo and hi <= b


def _steps(x, n):
    """x moved by n ulps (n may be negative)"""
    x = float(x)
    for _ in range(abs(n)):
        x = math.nextafter(x, math.inf if n > 0 else -math.inf)
    return x


def _far_magnitude(rng, scale):
    """a magnitude extremely far from a range of the given scale (its width / its offset): floats up to the largest finite
    double, ints up to 10**400 (beyond the float range); relative (scale * 2**k: the two distances value-lower and
    value-upper round to the same double from k ~ 53 on) and absolute"""
    k = rng.random()
    if k < 0.30:
        m = float(scale or 1.0) * 2.0 ** rng.randint(40, 70)              # around the 2**53 rounding threshold
        return m if math.isfinite(m) else FMAX
    if k < 0.50:
        return 10.0 ** rng.randint(15, 308) * rng.choice([1.0, 1.0, rng.uniform(1, 1.79)])
    if k < 0.60:
        return rng.choice([FMAX, _steps(FMAX, -rng.randint(1, 3)), FMAX / 2, 2.0 ** 1023, 1e308, 1e300])
    if k < 0.85:
        return 10 ** rng.randint(15, 400) + rng.choice([0, 0, 1, -1, rng.randint(-10 ** 6, 10 ** 6)])
    return 2 ** rng.randint(53, 1300) + rng.choice([0, 1, -1])


def _ordinary_range(rng):
    k = rng.random()
    if k < 0.2:
        return rng.choice([(0.0, 10.0), (-23.5, 47.25), (5.0, 5.0), (0, 300), (-0.5, 0.25), (0, 0), (0.0, 0.0), (-1, 1),
                           (0.0, 1.0), (-11.81, 0.0), (0, 8.5), (0.0, 430), (-300, -299.75), (1e-9, 2e-9)])
    if k < 0.45:
        lo = rng.randint(-1000, 1000); return lo, lo + rng.choice([0, 1, 2, 7, 100, 10 ** 6])
    lo = rng.uniform(-1000, 1000) * 10 ** rng.randint(-6, 3)
    hi = lo + rng.choice([0.0, 1e-9, 0.1, 1.0, 12.5, 300.0, abs(rng.uniform(0, 1e4))])
    if rng.random() < 0.25:
        hi = int(math.ceil(hi))
    if rng.random() < 0.15:
        lo = int(math.floor(lo))
    return lo, hi


def gen_far(rng):
    """values EXTREMELY far outside the range relative to its width (both sides, int and float, up to the largest finite
    double and ints up to 10**400), narrow ranges at large offsets, ranges whose width / sum / midpoint overflows, ranges on
    the subnormal scale, ints beyond 2**53 one unit off a bound: the classes where a limiter written with differences,
    distances, midpoints, products or float() conversions (instead of comparisons) goes wrong through rounding, overflow or
    underflow although it is right for every everyday overshoot."""
    kind = rng.random()
    sgn = rng.choice([-1, 1])
    if kind < 0.45:                                   # A: ordinary range, value extremely far away
        lo, hi = _ordinary_range(rng)
        width = float(Fraction(hi) - Fraction(lo))
        scale = rng.choice([width, width, max(abs(float(lo)), abs(float(hi))), 1.0])
        v = sgn * _far_magnitude(rng, scale)
    elif kind < 0.65:                                 # B: narrow range at a large offset
        off = rng.choice([10.0 ** rng.randint(6, 300), 2.0 ** rng.randint(20, 1000), rng.uniform(1e6, 1e15),
                          float(10 ** rng.randint(6, 22))]) * rng.choice([-1, 1])
        a = off; b = rng.choice([_steps(off, rng.randint(0, 4)), off + rng.choice([0.25, 1.0, 300.0, 1e-9])])
        lo, hi = min(a, b), max(a, b)
        if rng.random() < 0.25 and abs(lo) < 1e22:
            lo = int(math.floor(lo))
            if Fraction(lo) > Fraction(hi):
                hi = lo
        elif rng.random() < 0.2 and abs(hi) < 1e22:
            hi = int(math.ceil(hi))
        k = rng.random()
        if k < 0.35:
            v = _steps(rng.choice([lo, hi]), rng.choice([-3, -2, -1, 1, 2, 3]))
        elif k < 0.5:
            v = rng.choice([lo, hi, float(lo) / 2, 0, 0.0, -float(hi), -float(lo)])
        else:
            width = float(Fraction(hi) - Fraction(lo))
            v = sgn * _far_magnitude(rng, rng.choice([width, abs(float(lo))]))
    elif kind < 0.80:                                 # C: huge bounds (width, sum or midpoint overflows in float arithmetic)
        k = rng.random()
        big = lambda: rng.choice([FMAX, _steps(FMAX, -rng.randint(1, 4)), 1e308, 1.5e308, 2.0 ** 1023, FMAX / 2,     # noqa: E731
                                  rng.uniform(0.4, 1.79) * 1e308])
        if k < 0.35:                                  # opposite signs: upper - lower overflows
            lo, hi = -big(), big()
        elif k < 0.7:                                 # same sign: lower + upper overflows
            a, b = big(), big()
            lo, hi = (min(a, b), max(a, b)) if rng.random() < 0.5 else (-max(a, b), -min(a, b))
        elif k < 0.85:                                # one huge bound, one ordinary
            lo, hi = rng.choice([(-big(), rng.uniform(-10, 10)), (rng.uniform(-10, 10), big()), (0, big()), (-big(), 0)])
        else:                                         # int bounds beyond the float range
            a = sgn * 10 ** rng.randint(300, 400); b = a + rng.choice([0, 1, 10 ** 6, 10 ** rng.randint(10, 400)])
            lo, hi = a, b
        k = rng.random()
        if k < 0.3:
            v = _steps(rng.choice([lo, hi]), rng.choice([-2, -1, 1, 2])) if finite(float_or_none(lo), float_or_none(hi)) \
                else rng.choice([lo, hi]) + rng.choice([-1, 1])
        elif k < 0.45:
            v = rng.choice([lo, hi, 0, 0.0, rng.uniform(-1, 1)])
        elif k < 0.7:
            v = sgn * rng.choice([FMAX, _steps(FMAX, -1), 1e308, 1.7e308])
        else:
            v = sgn * (10 ** rng.randint(300, 400) + rng.choice([0, 1, -1]))
        if type(v) is float and not math.isfinite(v):
            v = sgn * FMAX
    elif kind < 0.92:                                 # D: everything on a tiny / subnormal scale (products underflow)
        u = rng.choice([5e-324, 2.0 ** -rng.randint(500, 1074), 10.0 ** -rng.randint(150, 320)]) or 5e-324
        a = rng.randint(-8, 8) * u; b = a + rng.choice([0, 1, 2, 5, 1000]) * u
        lo, hi = a, b
        v = rng.choice([a - rng.randint(1, 3) * u, b + rng.randint(1, 3) * u, a, b, (a + b) / 2, 0.0, 0,
                        sgn * u * 2.0 ** rng.randint(1, 60), sgn * 1.0, sgn * _far_magnitude(rng, 1.0)])
    else:                                             # E: ints beyond 2**53 one unit off a bound (float(value) loses it)
        p = 2 ** rng.randint(53, 90) * rng.choice([-1, 1])
        w = rng.choice([0, 1, 2, 2 ** rng.randint(1, 52)])
        lo, hi = p, p + w
        if rng.random() < 0.5:
            lo = float(lo)
        if rng.random() < 0.5:
            hi = float(hi)
        if Fraction(lo) > Fraction(hi):
            hi = lo
        v = rng.choice([int(Fraction(lo)) - 1, int(Fraction(hi)) + 1, int(Fraction(lo)) + 1, int(Fraction(hi)) - 1,
                        int(Fraction(lo)), int(Fraction(hi)), _steps(lo, -1), _steps(hi, 1)])
    # tolerance: the everyday ones, tiny, huge, and comparable with the overshoot (far outside yet within tolerance)
    av = abs(Fraction(v))
    tol = rng.choice([0, 0, 0.0, 1e-9, 1e-9, 0.5, 1, 0.015625, 2.0 ** -30, rng.uniform(0, 2), 5e-324, 1e300, 10 ** 18,
                      float_or_none(av / 2) or 0, float_or_none(av * 2) or 0, int(av) + rng.choice([0, 1]), int(av) // 2])
    if not band_ok(lo, hi, tol):
        tol = rng.choice([0, 1, int(tol) if type(tol) is int or math.isfinite(tol) else 0])
        if not band_ok(lo, hi, tol):
            tol = 0
    return v, lo, hi, tol


def float_or_none(x):
    try:
        f = float(x)
    except OverflowError:
        return None
    return f if math.isfinite(f) else None


SITECOV_ONLY = bool(os.environ.get('SITECOV_ONLY'))   # experiment: unbiased random cases + the sitecov stream only
SITECOV_OFF = bool(os.environ.get('SITECOV_OFF'))     # experiment control: no sitecov stream


def gen_plain(rng):
    """a case WITHOUT boundary bias (used only when SITECOV_ONLY is set)"""
    lo = rng.choice([rng.randint(-1000, 1000), rng.uniform(-1000, 1000)])
    hi = lo + rng.choice([rng.randint(0, 1000), rng.uniform(0, 1000)])
    v = rng.uniform(-3000, 3000)
    tol = rng.choice([0, 1, 0.5, 1e-9, rng.uniform(0, 2)])
    return v, lo, hi, tol


def finite(*xs):
    return all(type(x) is int or (type(x) is float and math.isfinite(x)) for x in xs)


def in_domain(c):
    """ASSUMPTIONS: finite ints/floats, lower <= upper, tolerance >= 0"""
    v, lo, hi, tol = c
    return finite(v, lo, hi, tol) and Fraction(lo) <= Fraction(hi) and tol >= 0


def in_domain2(c):
    x, y, x0, y0, x1, y1, t = c
    return finite(*c) and Fraction(x0) <= Fraction(x1) and Fraction(y0) <= Fraction(y1) and t >= 0


def inside(v, lo, hi):
    return Fraction(lo) <= Fraction(v) <= Fraction(hi)


def run_sequences(ctx, pu, pts):
    """state carried between calls: the SAME bounds / point list objects are reused and mutated in place
    between calls (a cache keyed on object identity or on too few arguments goes stale), tolerance varied
    and repeated; every call is judged."""
    if not pts:
        return
    bounds = [[0, 0], [1, 1]]
    point = [0, 0]
    last_t = None
    for i, (x, y, x0, y0, x1, y1, t) in enumerate(pts):
        mode = i % 4
        if mode == 0:      # fresh objects
            bounds = [[x0, y0], [x1, y1]]
            point = [x, y]
        elif mode == 1:    # mutate one corner in place, keep the other, same tolerance as before if possible
            bounds[1][0], bounds[1][1] = x1, y1
            x0, y0 = bounds[0]
            if not (Fraction(x0) <= Fraction(x1) and Fraction(y0) <= Fraction(y1)):
                bounds[0][0], bounds[0][1] = x0, y0 = min(x0, x1, key=Fraction), min(y0, y1, key=Fraction)
            point[0], point[1] = x, y
            if last_t is not None:
                t = last_t
        elif mode == 2:    # same bounds object, new point object, new tolerance
            x0, y0 = bounds[0]
            x1, y1 = bounds[1]
            point = [x, y]
        else:              # everything mutated in place
            bounds[0][0], bounds[0][1], bounds[1][0], bounds[1][1] = x0, y0, x1, y1
            point[0], point[1] = x, y
        (bx0, by0), (bx1, by1) = bounds
        px, py = point
        if not (band_computable(bx0, bx1, t) and band_computable(by0, by1, t)):   # band not computable / not finite with this tolerance
            t = 0
        last_t = t
        inp = {'fn': 'point_in_bounds(sequence, same objects mutated in place)', 'step': i,
               'args': [pyval(z) for z in (px, py, bx0, by0, bx1, by1, t)]}
        try:
            r = pu.point_in_bounds(point, bounds, t)
            fx = pu.checkLimitsTol(px, bx0, bx1, t)[1]
            fy = pu.checkLimitsTol(py, by0, by1, t)[1]
            c1 = pu.checkLimits(px, bx0, bx1)
            c2 = pu.constrainLimits(px, bx0, bx1)
        except Exception as ex:
            ctx.count(('seq', i)); ctx.violate(f'sequence call raised {type(ex).__name__}', inp, repr(ex), 'a value'); continue
        ctx.count(('seq', i, tuple(inp['args'])), 'sequence', True)
        wantb = (not flag_spec(px, bx0, bx1, t)) and (not flag_spec(py, by0, by1, t))
        if r != wantb:
            ctx.violate('point_in_bounds: not "within tolerance of the bounds" (call sequence)', inp, str(r), str(wantb))
        if r != ((not fx) and (not fy)):
            ctx.violate('point_in_bounds disagrees with checkLimitsTol per coordinate (call sequence)', inp, str(r), str((not fx) and (not fy)))
        want = px if inside(px, bx0, bx1) else (bx1 if Fraction(px) > Fraction(bx1) else bx0)
        if Fraction(c1[0]) != Fraction(want) or c1[1] != (not inside(px, bx0, bx1)) or Fraction(c2) != Fraction(want):
            ctx.violate('checkLimits/constrainLimits wrong in a call sequence', inp, pyval((c1, c2)), pyval(want))


def run(ctx):
    from plotink import plot_utils as pu
    rng = ctx.rng
    cases = []
    if SITECOV_ONLY:
        for _ in range(ctx.n(4000)):
            cases.append(gen_plain(rng))
        ctx.notes.append('SITECOV_ONLY: the small box and the boundary-biased generator are disabled; inputs = unbiased random '
                         'cases + the sitecov stream')
    else:
        # exhaustive small integer box
        for lo in range(-2, 3):
            for hi in range(lo, 3):
                for v in range(-4, 5):
                    for tol in (0, 1):
                        cases.append((v, lo, hi, tol))
        for _ in range(ctx.n(4000)):
            cases.append(gen_case(rng))
        # extreme magnitudes (far values, narrow ranges at large offsets, overflowing / subnormal ranges, ints > 2**53)
        for _ in range(ctx.n(1500)):
            cases.append(gen_far(rng))
        ctx.notes.append('scope: in the extreme-magnitude stream the tolerance is replaced (by an int / by 0) whenever the band '
                         'lower - tol / upper + tol is not computable (int beyond the float range with a float tolerance: '
                         'OverflowError in the unchanged code as well), overflows to +-inf, or does not contain the range (int '
                         'bound beyond 2**53 rounded into the range by the float addition: hypothesis of C18_point_in_bounds); ints beyond the float range occur '
                         'as value with any bounds, as bounds only with an int tolerance')
    pts = pipeline(ctx, pu, cases, None, sequences=True)
    pipeline(ctx, pu, [], list(WITNESS_PTS))      # corpus: bound above 2**53 on which the float band rounds into the range
    # the sitecov search converts ints to float: keep ints beyond the float range out of its seeds
    small = lambda c: all(type(z) is not int or abs(z) < 2 ** 1000 for z in c)          # noqa: E731
    cases = [c for c in cases if small(c)]
    pts = [q for q in pts if small(q)]

    # ---- sitecov stream: boundary inputs for every comparison of the CURRENT source, through the same pipeline ----
    if not SITECOV_OFF:
        num4 = {0: 'num', 1: 'num', 2: 'num', 3: 'num'}
        seeds = rng.sample(cases, min(len(cases), 150))
        tol_of = lambda: rng.choice([0, 1e-9, 0.5, 1])                  # noqa: E731  (checkLimits has no tolerance)
        sitecov.stream(ctx, 'checkLimits', pu.checkLimits, [c[:3] for c in seeds],
                       rerun=lambda cs: pipeline(ctx, pu, cs, []), to_case=lambda a: a + (tol_of(),),
                       moves=sitecov.Moves(kinds=num4, domain=lambda a: in_domain(a + (0,))), budget=800)
        sitecov.stream(ctx, 'checkLimitsTol', pu.checkLimitsTol, seeds, rerun=lambda cs: pipeline(ctx, pu, cs, []),
                       moves=sitecov.Moves(kinds=num4, lo={3: 0}, domain=in_domain), budget=1500)
        sitecov.stream(ctx, 'constrainLimits', pu.constrainLimits, [c[:3] for c in seeds],
                       rerun=lambda cs: pipeline(ctx, pu, cs, []), to_case=lambda a: a + (tol_of(),),
                       moves=sitecov.Moves(kinds=num4, domain=lambda a: in_domain(a + (0,))), budget=300)
        seeds2 = rng.sample(pts, min(len(pts), 150))
        sitecov.stream(ctx, 'point_in_bounds', pu.point_in_bounds, seeds2, rerun=lambda ps: pipeline(ctx, pu, [], ps),
                       apply=lambda tw, a: tw([a[0], a[1]], [[a[2], a[3]], [a[4], a[5]]], a[6]),
                       moves=sitecov.Moves(kinds={j: 'num' for j in range(7)}, lo={6: 0}, domain=in_domain2), budget=2000)


def pipeline(ctx, pu, cases, pts, sequences=False):
    """driver answers, real code, correspondence and oracle for 1-D cases (v, lo, hi, tol) and 2-D cases
    (x, y, x0, y0, x1, y1, t); pts = None pairs consecutive 1-D cases.  Returns the 2-D cases."""
    lines, meta = [], []
    for (v, lo, hi, tol) in cases:
        a = [pyval(v), pyval(lo), pyval(hi)]
        lines.append('gen checkLimits 15 ' + ' '.join(a)); meta.append(('checkLimits', (v, lo, hi, tol)))
        lines.append('gen checkLimitsTol 15 ' + ' '.join(a + [pyval(tol)])); meta.append(('checkLimitsTol', (v, lo, hi, tol)))
        lines.append('gen constrainLimits 15 ' + ' '.join(a)); meta.append(('constrainLimits', (v, lo, hi, tol)))
    if pts is None:
        # 2-D cases: pair consecutive 1-D cases sharing the tolerance
        pts = []
        for i in range(0, len(cases) - 1, 2):
            (x, x0, x1, t), (y, y0, y1, t2) = cases[i], cases[i + 1]
            if not band_computable(y0, y1, t):    # the shared tolerance must give a computable, finite band on both axes
                t = t2 if band_computable(x0, x1, t2) else 0
            pts.append((x, y, x0, y0, x1, y1, t))
    for pt in pts:
        lines.append('gen point_in_bounds 15 ' + ' '.join(pyval(z) for z in pt))
        meta.append(('point_in_bounds', tuple(pt)))
    outs = ctx.driver.batch(lines) if ctx.driver else [None] * len(lines)
    for (fn, args), out in zip(meta, outs):
        try:
            if fn == 'checkLimits':
                v, lo, hi, tol = args
                r = pu.checkLimits(v, lo, hi)
            elif fn == 'checkLimitsTol':
                v, lo, hi, tol = args
                r = pu.checkLimitsTol(v, lo, hi, tol)
            elif fn == 'constrainLimits':
                v, lo, hi, tol = args
                r = pu.constrainLimits(v, lo, hi)
            else:
                x, y, x0, y0, x1, y1, t = args
                r = pu.point_in_bounds([x, y], [[x0, y0], [x1, y1]], t)
        except Exception as ex:  # the helpers must not raise on numeric input
            ctx.count((fn, args))
            ctx.violate(f'{fn} raised {type(ex).__name__}', {'fn': fn, 'args': list(args)}, repr(ex), 'a value')
            continue
        impl = pyval(r)
        if fn != 'point_in_bounds':
            v, lo, hi, tol = args
            nontriv = not (Fraction(lo) < Fraction(v) < Fraction(hi))
            path = ('in' if inside(v, lo, hi) else 'above' if Fraction(v) > Fraction(hi) else 'below')
            ctx.count((fn, args), f'{fn}:{path}', nontriv)
        else:
            ctx.count((fn, args), fn, True)
        ctx.sample({'fn': fn, 'args': [pyval(a) for a in args], 'impl': impl})
        if out is not None and out != impl:
            big_mixed = any(type(a) is int and abs(a) > 2 ** 53 for a in args) and any(type(a) is float for a in args)
            if big_mixed:
                # CPython converts an int operand to float BEFORE a mixed operation (two roundings); the Py.Val library
                # rounds the exact result once.  The two agree for |int| <= 2**53; beyond, the difference is the model's,
                # logged and never judged (the oracle below is independent of the model)
                if len(ctx.out_of_domain) < 50:
                    ctx.out_of_domain.append({'what': 'Gen vs CPython on mixed int/float arithmetic with |int| > 2**53 (double rounding)',
                                              'input': {'fn': fn, 'args': [pyval(a) for a in args]}, 'impl': impl, 'model': out})
            else:
                ctx.disagree(fn, {'fn': fn, 'args': [pyval(a) for a in args]}, impl, out)
        # ---- property oracle (independent of the model) ----
        inp = {'fn': fn, 'args': [pyval(a) for a in args]}
        if fn in ('checkLimits', 'checkLimitsTol'):
            val, flag = r
            want = v if inside(v, lo, hi) else (hi if Fraction(v) > Fraction(hi) else lo)
            if Fraction(val) != Fraction(want):
                ctx.violate(f'{fn}: wrong limited value', inp, impl, pyval(want))
            if fn == 'checkLimits' and flag != (not inside(v, lo, hi)):
                ctx.violate('checkLimits: flag is not "outside the range"', inp, impl, str(not inside(v, lo, hi)))
            if fn == 'checkLimitsTol':
                # band as the code computes it (float addition when floats are involved)
                wantf = flag_spec(v, lo, hi, tol)
                if flag != wantf:
                    ctx.violate('checkLimitsTol: flag is not "outside by more than the tolerance"', inp, impl, str(wantf))
        elif fn == 'constrainLimits':
            want = v if inside(v, lo, hi) else (hi if Fraction(v) > Fraction(hi) else lo)
            if Fraction(r) != Fraction(want):
                ctx.violate('constrainLimits: wrong value', inp, impl, pyval(want))
        else:
            wantb = (not flag_spec(x, x0, x1, t)) and (not flag_spec(y, y0, y1, t))
            try:
                fx = pu.checkLimitsTol(x, x0, x1, t)[1]
                fy = pu.checkLimitsTol(y, y0, y1, t)[1]
            except Exception as ex:  # judged where the 1-D case is judged; here only the band reading remains
                ctx.violate(f'checkLimitsTol raised {type(ex).__name__} (per-coordinate reference of point_in_bounds)', inp,
                            repr(ex), 'a value')
                fx = fy = None
            if fx is not None and r != ((not fx) and (not fy)):
                ctx.violate('point_in_bounds disagrees with checkLimitsTol per coordinate', inp, impl, str((not fx) and (not fy)))
            if r != wantb:
                ctx.violate('point_in_bounds: not "within tolerance of the bounds"', inp, impl, str(wantb))
    if sequences:     # after the single calls, so that the replay leads with the plain single-call failing inputs
        run_sequences(ctx, pu, pts)
    return pts
