"""C11 — plot_utils.vb_scale follows the SVG 1.1 preserveAspectRatio rules.

Streams
  V  valid: exhaustive {none + 9 aligns} x {meet, slice, absent} x {defer or not} x {page relatively wider,
     equal, taller} x viewBox/page boxes, random casing and separator runs; an "exact" class (powers of
     two: every binary64 operation of the code is exact -> exact comparison) and a decimal class
     (compared within a measured relative tolerance)
  I  identity: missing viewBox, fewer than four numbers, a non-numeric token among the first four,
     non-positive width/height of viewBox or page
  S  call SEQUENCES in one process (state carried between calls: memos keyed on too little, stale
     parses): the same attribute strings with scaled / swapped / non-positive / int-vs-float page sizes,
     the same numbers with different viewBox or preserveAspectRatio strings (other spelling of the same
     values, other values, other alignment), identical calls repeated, identity causes interleaved
     with valid calls; every call of a sequence is judged by the oracle and compared with the model
  M  magnitudes: viewBox coordinates 1e-6 .. 1e12 against small pages and the reverse, near-equal
     aspect ratios (one ulp apart), viewBox size exactly equal to the page with a non-zero origin
  O  outside the quantifier (logged only): unknown align / meetOrSlice words, nan/inf tokens, more than
     four viewBox tokens, underscores in numerals
The oracle computes the SVG-prescribed transform with Fractions from the generator's own knowledge of
the case (never by parsing the text, never through the model).
"""
import json, math, os
from fractions import Fraction
from .common import enc_str, frac_str, Infra
from .c12 import render, BLANKS

RULE = ('exhaustive align x meetOrSlice x defer x aspect-order cross product over a grid of exact (power-of-two) and '
        'decimal boxes with random casing/separators; identity stream (missing, short, non-numeric, non-positive); '
        'non-trivial = alignment other than the default or a non-equal aspect ratio or an identity cause; distinct by '
        '(viewBox text, preserveAspectRatio text, width, height)')
TRUSTED = ['hand-written Model/C11.lean tied by differential execution (exact on the power-of-two class)',
           'Model/PyFloat.lean as model of CPython float(str) on ASCII (differential-tested by the C12 check)',
           'binary64 arithmetic is runtime residue: decimal class compared within 1e-12 relative (measured)']
ASSUMPTIONS = ['ASCII attribute text; document width/height are finite ints/floats',
               'viewBox tokens nan/inf/overflowing numerals, unknown align or meetOrSlice words and viewBoxes with more '
               'than four tokens are outside the quantifier ("valid viewBox", "any of the nine alignments or none, '
               'meet or slice"): logged, not judged']
STAGED = []

POS = ['min', 'mid', 'max']
ALIGNS = ['none'] + ['x' + a.capitalize() + 'Y' + b.capitalize() for b in POS for a in POS]
TOL = 1e-12


def casing(rng, w):
    k = rng.random()
    if k < 0.35:
        return w
    if k < 0.5:
        return w.lower()
    if k < 0.6:
        return w.upper()
    return ''.join(c.upper() if rng.random() < 0.5 else c.lower() for c in w)


def seps(rng, nonempty=True):
    n = rng.choice([1, 1, 1, 2, 3]) if nonempty else rng.choice([0, 0, 1, 2])
    return ''.join(rng.choice([' ', ' ', ',', '\t', '\n', ', ', ' ,', '\x0c', '\x1f']) for _ in range(n))


def par_text(rng, align, mos, defer, plain=False):
    """text of the attribute for (align, mos|None, defer)"""
    if plain:
        return ('defer ' if defer else '') + align + (' ' + mos if mos else '')
    t = seps(rng, False)
    if defer:
        t += casing(rng, 'defer') + seps(rng)
    t += casing(rng, align)
    if mos is not None:
        t += seps(rng) + casing(rng, mos)
    return t + seps(rng, False)


def vb_text(rng, nums, plain=False):
    parts = [render(rng, q, plain=plain) for q in nums]
    if plain:
        return ' '.join(parts)
    out = seps(rng, False)
    for i, p in enumerate(parts):
        if i:
            out += seps(rng)
        out += p
    return out + seps(rng, False)


def expected(x, y, w, h, W, H, align, mos):
    """the transform SVG 1.1 prescribes, exact; (x + ox) * sx convention"""
    rx, ry = W / w, H / h
    if align == 'none':
        return rx, ry, -x, -y
    s = min(rx, ry) if mos == 'meet' else max(rx, ry)
    ax, ay = align[1:4].lower(), align[5:8].lower()

    def off(p, m, l, L):
        # the named viewBox position lands on the named page position
        if p == 'min':
            return -m
        if p == 'mid':
            return L / (2 * s) - m - l / 2
        return L / s - m - l

    return s, s, off(ax, x, w, W), off(ay, y, h, H)


def boxes(rng, n_exact, n_dec):
    """(x, y, w, h, W, H, exact?) — page relatively wider / equal / taller, interleaved"""
    out = []
    for i in range(n_exact):
        w = Fraction(2) ** rng.randint(-3, 8)
        h = Fraction(2) ** rng.randint(-3, 8)
        W = Fraction(2) ** rng.randint(-2, 10)
        k = i % 3
        H = W * h / w * (Fraction(2) ** (rng.randint(1, 3) if k == 0 else 0 if k == 1 else -rng.randint(1, 3)))
        x = Fraction(rng.randint(-80, 80), 8)
        y = Fraction(rng.randint(-80, 80), 8)
        out.append((x, y, w, h, W, H, True))
    for i in range(n_dec):
        w = Fraction(rng.randint(1, 20000), 10 ** rng.randint(0, 3))
        h = Fraction(rng.randint(1, 20000), 10 ** rng.randint(0, 3))
        W = Fraction(rng.randint(1, 20000), 10 ** rng.randint(0, 2))
        k = i % 3
        if k == 1:
            H = W * h / w
            if H.denominator > 10 ** 6 or any(H.denominator % p == 0 for p in (3, 7, 11, 13, 17, 19)):
                # keep it a short decimal where possible; otherwise make the page a multiple of the viewBox
                m = rng.randint(1, 12)
                W, H = w * m, h * m
        elif k == 0:
            H = W * h / w * Fraction(rng.randint(101, 400), 100)
        else:
            H = W * h / w * Fraction(rng.randint(20, 99), 100)
        x = Fraction(rng.randint(-5000, 5000), 10 ** rng.randint(0, 2))
        y = Fraction(rng.randint(-5000, 5000), 10 ** rng.randint(0, 2))
        out.append((x, y, w, h, W, H, False))
    return out


def page_arg(rng, q, exact):
    """document width/height as the caller would pass it: int or float"""
    f = float(q)
    if q.denominator == 1 and rng.random() < 0.5:
        return int(q)
    return f


def asp_of(w, h, W, H):
    W, H = Fraction(W), Fraction(H)
    return 'wider' if H * w < W * h else 'taller' if H * w > W * h else 'equal'


def vcase(nums, align, mos, vb, par, W, H, exact):
    """one valid call; W, H are the actual arguments (int/float)"""
    x, y, w, h = nums
    return dict(kind='V', vb=vb, par=par, W=W, H=H, nums=nums, align=align, mos=mos or 'meet', exact=exact,
                asp=asp_of(w, h, W, H))


def scaled(Wf, k):
    """k * Wf as the caller would compute it (k a power of two or small integer: exact in binary64)"""
    r = Wf * k
    if isinstance(r, float) and r.is_integer() and isinstance(Wf, int):
        return int(r)
    return r


def sequences(rng, n, tag):
    """ordered groups of related calls (the whole run is one process, so list order = call order)"""
    out = []
    for i in range(n):
        start = len(out)
        a = rng.choice(ALIGNS)
        m = rng.choice(['meet', 'slice', None])
        d = rng.random() < 0.3
        x, y, w, h, W, H, exact = boxes(rng, 1, 1)[i % 2] if i % 3 else boxes(rng, 3, 3)[rng.randint(0, 5)]
        plain = i < 6
        vb = vb_text(rng, [x, y, w, h], plain=plain)
        par = par_text(rng, a, m, d, plain=plain)
        if a == 'xMidYMid' and m is None and not d and rng.random() < 0.5:
            par = None
        Wf, Hf = page_arg(rng, W, exact), page_arg(rng, H, exact)
        nums = (x, y, w, h)
        kind = i % 8
        if kind == 0:      # same strings, page scaled (same aspect ratio), then the first again
            out.append(vcase(nums, a, m, vb, par, Wf, Hf, exact))
            for k in (2, 0.5, 4, 8) if exact else (2, 0.5, 3, 10):
                out.append(vcase(nums, a, m, vb, par, scaled(Wf, k), scaled(Hf, k), exact))
            out.append(vcase(nums, a, m, vb, par, Wf, Hf, exact))
        elif kind == 1:    # same strings, page transposed / one side changed
            out.append(vcase(nums, a, m, vb, par, Wf, Hf, exact))
            out.append(vcase(nums, a, m, vb, par, Hf, Wf, exact))
            out.append(vcase(nums, a, m, vb, par, Wf, scaled(Hf, 2), exact))
            out.append(vcase(nums, a, m, vb, par, scaled(Wf, 2), Hf, exact))
            out.append(vcase(nums, a, m, vb, par, Wf, Hf, exact))
        elif kind == 2:    # same numbers and viewBox, every alignment in turn, then the first again
            order = ALIGNS[:]
            rng.shuffle(order)
            for a2 in order[:6] + [order[0]]:
                for m2 in ('meet', 'slice'):
                    out.append(vcase(nums, a2, m2, vb, par_text(rng, a2, m2, d, plain=plain), Wf, Hf, exact))
        elif kind == 3:    # same numbers and preserveAspectRatio, the same viewBox values spelled differently, then other values
            out.append(vcase(nums, a, m, vb, par, Wf, Hf, exact))
            out.append(vcase(nums, a, m, vb_text(rng, [x, y, w, h]), par, Wf, Hf, exact))
            n2 = (y, x, w * 2, h) if exact else (y, x, w * 3, h)
            out.append(vcase(n2, a, m, vb_text(rng, list(n2), plain=plain), par, Wf, Hf, exact))
            n3 = (x + 1, y - 2, w, h * 2)
            out.append(vcase(n3, a, m, vb_text(rng, list(n3), plain=plain), par, Wf, Hf, exact))
            out.append(vcase(nums, a, m, vb, par, Wf, Hf, exact))
        elif kind == 4:    # identical calls repeated; int and float spellings of the same page size
            for _ in range(3):
                out.append(vcase(nums, a, m, vb, par, Wf, Hf, exact))
            out.append(vcase(nums, a, m, vb, par, float(Wf), float(Hf), exact))
            if float(Wf).is_integer() and float(Hf).is_integer():
                out.append(vcase(nums, a, m, vb, par, int(Wf), int(Hf), exact))
        elif kind == 5:    # identity causes between valid calls on the same strings
            out.append(vcase(nums, a, m, vb, par, Wf, Hf, exact))
            out.append(dict(kind='I', why='doc<=0', vb=vb, par=par, W=0, H=Hf))
            out.append(vcase(nums, a, m, vb, par, Wf, Hf, exact))
            out.append(dict(kind='I', why='doc<=0', vb=vb, par=par, W=Wf, H=-Hf))
            out.append(dict(kind='I', why='missing', vb=None, par=par, W=Wf, H=Hf))
            out.append(vcase(nums, a, m, vb, par, scaled(Wf, 2), scaled(Hf, 2), exact))
            bad = ' '.join(vb.split()[:3]) if plain else None
            if bad is not None:
                out.append(dict(kind='I', why='short', vb=bad, par=par, W=Wf, H=Hf))
                out.append(dict(kind='I', why='bad', vb=bad + ' abc', par=par, W=Wf, H=Hf))
            out.append(dict(kind='I', why='vb<=0', vb=vb_text(rng, [x, y, -w, h], plain=plain), par=par, W=Wf, H=Hf))
            out.append(vcase(nums, a, m, vb, par, Wf, Hf, exact))
        elif kind == 6:    # same strings: wider, equal and taller pages in turn, each twice
            for (W2, H2) in ((w * 2, h), (w * 2, h * 2), (w, h * 2), (w, h), (w * 2, h), (w, h * 2)):
                out.append(vcase(nums, a, m, vb, par, float(W2), float(H2), exact))
        else:              # other casing / separators of the same preserveAspectRatio, then defer toggled
            out.append(vcase(nums, a, m, vb, par_text(rng, a, m, d), Wf, Hf, exact))
            out.append(vcase(nums, a, m, vb, par_text(rng, a, m, d), scaled(Wf, 2), scaled(Hf, 2), exact))
            out.append(vcase(nums, a, m, vb, par_text(rng, a, m, not d), scaled(Wf, 4), scaled(Hf, 4), exact))
            out.append(vcase(nums, a, m, vb, par_text(rng, a, m, d, plain=True), Wf, Hf, exact))
        for c_ in out[start:]:
            c_['seq'] = (tag, i)
    return out


def magnitude_cases(rng, n):
    """valid calls far from unit scale, near-equal aspect ratios, viewBox size equal to the page"""
    out = []
    for i in range(n):
        a = rng.choice(ALIGNS)
        m = rng.choice(['meet', 'slice', None])
        par = par_text(rng, a, m, False, plain=rng.random() < 0.5)
        kind = i % 4
        if kind == 0:      # huge viewBox, small page (and exponent spellings)
            e = rng.randint(3, 12)
            w = Fraction(rng.randint(1, 9999), 10 ** rng.randint(0, 3)) * 10 ** e
            h = Fraction(rng.randint(1, 9999), 10 ** rng.randint(0, 3)) * 10 ** rng.randint(max(3, e - 2), e + 2)
            x = Fraction(rng.randint(-9999, 9999)) * 10 ** rng.randint(0, e)
            y = Fraction(rng.randint(-9999, 9999)) * 10 ** rng.randint(0, e)
            Wf = float(Fraction(rng.randint(1, 2000), 10 ** rng.randint(0, 2)))
            Hf = float(Fraction(rng.randint(1, 2000), 10 ** rng.randint(0, 2)))
        elif kind == 1:    # tiny viewBox, large page
            e = rng.randint(2, 6)
            w = Fraction(rng.randint(1, 9999), 10 ** (e + rng.randint(0, 3)))
            h = Fraction(rng.randint(1, 9999), 10 ** (e + rng.randint(0, 3)))
            x = Fraction(rng.randint(-9999, 9999), 10 ** rng.randint(0, e + 3))
            y = Fraction(rng.randint(-9999, 9999), 10 ** rng.randint(0, e + 3))
            Wf = float(rng.randint(1, 10 ** 6))
            Hf = float(rng.randint(1, 10 ** 6))
        elif kind == 2:    # aspect ratios one ulp apart (either side) and exactly equal in binary64 terms
            w = Fraction(rng.randint(1, 20000), 10 ** rng.randint(0, 3))
            h = Fraction(rng.randint(1, 20000), 10 ** rng.randint(0, 3))
            x = Fraction(rng.randint(-5000, 5000), 10)
            y = Fraction(rng.randint(-5000, 5000), 10)
            Wf = float(Fraction(rng.randint(1, 20000), 10))
            Hf = float(Fraction(Wf) * h / w)
            Hf = rng.choice([Hf, math.nextafter(Hf, math.inf), math.nextafter(Hf, 0.0),
                             math.nextafter(math.nextafter(Hf, math.inf), math.inf)])
        else:              # scale exactly 1, origin not at (0, 0)
            w = Fraction(rng.randint(1, 4000), rng.choice([1, 2, 4, 10]))
            h = Fraction(rng.randint(1, 4000), rng.choice([1, 2, 4, 10]))
            x = Fraction(rng.randint(-400, 400), rng.choice([1, 2, 10]))
            y = Fraction(rng.randint(-400, 400), rng.choice([1, 2, 10]))
            Wf, Hf = page_arg(rng, w, False), page_arg(rng, h, False)
        out.append(vcase((x, y, w, h), a, m, vb_text(rng, [x, y, w, h], plain=rng.random() < 0.3), par, Wf, Hf, False))
    return out


def run(ctx):
    from plotink import plot_utils as pu
    rng = ctx.rng
    drv = ctx.driver
    cases = []   # dict(vb, par, W, H, kind, ...)
    # ---------------- corpus first (defect witnesses, hand-made boundary cases) ----------------
    cdir = os.path.join(os.path.dirname(os.path.dirname(os.path.abspath(__file__))), 'corpus', 'C11')
    if os.path.isdir(cdir):
        for fn in sorted(os.listdir(cdir)):
            if fn.endswith('.jsonl'):
                for line in open(os.path.join(cdir, fn)):
                    if line.strip():
                        cases.append(json.loads(line))

    # ---------------- S: call sequences (first: nothing has been memoised yet) ----------------
    cases += sequences(rng, ctx.n(48), 'first')
    # ---------------- M: magnitudes / near ties / coincidences ----------------
    cases += magnitude_cases(rng, ctx.n(400))

    # ---------------- V: valid ----------------
    combos = [(a, m, d) for a in ALIGNS for m in ('meet', 'slice', None) for d in (False, True)]
    reps = ctx.n(30)
    for rep in range(reps):
        for (a, m, d) in combos:
            bx = boxes(rng, 3, 3)     # each: wider, equal, taller
            for (x, y, w, h, W, H, exact) in bx:
                Wf, Hf = page_arg(rng, W, exact), page_arg(rng, H, exact)
                cases.append(dict(kind='V', vb=vb_text(rng, [x, y, w, h], plain=(rep == 0)),
                                  par=par_text(rng, a, m, d, plain=(rep == 0)),
                                  W=Wf, H=Hf, nums=(x, y, w, h), align=a, mos=m or 'meet', exact=exact,
                                  asp=('wider' if H * w < W * h else 'taller' if H * w > W * h else 'equal')))
    # absent / empty / blank attribute: xMidYMid meet
    for par in (None, '', ' ', ' , ', '\t'):
        for (x, y, w, h, W, H, exact) in boxes(rng, 3, 3):
            cases.append(dict(kind='V', vb=vb_text(rng, [x, y, w, h]), par=par, W=page_arg(rng, W, exact),
                              H=page_arg(rng, H, exact), nums=(x, y, w, h), align='xMidYMid', mos='meet', exact=exact,
                              asp=('wider' if H * w < W * h else 'taller' if H * w > W * h else 'equal')))
    # `defer` alone
    for (x, y, w, h, W, H, exact) in boxes(rng, 3, 3):
        cases.append(dict(kind='V', vb=vb_text(rng, [x, y, w, h]), par=casing(rng, 'defer') + seps(rng, False),
                          W=page_arg(rng, W, exact), H=page_arg(rng, H, exact), nums=(x, y, w, h), align='xMidYMid',
                          mos='meet', exact=exact,
                          asp=('wider' if H * w < W * h else 'taller' if H * w > W * h else 'equal')))

    # ---------------- I: identity ----------------
    good = lambda: boxes(rng, 1, 1)[rng.randint(0, 1)]   # noqa
    bad_tokens = ['abc', '1px', '--1', '1e', '0x10', '1..2', '.', '-', '+', 'e5', '1-2', '1e+', 'ten', '1mm', '%', '1/2',
                  '(1)', '1;', '#', '1e5.0', '1_', '_1']
    for _ in range(max(1, ctx.n(4) // 4)):
        for a in ('xMinYMax', None, 'none', 'xMaxYMid slice'):
            x, y, w, h, W, H, exact = good()
            Wf, Hf = page_arg(rng, W, exact), page_arg(rng, H, exact)
            cases.append(dict(kind='I', why='missing', vb=None, par=a, W=Wf, H=Hf))
            for k in range(4):
                toks = [render(rng, q) for q in (x, y, w, h)][:k]
                vb = seps(rng, False) + seps(rng).join(toks) + seps(rng, False)
                cases.append(dict(kind='I', why='short', vb=vb, par=a, W=Wf, H=Hf))
            for bt in bad_tokens:
                toks = [render(rng, q) for q in (x, y, w, h)]
                toks[rng.randint(0, 3)] = bt
                cases.append(dict(kind='I', why='bad', vb=seps(rng, False) + seps(rng).join(toks) + seps(rng, False),
                                  par=a, W=Wf, H=Hf))
            for (ww, hh) in ((0, h), (w, 0), (-w, h), (w, -h), (0, 0), (-w, -h)):
                cases.append(dict(kind='I', why='vb<=0', vb=vb_text(rng, [x, y, Fraction(ww), Fraction(hh)]), par=a, W=Wf, H=Hf))
            for (WW, HH) in ((0, Hf), (Wf, 0), (-Wf, Hf), (Wf, -Hf), (0.0, Hf), (Wf, -0.0), (0, 0), (-1, -1)):
                cases.append(dict(kind='I', why='doc<=0', vb=vb_text(rng, [x, y, w, h]), par=a, W=WW, H=HH))

    # ---------------- S again, after a long history of other calls ----------------
    cases += sequences(rng, ctx.n(24), 'late')

    # ---------------- O: outside the quantifier ----------------
    for _ in range(max(1, ctx.n(4) // 4)):
        for par in ('xMidYMid foo', 'xmidymi', 'meet', 'slice xMinYMin', 'xMinYMin;slice', 'xMin YMin', 'defer defer xMinYMin',
                    'xMinYMin meet slice', 'none slice', 'xMaxYMax Meet extra'):
            x, y, w, h, W, H, exact = good()
            cases.append(dict(kind='O', vb=vb_text(rng, [x, y, w, h]), par=par, W=float(W), H=float(H)))
        for vbt in ('0 0 nan 10', '0 0 10 inf', 'nan 0 10 10', '0 0 1e400 10', '0 0 -inf 5', '0 0 10 10 abc', '0 0 10 10 5',
                    '0 0 1_0 10', '0 0 10 1_0_0', 'inf inf inf inf', '0 0 abc nan', '0 nan abc 1'):
            cases.append(dict(kind='O', vb=vbt, par=rng.choice([None, 'xMinYMin', 'none']), W=100.0, H=50))

    # ---------------- model ----------------
    def e(s):
        return 'None' if s is None else enc_str(s)

    lines = [f"c11 vb {e(c['vb'])} {e(c['par'])} {frac_str(Fraction(c['W']))} {frac_str(Fraction(c['H']))}" for c in cases]
    outs = drv.batch(lines) if drv else [None] * len(lines)
    worst = {'exact': 0.0, 'dec': 0.0}

    def close(impl, want, scale, exact):
        """impl float/int vs exact Fraction"""
        d = abs(Fraction(impl) - want)
        if exact:
            return d == 0, 0.0
        rel = float(d / scale) if scale else (0.0 if d == 0 else math.inf)
        return rel <= TOL, rel

    seq_hist = {}
    for c, out in zip(cases, outs):
        inp = {'v_b': c['vb'], 'p_a_r': c['par'], 'doc_width': repr(c['W']), 'doc_height': repr(c['H'])}
        if 'seq' in c:      # a call of a sequence: the earlier calls of the sequence belong to the failing input
            h_ = seq_hist.setdefault(c['seq'], [])
            if h_:
                inp['earlier_calls_of_the_sequence'] = [list(t_) for t_ in h_]
            h_.append((c['vb'], c['par'], repr(c['W']), repr(c['H'])))
        key = (c['vb'], c['par'], repr(c['W']), repr(c['H']))
        mpath = None
        mvals = None
        if out is not None:
            body, mpath = out.rsplit('|', 1)
            mvals = None if body == 'NONFINITE' else [Fraction(t) for t in body.split(' ')]
        try:
            r = pu.vb_scale(c['vb'], c['par'], c['W'], c['H'])
            exc = None
        except Exception as ex:  # noqa
            r, exc = None, ex
        if c['kind'] == 'O':
            ctx.count(key, 'ood:' + (mpath or '?'), True)
            ok = exc is None and r is not None and len(r) == 4 and all(isinstance(t, (int, float)) and math.isfinite(t) for t in r)
            if not ok:
                if len(ctx.out_of_domain) < 100:
                    ctx.out_of_domain.append({'input': inp, 'impl': repr(exc or r), 'model': out})
            elif mvals is None or any(abs(Fraction(a) - b) > Fraction(TOL) * max(1, abs(b)) for a, b in zip(r, mvals)):
                if len(ctx.out_of_domain) < 100:
                    ctx.out_of_domain.append({'input': inp, 'impl': repr(r), 'model': out})
            continue
        if c['kind'] == 'I':
            ctx.count(key, mpath or ('id:' + c['why']), True)
            if exc is not None:
                ctx.violate(f'vb_scale raised {type(exc).__name__} instead of returning the identity transform '
                            f'({c["why"]})', inp, repr(exc), '(1, 1, 0, 0)',
                            key='malformed-viewbox-raises' if c['why'] == 'bad' else None)
                if mvals is not None and mvals != [1, 1, 0, 0]:
                    ctx.disagree('vb_scale (identity stream)', inp, repr(exc), out)
                continue
            okv = isinstance(r, tuple) and len(r) == 4 and all(isinstance(t, (int, float)) and not isinstance(t, bool) for t in r) \
                and [Fraction(t) for t in r] == [1, 1, 0, 0]
            if not okv:
                ctx.violate(f'vb_scale did not return the identity transform ({c["why"]})', inp, repr(r), '(1, 1, 0, 0)')
            if mvals is not None and (not okv) != (mvals != [1, 1, 0, 0]):
                ctx.disagree('vb_scale (identity stream)', inp, repr(r), out)
            continue
        # ---- valid ----
        x, y, w, h = c['nums']
        W, H = Fraction(c['W']), Fraction(c['H'])
        nontrivial = not (c['align'] == 'xMidYMid' and c['asp'] == 'equal')
        ctx.count(key, (mpath or 'valid') + ':' + c['asp'], nontrivial)
        ctx.sample({'input': inp, 'impl': repr(r), 'model': out})
        if exc is not None:
            ctx.violate(f'vb_scale raised {type(exc).__name__} on a valid viewBox', inp, repr(exc), 'a transform')
            if mvals is not None:
                ctx.disagree('vb_scale', inp, repr(exc), out)
            continue
        if not (isinstance(r, tuple) and len(r) == 4 and all(isinstance(t, (int, float)) and not isinstance(t, bool)
                                                              and math.isfinite(t) for t in r)):
            ctx.violate('vb_scale: result is not four finite numbers', inp, repr(r), 'a transform')
            continue
        sx, sy, ox, oy = expected(x, y, w, h, W, H, c['align'], c['mos'])
        want = (sx, sy, ox, oy)
        # offsets live on the scale of the viewBox / the scaled page
        oscale_x = max(abs(x), w, W / sx)
        oscale_y = max(abs(y), h, H / sy)
        scales = (sx, sy, oscale_x, oscale_y)
        names = ('s_x', 's_y', 'o_x', 'o_y')
        for i in range(4):
            ok, rel = close(r[i], want[i], scales[i], c['exact'])
            worst['exact' if c['exact'] else 'dec'] = max(worst['exact' if c['exact'] else 'dec'], rel)
            if not ok:
                if c['align'] == 'none':
                    what = f'none: {names[i]} does not stretch the viewBox onto the page'
                elif i < 2:
                    what = f'{names[i]} is not the {"smaller" if c["mos"] == "meet" else "larger"} axis ratio ({c["mos"]})'
                else:
                    what = f'{names[i]}: viewBox not aligned to the page as {c["align"]} names'
                ctx.violate('vb_scale: ' + what, inp, repr(r), '(' + ', '.join(repr(float(t)) for t in want) + ')')
                break
        if mvals is not None:
            for i in range(4):
                ok, _ = close(r[i], mvals[i], scales[i], c['exact'])
                if not ok:
                    ctx.disagree('vb_scale', inp, repr(r), out)
                    break
        elif out is not None:
            ctx.disagree('vb_scale', inp, repr(r), out)
    if drv:
        need = ['id:missing', 'id:short', 'id:bad', 'id:vb<=0', 'id:doc<=0'] + \
               [f'{p_}:{a_}' for a_ in ('wider', 'equal', 'taller') for p_ in
                ('none', 'fillX:ymin', 'fillX:ymid', 'fillX:ymax', 'fillY:xmin', 'fillY:xmid', 'fillY:xmax')]
        missing = [p_ for p_ in need if p_ not in ctx.paths]
        if missing:
            raise Infra('model paths without input: ' + ', '.join(missing))
    ctx.notes.append(f'max relative deviation from the exact transform: exact class {worst["exact"]:.3g} (must be 0), '
                     f'decimal class {worst["dec"]:.3g} (tolerance {TOL})')
    if os.environ.get('VERIF_MEASURE'):
        print('C11 measure', worst)

    # =================================================================================================
    # ---- the SOURCE-REGENERATED code (translator, string subset): see gen_stream below ----------------
    gen_stream(ctx, pu, cases)
    # ======== "sitecov" input stream - self-contained, implemented at the end of this file ========
    _sitecov_tail(ctx)


# Generated-code stream: Gen.vb_scale (lean/Plotink/Gen/vb_scale.lean, regenerated from plot_utils.py on every run - the
# definition the C11_gen_* theorems are about) under Rounding.ieee against the real function on this module's own
# cases: the four numbers must be IDENTICAL (ints where the code returns ints, doubles bit for bit).  Not compared
# (outside the value domain of the generated code): non-ASCII text, non-finite tokens/results, magnitudes outside
# [1e-290, 1e290] (Rounding.ieee has an unbounded exponent).
GEN_FUNCTIONS = ['vb_scale']
TRUSTED = TRUSTED + ['Gen.vb_scale is regenerated from plot_utils.py on every run (C11_gen_* theorems); not verified, validated by '
                     'the generated-code stream of this run: the translator (string subset, try/except as err-values) and the '
                     'string library of Py.lean; Rounding.ieee as binary64']


def gen_stream(ctx, pu, cases):
    if not ctx.driver:
        ctx.notes.append('generated-code stream skipped: no driver')
        return
    import time
    from .common import pyval
    t0 = time.time()

    def sarg(t):
        return 'None' if t is None else 's' + enc_str(t)
    sel = [c for c in cases if all(t is None or (isinstance(t, str) and all(ord(ch) < 128 for ch in t)) for t in (c['vb'], c['par']))
           and all(isinstance(t, (int, float)) and not isinstance(t, bool) and math.isfinite(t) for t in (c['W'], c['H']))]
    cap = ctx.n(12000)
    if len(sel) > cap:
        sel = sel[:500] + ctx.rng.sample(sel[500:], max(0, min(len(sel) - 500, cap - 500))) if len(sel) > 500 else sel[:max(cap, 0)]
    outs = ctx.driver.batch([f"gen vb_scale 15 {sarg(c['vb'])} {sarg(c['par'])} {pyval(c['W'])} {pyval(c['H'])}" for c in sel])
    n = bad = skipped = 0
    for c, g in zip(sel, outs):
        try:
            r = pu.vb_scale(c['vb'], c['par'], c['W'], c['H'])
        except Exception as ex:
            r = ex
        if not isinstance(r, Exception):
            fl = [t for t in r if isinstance(t, float)]
            if any(not math.isfinite(t) or (t != 0 and not 1e-290 <= abs(t) <= 1e290) for t in fl):
                skipped += 1
                continue
        want = 'RAISE ' + type(r).__name__ if isinstance(r, Exception) else pyval(r)
        if g != want and not isinstance(r, Exception) and any(t == 0 for t in r if isinstance(t, float)) and c['kind'] == 'O':
            skipped += 1
            continue
        if g != want and c['kind'] == 'O' and any(tok in (c['vb'] or '').lower() for tok in ('nan', 'inf', '1e400')):
            skipped += 1          # non-finite viewBox numbers: Python computes with inf/nan, the generated code has no such values
            continue
        n += 1
        ctx.count(('gen', c['vb'], c['par'], repr(c['W']), repr(c['H'])), 'gen:vb_scale', False)
        if g != want and not (want.startswith('RAISE') and 'ERR' in g):
            bad += 1
            ctx.disagree('Gen.vb_scale (Rounding.ieee) vs plot_utils.vb_scale',
                         {'gen': True, 'v_b': c['vb'], 'p_a_r': c['par'], 'doc_width': repr(c['W']), 'doc_height': repr(c['H'])}, want, g)
    ctx.notes.append(f'generated-code stream: Gen.vb_scale (Rounding.ieee) on {n} cases, identical numbers required ({bad} differ); '
                     f'{skipped} with non-finite / out-of-range numbers not compared; {time.time() - t0:.1f}s')


# ================================================================================================
# "sitecov" input stream (harness/sitecov.py, DESIGN 3c): every comparison of the CURRENT source of vb_scale is driven to
# lhs == rhs and to either side by moves on the four viewBox numbers (re-rendered into the attribute string with repr,
# so the text denotes exactly the double that is searched) and on the page width / height; alignment and meetOrSlice of
# the seed are kept.  The inputs found go through run() itself (real code, Lean model, SVG oracle from the generator's
# own knowledge of the case - valid call, or identity for a non-positive viewBox / page size) and are additionally
# counted under the path 'sitecov'.
# Self-contained block at the end of the file on purpose (the body of `run` is untouched except for its last line).
# ================================================================================================
_SC_LO, _SC_HI = 1e-6, 1e12      # magnitudes of the module's own magnitude stream (the tolerance was measured there)


def _sitecov_domain(a):
    x, y, w, h, align, mos, W, H = a
    if not all(type(v) in (int, float) and math.isfinite(v) for v in (x, y, w, h, W, H)):
        return False
    if abs(x) > _SC_HI or abs(y) > _SC_HI:
        return False
    return all(v <= 0 and v >= -_SC_HI or _SC_LO <= v <= _SC_HI for v in (w, h, W, H))


def _sitecov_apply(tw, a):
    x, y, w, h, align, mos, W, H = a
    return tw(' '.join(repr(float(v)) for v in (x, y, w, h)), align + (' ' + mos if mos else ''), W, H)


def _sitecov_case(a):
    x, y, w, h, align, mos, W, H = a
    vb = ' '.join(repr(float(v)) for v in (x, y, w, h))
    par = align + (' ' + mos if mos else '')
    if w <= 0 or h <= 0:
        return dict(kind='I', why='vb<=0', vb=vb, par=par, W=W, H=H)
    if W <= 0 or H <= 0:
        return dict(kind='I', why='doc<=0', vb=vb, par=par, W=W, H=H)
    nums = tuple(Fraction(float(v)) for v in (x, y, w, h))
    return vcase(nums, align, mos, vb, par, W, H, False)


def _sitecov_rerun(ctx, cases):
    from . import sitecov
    box = {'cases': list(cases)}

    def seq(rng, n, tag):
        out, box['cases'] = box['cases'], []
        return out
    sitecov.rerun_patched(ctx, globals(), over={'scale': 0}, patches={'sequences': seq, 'magnitude_cases': lambda rng, n: []})


def _sitecov_plain_boxes(rng, n_exact, n_dec):
    """(x, y, w, h, W, H, exact) WITHOUT aspect-ratio structure (no equal / constructed ratios, no powers of two)"""
    out = []
    for _ in range(n_exact + n_dec):
        g = lambda: Fraction(rng.randint(1, 20000), 10 ** rng.randint(0, 3))      # noqa: E731
        out.append((Fraction(rng.randint(-5000, 5000), 10), Fraction(rng.randint(-5000, 5000), 10), g(), g(), g(), g(), False))
    return out


def _sitecov_tail(ctx):
    if getattr(ctx, '_in_sitecov', False) or getattr(ctx, '_only_main', False) or getattr(ctx, 'replay', None) \
            or os.environ.get('SITECOV_OFF'):
        return
    from . import sitecov
    from plotink import plot_utils as pu
    rng = ctx.rng
    gen = _sitecov_plain_boxes if os.environ.get('SITECOV_ONLY') else boxes
    seeds = []
    for i in range(120):
        x, y, w, h, W, H, exact = gen(rng, 1, 1)[i % 2]
        seeds.append((float(x), float(y), float(w), float(h), rng.choice(ALIGNS), rng.choice(['meet', 'slice', None]),
                      page_arg(rng, W, exact), page_arg(rng, H, exact)))
    kinds = {0: 'float', 1: 'float', 2: 'float', 3: 'float', 4: 'fixed', 5: 'fixed', 6: 'num', 7: 'num'}
    sitecov.stream(ctx, 'vb_scale', pu.vb_scale, seeds, rerun=lambda cs: _sitecov_rerun(ctx, cs), apply=_sitecov_apply,
                   to_case=_sitecov_case, moves=sitecov.Moves(kinds=kinds, domain=_sitecov_domain), budget=3000, max_inputs=250)


if os.environ.get('SITECOV_ONLY'):
    # EXPERIMENT ONLY (measures what the sitecov stream finds on its own): call sequences, magnitude / near-tie cases
    # and the constructed wider / equal / taller boxes are disabled; the corpus and the identity stream (which contains
    # hand-written non-positive sizes) are read / written inline by run() and stay
    from . import sitecov as _sc
    _sc.only_mode(globals(), tail=_sitecov_tail,
                  patches={'sequences': lambda rng, n, tag: [], 'magnitude_cases': lambda rng, n: [], 'boxes': _sitecov_plain_boxes},
                  note='call sequences, magnitude / near-tie cases and the constructed wider / equal / taller boxes are disabled '
                       '(corpus and the inline identity stream stay); inputs = unbiased random boxes + the sitecov stream')
