"""C06 — motion/configuration helpers emit exactly the documented EBB command text.

Real code: plotink/ebb_motion.py (legacy, function style) and plotink/ebb3_motion.py + ebb3_serial.py
(EBB3, class style), both run against fake ports that acknowledge everything and record every byte.
Three-way comparison per request:
  implementation bytes  ==  Lean model (`C06.legacyEmit` / `C06.ebb3Emit`, through the driver)   [tie]
  implementation bytes  ==  Python oracle written from the property statement + command reference [property]
  legacy bytes (minus the documented version-gate query)  ==  EBB3 bytes                          [property]
"""
import ast, collections, itertools, json, logging, os, re

from .common import dec_str, Infra, REPO, VERIF

NEED_DRIVER = True
RULE = ('per helper, the cross product of the boundary set {None where optional, 0, 1, -1, 5, 6, 749, 750, 751, 1500, '
        '2^31-1, -2^31} (exhaustive for helpers with <= 3 arguments; pairwise + {0,1,-1}^6 x clear + random for the '
        'low-level move; pause lengths around every multiple of 750 plus random), both layers, three firmware versions '
        'for the gated legacy helpers, 8 prior motor states for the EBB3 enable; a case is one (layer, request) '
        'emission; distinct by (layer, request, arguments, board).  Second stream: call SEQUENCES on long-lived ports/objects, '
        'every call judged against the documented command for the board state at that moment - per helper the identical call '
        'repeated and every single-argument variation A-B-A; motors_enable from all 20 board states followed by a second and '
        'third request, and only-motor-2 / scale change / only-motor-2 again; random walks over all helpers with both layers '
        'interleaved on two objects per layer (different firmware / board state) plus one port-less object per layer, reboot '
        'and re-attach; the EBB3 fake tracks EM/QE state as documented.  Third stream: LATE acknowledgements - the board answers '
        'every request but a reply line arrives after k reads have timed out (k in {1, 2, 3, limit-1 or random, limit}; limit = '
        'the documented patience, 25 empty reads in the EBB3 layer and 100 in the legacy layer): per helper and layer, one call '
        'on a fresh object with ONE late reply line at every reply position (each command of the multi-command helpers, every '
        'pause chunk (first two, last two, one random for long pauses), data line and OK line of legacy queries, the legacy '
        'version-gate reply), all reply lines late at once, random subsets; prompt-late-prompt repeats followed by a different '
        'request on the same object; random walks on long-lived objects of both layers with about half of the calls late; the '
        'transmitted text must be exactly the documented command, once, and no error may be recorded')
TRUSTED = ['fake ports (harness/c06.py): acknowledge every command, answer queries like an EBB (legacy: data line + OK, '
           'single line for V/PI; EBB3: reply starts with the request name); replies are delivered in order, promptly or after '
           'a scripted number of reads that return nothing (a read timeout)',
           'modelled not verified: Python int formatting ({}.format / f-string) = decimal numeral = Lean Int.repr '
           '(validated by this run on every boundary value)',
           'Std.Data.String lemmas Int.repr_injective, Nat.toList_repr, Nat.isDigit_of_mem_toDigits (Lean core library)']
ASSUMPTIONS = ['arguments are Python ints (optional ones int or None); the board acknowledges every command - promptly, or late '
               'by at most the documented patience (25 empty reads EBB3, 100 legacy; statements of C05 / C07) - so no error is latched',
               'EBB3.query_statusbyte reads once (no retry, modelled so in C05): a late reply is a timeout for it and latches an '
               'error, so its reply is never delayed here (a board that does not answer in time is outside the domain)',
               'the firmware-version query V that legacy servo_timeout / queryVoltage send first is their documented gate and is '
               'not counted as "something else"; below the gate version nothing but V is sent',
               'timed pauses are exercised up to 2*10^5 ms (2^31-1 ms would be 2.8 million writes); the theorem covers every n',
               'var_write_int32 outside the signed 32-bit range raises OverflowError before writing (documented range) - out of domain',
               'write_nickname (free-text argument) and the connection handshake are not part of this check (C16, C05, C15)']
STAGED = ['regenerated-code bridges (C06_gen_*): all 24 legacy helpers and all 29 EBB3 methods are bridged to legacyEmit / documented; '
          'hypotheses beyond the script domain: legacy query_enable_motors needs every PI reply to carry the marker "PI," '
          '(C06Gen.RepliesFor); EBB3 timed_pause / motors_enable / dio_b_config / var_write_int32 / var_read_int32 need the '
          'acknowledging-script hypothesis C06Gen.AckFor (Ebb3.Acked; QL payloads integers, QE payload = the board state); '
          'reboot / bootload need Ebb3Gen.RebootOk (a write fault is of a class their handler names)']

B = [0, 1, -1, 5, 6, 749, 750, 751, 1500, 2 ** 31 - 1, -2 ** 31]
BOPT = [None] + B
QE_DECODE = {16: 1, 8: 2, 4: 3, 2: 4, 1: 5, 0: 0}      # table in motors_query_enabled's docstring
QE_STATES = [(0, 0), (16, 16), (16, 0), (0, 16), (1, 1), (0, 8), (4, 4), (2, 0)]
# prior states no EBB can report (both motors enabled in different step modes - the mode is global): used for the
# model <-> implementation tie only, never judged by the oracle
UNREAL_QE = [(16, 8), (2, 4)]
VERSIONS = ['2.5.9', '2.6.0', '2.8.1', '2.2.2', '2.2.3']


# ----------------------------------------------------------------------------------------------
# fake boards
# ----------------------------------------------------------------------------------------------
class LatePort:
    """reply timing of a fake board: every reply line is delivered, in order, but reply line number j (counted from the
    last arm()) may be LATE - `plan[j]` reads time out (return b'') before it arrives.  An empty plan = prompt replies."""

    def arm(self, plan):
        self.plan = {int(j): int(k) for j, k in (plan or [])}
        self.nreply = 0

    def push(self, reply):
        for _ in range(self.plan.pop(self.nreply, 0)):
            self.q.append(b'')                      # a read that times out: the reply has not arrived yet
        self.nreply += 1
        self.q.append(reply)


class LegacyPort(LatePort):
    """legacy-syntax board: commands -> OK; queries -> data line (+ OK unless V / PI)"""
    DATA = {'QP': '1', 'QB': '0', 'QS': '12,-7', 'QL': '5', 'QC': '0394,0300', 'QE': '16,16', 'QT': 'abc', 'QG': '1F'}

    def __init__(self, version='2.8.1'):
        self.sent = []
        self.q = collections.deque()
        self.version = version
        self.arm(None)

    def write(self, data):
        self.sent.append(bytes(data))
        name = bytes(data).decode('ascii', 'replace').split(',')[0].strip().upper()
        if name == 'V':
            self.push(f'EBBv13_and_above EB Firmware Version {self.version}\r\n'.encode('ascii'))
        elif name == 'PI':
            self.push(b'PI,1\r\n')
        elif name in self.DATA:
            self.push((self.DATA[name] + '\r\n').encode('ascii'))
            self.push(b'OK\r\n')
        else:
            self.push(b'OK\r\n')
        return len(data)

    def readline(self):
        return self.q.popleft() if self.q else b''

    def close(self):
        pass


class Ebb3Port(LatePort):
    """future-syntax board: every reply starts with the request's name"""

    def __init__(self, qe=(16, 16)):
        self.sent = []
        self.q = collections.deque()
        self.qe = qe
        self.arm(None)

    def write(self, data):
        self.sent.append(bytes(data))
        name = bytes(data).decode('ascii', 'replace').strip().split(',')[0]
        data_of = {'QE': f'{self.qe[0]},{self.qe[1]}', 'QS': '3,-4', 'QC': '394,300', 'QL': '5', 'PI': '1', 'QT': 'abc',
                   'QG': '1F', 'QP': '1', 'QB': '0'}
        if name.upper() in data_of:
            self.push(f'{name},{data_of[name.upper()]}\r\n'.encode('ascii'))
        else:
            self.push((name + '\r\n').encode('ascii'))
        return len(data)

    def readline(self):
        return self.q.popleft() if self.q else b''

    def reset_input_buffer(self):
        self.q.clear()

    def close(self):
        pass


# ----------------------------------------------------------------------------------------------
# request table: kind -> (argument kinds, legacy caller or None, ebb3 caller or None)
# ----------------------------------------------------------------------------------------------
def table(em, e3m):
    def opt_call(f, fixed, opts, drop):
        """call with trailing None optionals either passed explicitly or omitted"""
        opts = list(opts)
        if drop:
            while opts and opts[-1] is None:
                opts.pop()
        return f(*fixed, *opts)

    T = collections.OrderedDict()
    T['xyMove'] = ('iii', lambda p, a, d: em.doXYMove(p, *a), lambda e, a, d: e.xy_move(*a))
    T['abMove'] = ('iii', lambda p, a, d: em.doABMove(p, *a), None)
    T['absMove'] = ('ioo', lambda p, a, d: opt_call(em.doAbsMove, (p, a[0]), a[1:], d),
                    lambda e, a, d: opt_call(e.abs_move, (a[0],), a[1:], d))
    T['lowLevel'] = ('iiiiiio', lambda p, a, d: opt_call(em.doLowLevelMove, (p,) + tuple(a[:6]), a[6:], d), None)
    T['timedPause'] = ('i', lambda p, a, d: em.doTimedPause(p, *a), lambda e, a, d: e.timed_pause(*a))
    T['penDown'] = ('io', lambda p, a, d: opt_call(em.sendPenDown, (p, a[0]), a[1:], d),
                    lambda e, a, d: opt_call(e.pen_lower, (a[0],), a[1:], d))
    T['penUp'] = ('io', lambda p, a, d: opt_call(em.sendPenUp, (p, a[0]), a[1:], d),
                  lambda e, a, d: opt_call(e.pen_raise, (a[0],), a[1:], d))
    T['enable'] = ('ii', lambda p, a, d: em.sendEnableMotors(p, a[0]), lambda e, a, d: e.motors_enable(*a))
    T['disable'] = ('', lambda p, a, d: em.sendDisableMotors(p), lambda e, a, d: e.motors_disable())
    T['pbConfig'] = ('iii', lambda p, a, d: em.PBOutConfig(p, a[0], a[1]), lambda e, a, d: e.dio_b_config(*a))
    T['pbSet'] = ('ii', lambda p, a, d: em.PBOutValue(p, *a), lambda e, a, d: e.dio_b_set(*a))
    T['pbRead'] = ('i', None, lambda e, a, d: e.dio_b_read(*a))
    T['togglePen'] = ('', lambda p, a, d: em.TogglePen(p), None)
    T['penPosDown'] = ('i', lambda p, a, d: em.setPenDownPos(p, *a), lambda e, a, d: e.pen_pos_down(*a))
    T['penPosUp'] = ('i', lambda p, a, d: em.setPenUpPos(p, *a), lambda e, a, d: e.pen_pos_up(*a))
    T['penRateDown'] = ('i', lambda p, a, d: em.setPenDownRate(p, *a), lambda e, a, d: e.pen_rate_down(*a))
    T['penRateUp'] = ('i', lambda p, a, d: em.setPenUpRate(p, *a), lambda e, a, d: e.pen_rate_up(*a))
    T['setLayer'] = ('i', lambda p, a, d: em.setEBBLV(p, *a), None)
    T['queryLayer'] = ('', lambda p, a, d: em.queryEBBLV(p), None)
    T['servoTimeout'] = ('io', lambda p, a, d: opt_call(em.servo_timeout, (p, a[0]), a[1:], d),
                         lambda e, a, d: opt_call(e.servo_timeout, (a[0],), a[1:], d))
    T['clearSteps'] = ('', None, lambda e, a, d: e.clear_steps())
    T['clearAccumulators'] = ('', None, lambda e, a, d: e.clear_accumulators())
    T['varWrite'] = ('ii', None, lambda e, a, d: e.var_write(*a))
    T['varRead'] = ('i', None, lambda e, a, d: e.var_read(*a))
    T['varWriteInt32'] = ('ii', None, lambda e, a, d: e.var_write_int32(*a))
    T['varReadInt32'] = ('i', None, lambda e, a, d: e.var_read_int32(*a))
    T['queryPenUp'] = ('', lambda p, a, d: em.QueryPenUp(p), None)
    T['queryButton'] = ('', lambda p, a, d: em.QueryPRGButton(p), None)
    T['querySteps'] = ('', lambda p, a, d: em.query_steps(p), lambda e, a, d: e.query_steps())
    T['queryVoltage'] = ('', lambda p, a, d: em.queryVoltage(p), lambda e, a, d: e.query_voltage())
    T['queryCurrent'] = ('', None, lambda e, a, d: e.query_current())
    T['queryMotorsPI'] = ('', lambda p, a, d: em.query_enable_motors(p), None)
    T['queryMotorsQE'] = ('', None, lambda e, a, d: e.motors_query_enabled())
    T['queryNickname'] = ('', None, lambda e, a, d: e.query_nickname())
    T['queryStatus'] = ('', None, lambda e, a, d: e.query_statusbyte())
    T['reboot'] = ('', None, lambda e, a, d: e.reboot())
    T['bootload'] = ('', None, lambda e, a, d: e.bootload())
    return T


GATE = {'servoTimeout': (2, 6, 0), 'queryVoltage': (2, 2, 3)}       # docstrings: "requires firmware 2.6.0", "2.2.3"


def legacy_serves(kind, a):
    if kind == 'enable':
        return a[0] == a[1]
    if kind == 'pbConfig':
        return a[2] == 0
    return True


# ----------------------------------------------------------------------------------------------
# the oracle: what the property statement + the command reference require (independent of the model)
# ----------------------------------------------------------------------------------------------
def line(name, *args):
    return (name + ''.join(',' + str(int(x)) for x in args) + '\r').encode('ascii')


def clamp05(r):
    return 0 if r < 0 else 5 if r > 5 else r


def required(kind, a, board):
    """list of byte strings the request must put on the wire (None: judged by predicate, see pause)"""
    if kind == 'xyMove':
        dx, dy, dur = a
        return [line('SM', dur, dy, dx)]                     # duration, axis 1 = Y, axis 2 = X
    if kind == 'abMove':
        da, db, dur = a
        return [line('XM', dur, da, db)]
    if kind == 'absMove':
        rate, p1, p2 = a
        return [line('HM', rate, p1, p2)] if (p1 is not None and p2 is not None) else [line('HM', rate)]
    if kind == 'lowLevel':
        r1, s1, a1, r2, s2, a2, clear = a
        can1 = s1 != 0 and (r1 != 0 or a1 != 0)
        can2 = s2 != 0 and (r2 != 0 or a2 != 0)
        if not (can1 or can2):
            return []
        return [line('LM', r1, s1, a1, r2, s2, a2, *([] if clear is None else [clear]))]
    if kind == 'timedPause':
        return None
    if kind in ('penDown', 'penUp'):
        delay, pin = a
        return [line('SP', 0 if kind == 'penDown' else 1, delay, *([] if pin is None else [pin]))]
    if kind == 'enable':
        c1, c2 = clamp05(a[0]), clamp05(a[1])
        out = []
        if (c1 == 0) != (c2 == 0):
            out.append(line('CU', 50, 0))                    # permit a single motor to be enabled
        if c1 == 0 and c2 != 0:
            out.append(line('QE'))
            m1, m2 = QE_DECODE[board[0]], QE_DECODE[board[1]]
            in_use = m1 if m1 != 0 else m2
            if in_use != c2:
                out.append(line('EM', c2, c2))               # set the scale through motor 1 first
        out.append(line('EM', c1, c2))
        return out
    if kind == 'disable':
        return [line('EM', 0, 0)]
    if kind == 'pbConfig':
        return [line('PO,B', a[0], a[1]), line('PD,B', a[0], a[2])]
    if kind == 'pbSet':
        return [line('PO,B', a[0], a[1])]
    if kind == 'pbRead':
        return [line('PI,B', a[0])]
    if kind == 'servoTimeout':
        return [line('SR', a[0], *([] if a[1] is None else [a[1]]))]
    if kind == 'varWrite':
        return [line('SL', a[0], a[1])]
    if kind == 'varRead':
        return [line('QL', a[0])]
    if kind == 'varWriteInt32':
        u = a[0] & 0xFFFFFFFF
        return [line('SL', (u >> (8 * (3 - k))) & 255, a[1] + k) for k in range(4)]
    if kind == 'varReadInt32':
        return [line('QL', a[0] + k) for k in range(4)]
    if kind == 'queryMotorsPI':
        return [b'PI,E,0\r', b'PI,C,1\r', b'PI,E,2\r', b'PI,E,1\r', b'PI,A,6\r']
    simple = {'togglePen': 'TP', 'queryLayer': 'QL', 'clearSteps': 'CS', 'clearAccumulators': 'T3,1,0,0,0,0,0,0,3',
              'queryPenUp': 'QP', 'queryButton': 'QB', 'querySteps': 'QS', 'queryVoltage': 'QC', 'queryCurrent': 'QC',
              'queryMotorsQE': 'QE', 'queryNickname': 'QT', 'queryStatus': 'QG', 'reboot': 'RB', 'bootload': 'BL'}
    if kind in simple:
        return [(simple[kind] + '\r').encode('ascii')]
    one = {'penPosDown': ('SC', 5), 'penPosUp': ('SC', 4), 'penRateDown': ('SC', 12), 'penRateUp': ('SC', 11)}
    if kind in one:
        return [line(one[kind][0], one[kind][1], a[0])]
    if kind == 'setLayer':
        return [line('SL', a[0])]
    raise KeyError(kind)


PAUSE_RE = re.compile(rb'^SM,(\d+),0,0\r$')


def pause_ok(n, sent):
    """statement: zero-move commands whose durations each lie in 1..750 and sum to n; none for n <= 0"""
    if n <= 0:
        return sent == [], 'no command'
    ds = []
    for s in sent:
        m = PAUSE_RE.match(s)
        if not m:
            return False, 'only SM,<d>,0,0 commands'
        ds.append(int(m.group(1)))
    ok = all(1 <= d <= 750 for d in ds) and sum(ds) == n
    return ok, f'durations in 1..750 summing to {n}'


def model_path(kind, a, board):
    if kind == 'lowLevel':
        r1, s1, a1, r2, s2, a2, clear = a
        if not ((s1 != 0 and (r1 != 0 or a1 != 0)) or (s2 != 0 and (r2 != 0 or a2 != 0))):
            return 'lowLevel:suppressed'
        return 'lowLevel:' + ('noclear' if clear is None else 'clear0' if clear == 0 else 'clear')
    if kind == 'absMove':
        return 'absMove:' + ('xy' if a[1] is not None and a[2] is not None else 'home')
    if kind == 'timedPause':
        n = a[0]
        return 'pause:' + ('none' if n <= 0 else 'single' if n <= 750 else 'exact' if n % 750 == 0 else 'multi')
    if kind in ('penDown', 'penUp', 'servoTimeout'):
        return f'{kind}:' + ('bare' if a[1] is None else 'opt0' if a[1] == 0 else 'opt')
    if kind == 'enable':
        c1, c2 = clamp05(a[0]), clamp05(a[1])
        tag = ('clamped' if (c1, c2) != tuple(a) else 'inrange')
        if c1 == 0 and c2 != 0:
            m1, m2 = QE_DECODE[board[0]], QE_DECODE[board[1]]
            return f'enable:only2:{"keep" if (m1 if m1 else m2) == c2 else "prescale"}:{tag}'
        if c1 != 0 and c2 == 0:
            return f'enable:only1:{tag}'
        return f'enable:both:{tag}'
    return kind


REQUIRED_PATHS = ['lowLevel:suppressed', 'lowLevel:noclear', 'lowLevel:clear0', 'lowLevel:clear', 'absMove:xy', 'absMove:home',
                  'pause:none', 'pause:single', 'pause:exact', 'pause:multi', 'penDown:opt0', 'penUp:opt0', 'penDown:bare',
                  'enable:only2:keep:inrange', 'enable:only2:prescale:clamped', 'enable:only1:inrange', 'enable:both:clamped',
                  'servoTimeout:opt0', 'servoTimeout:bare']


def supplied_zero_key(layer, kind, a):
    """class of a failing input that is one of the truthiness-test defects (F4)"""
    if kind == 'absMove' and (a[1] == 0 or a[2] == 0) and a[1] is not None and a[2] is not None:
        return f'{layer}-absmove-zero-position'
    if kind in ('penDown', 'penUp') and a[1] == 0:
        return f'{layer}-pen-pin-zero'
    if kind == 'lowLevel' and a[6] == 0:
        return f'{layer}-lowlevel-clear-zero'
    return None


# ----------------------------------------------------------------------------------------------
# generators
# ----------------------------------------------------------------------------------------------
def gen_requests(ctx, T):
    rng = ctx.rng
    reqs = []           # (kind, args tuple, board (qe raw), version)

    def add(kind, a, board=(16, 16), ver='2.8.1'):
        reqs.append((kind, tuple(a), board, ver))

    # corpus first
    cdir = os.path.join(VERIF, 'corpus', 'C06')
    if os.path.isdir(cdir):
        for fn in sorted(os.listdir(cdir)):
            if fn.endswith('.jsonl'):
                for ln in open(os.path.join(cdir, fn)):
                    ln = ln.strip()
                    if ln and not ln.startswith('#'):
                        d = json.loads(ln)
                        add(d['kind'], d['args'], tuple(d.get('board', (16, 16))), d.get('version', '2.8.1'))
    pause_ns = [0, 1, -1, 2, 5, 6, 748, 749, 750, 751, 752, 1499, 1500, 1501, 2249, 2250, 2251, 3000, 7500, 7501,
                100000, 200000, -2 ** 31, -750]
    for kind, (spec, _lf, _ef) in T.items():
        if kind == 'timedPause':
            for n in pause_ns:
                add(kind, (n,))
            for _ in range(ctx.n(300)):
                add(kind, (rng.choice([rng.randint(-20, 20), rng.randint(1, 4000), 750 * rng.randint(1, 40) + rng.choice([-1, 0, 1])]),))
            continue
        if kind == 'lowLevel':
            continue
        doms = [B if c == 'i' else BOPT for c in spec]
        if kind == 'enable':
            doms = [B + [2, 3, 4, -7], B + [2, 3, 4, -7]]
            for a in itertools.product(*doms):
                for board in (QE_STATES + UNREAL_QE if clamp05(a[0]) == 0 and clamp05(a[1]) != 0 else [rng.choice(QE_STATES)]):
                    add(kind, a, board)
            continue
        if kind in GATE:
            for a in itertools.product(*doms):
                for ver in VERSIONS:
                    add(kind, a, (16, 16), ver)
            continue
        for a in itertools.product(*doms):
            add(kind, a)
        # random firmware-range values
        for _ in range(ctx.n(40) if spec else 0):
            add(kind, [rng.choice([None, rng.randint(0, 7)]) if c == 'o' else rng.choice(
                [rng.randint(-3, 9), rng.randint(-70000, 70000), rng.randint(-2 ** 31, 2 ** 31 - 1)]) for c in spec])
    for v in (2 ** 31, -2 ** 31 - 1, 2 ** 40):      # outside var_write_int32's documented range: OverflowError, nothing sent
        add('varWriteInt32', (v, 3))
    # random requests over every helper (boundary / firmware-range / full-range mixture)
    kinds = [k for k in T if T[k][0] and k not in ('lowLevel',)]
    for _ in range(ctx.n(15000)):
        kind = rng.choice(kinds)
        spec = T[kind][0]
        if kind == 'timedPause':
            add(kind, (rng.choice([rng.randint(-5, 5), rng.randint(1, 3000), 750 * rng.randint(1, 12) + rng.randint(-2, 2)]),))
            continue
        a = []
        for c in spec:
            v = rng.choice([rng.choice(B), rng.randint(-3, 9), rng.randint(-70000, 70000), rng.randint(-2 ** 31, 2 ** 31 - 1)])
            a.append(rng.choice([None, 0, v, v]) if c == 'o' else v)
        if kind == 'enable' and rng.random() < 0.3:
            a[1] = a[0]
        if kind == 'pbConfig' and rng.random() < 0.5:
            a[2] = 0
        add(kind, a, rng.choice(QE_STATES), rng.choice(VERSIONS) if kind in GATE else '2.8.1')
    # low-level move: {0,1,-1}^6 x clear, pairwise boundary, random
    for a in itertools.product([0, 1, -1], repeat=6):
        for c in (None, 0, 1, 3):
            add('lowLevel', a + (c,))
    doms = [B] * 6 + [BOPT]
    for i, j in itertools.combinations(range(7), 2):
        base = [rng.choice([1, 7, -3, 0]) for _ in range(6)] + [rng.choice([None, 1, 2, 3])]
        for x in doms[i]:
            for y in doms[j]:
                a = list(base)
                a[i], a[j] = x, y
                add('lowLevel', a)
    for _ in range(ctx.n(6000)):
        a = [rng.choice([0, 0, 0, rng.choice(B), rng.randint(-2 ** 31, 2 ** 31 - 1), rng.randint(-5, 5)]) for _ in range(6)]
        add('lowLevel', a + [rng.choice([None, None, 0, 1, 2, 3, rng.choice(B)])])
    return reqs


def tok(x):
    return 'None' if x is None else str(x)


def parse_field(f):
    f = f.strip()
    if f == 'NONE':
        return None
    if f == 'EMPTY':
        return []
    return [dec_str(t).encode('latin-1') for t in f.split(' ')]


def extract_chunks():
    """the pause-chunk constants of the two sources (ints compared with / assigned in the pause loops)"""
    found = {}
    for rel, fn in (('plotink/ebb_motion.py', 'doTimedPause'), ('plotink/ebb3_motion.py', 'timed_pause')):
        try:
            tree = ast.parse(open(os.path.join(REPO, rel)).read())
            for node in ast.walk(tree):
                if isinstance(node, ast.FunctionDef) and node.name == fn:
                    vals = sorted({n.value for n in ast.walk(node) if isinstance(n, ast.Constant)
                                   and isinstance(n.value, int) and not isinstance(n.value, bool) and n.value > 1})
                    found[fn] = vals
        except Exception as ex:  # pragma: no cover
            found[fn] = f'unreadable: {ex}'
    return found


# ----------------------------------------------------------------------------------------------
def run(ctx):
    logging.getLogger('plotink').setLevel(logging.CRITICAL)
    logging.getLogger('plotink.ebb_serial').setLevel(logging.CRITICAL)
    from plotink import ebb_motion as em, ebb3_motion as e3m
    T = table(em, e3m)
    rng = ctx.rng
    if getattr(ctx, 'replay', None):
        data = json.load(open(ctx.replay))
        reqs, seqs = [], []
        for v in data.get('violations', []) + data.get('model_vs_implementation', []):
            i = v['input']
            if 'sequence' in i:
                seqs.append(i['sequence'])
            elif 'kind' in i:
                reqs.append((i['kind'], tuple(i['args']), tuple(i.get('board', (16, 16))), i.get('version', '2.8.1')))
    else:
        reqs = gen_requests(ctx, T)
        seqs = gen_sequences(ctx, T) + gen_late(ctx, T)

    # ---- model answers (one driver line per request) ----
    lines = []
    for kind, a, board, ver in reqs:
        fw = 1
        if kind in GATE:
            fw = 1 if tuple(int(x) for x in ver.split('.')) >= GATE[kind] else 0
        m1, m2 = QE_DECODE[board[0]], QE_DECODE[board[1]]
        lines.append(f'c06 all 1 {fw} {m1} {m2} {kind} ' + ' '.join(tok(x) for x in a))
    outs = None
    model_chunk = None
    if ctx.driver:
        ans = ctx.driver.batch(lines + ['c06 chunk'])
        outs, model_chunk = ans[:-1], ans[-1]
        bad = [l for l, o in zip(lines, outs) if o == 'BAD']
        if bad:
            raise Infra(f'driver rejected request line: {bad[0]}')

    # ---- pause chunk constant of the sources vs the model parameter ----
    chunks = extract_chunks()
    ctx.notes.append(f'pause-loop constants in the sources: {chunks}; model pauseChunk = {model_chunk}')
    if model_chunk is not None:
        for fn, vals in chunks.items():
            if vals != [int(model_chunk)]:
                ctx.disagree('pause chunk constant of the source differs from the model parameter',
                             {'kind': 'timedPause', 'args': [int(model_chunk) + 1], 'function': fn}, str(vals), model_chunk)

    seen_paths = set()
    per_key = collections.Counter()
    raw_violate = ctx.violate

    def violate(what, inp, observed, required, key=None):
        # at most 4 witnesses per class of failing input (the corpus and boundary cases come first)
        k = key or what
        per_key[k] += 1
        if per_key[k] <= 4:
            raw_violate(what, inp, observed, required, key=key)
    ctx.violate = violate
    try:
        _run_cases(ctx, T, e3m, reqs, outs, seen_paths)
        _run_sequences(ctx, T, e3m, seqs)
    finally:
        ctx.violate = raw_violate
        if per_key:
            ctx.notes.append('failing inputs per class: ' + ', '.join(f'{k}={v}' for k, v in sorted(per_key.items())))
    # ---- separate block: the SOURCE-REGENERATED legacy helpers (translator/pyio2lean.py) on the same requests ----
    gen_legacy_stream(ctx, em, reqs)


def _run_cases(ctx, T, e3m, reqs, outs, seen_paths):
    rng = ctx.rng
    for idx, (kind, a, board, ver) in enumerate(reqs):
        spec, lf, ef = T[kind]
        drop = rng.random() < 0.5
        inp = {'kind': kind, 'args': list(a), 'board': list(board), 'version': ver}
        fields = [parse_field(f) for f in outs[idx].split('|')] if outs else [None] * 6
        m_legacy, m_legacy_t, m_ebb3, m_ebb3_t, m_doc, m_gate = fields
        path = model_path(kind, a, board)
        seen_paths.add(path)
        req = required(kind, a, board)
        sent = {}
        # ------------------------------------------------------------------ legacy layer
        if lf is not None and legacy_serves(kind, a):
            port = LegacyPort(ver)
            try:
                lf(port, a, drop)
                sent['legacy'] = list(port.sent)
            except Exception as ex:
                sent['legacy'] = ('raised', repr(ex), list(port.sent))
        # ------------------------------------------------------------------ EBB3 layer
        if ef is not None:
            port = Ebb3Port(board)
            obj = e3m.EBBMotionWrap()
            obj.port, obj.err, obj.version = port, None, '3.0.2'
            try:
                ef(obj, a, drop)
                sent['ebb3'] = list(port.sent)
                if obj.err is not None:
                    ctx.notes.append(f'ebb3 {kind}{a}: error latched against the acknowledging fake: {obj.err!r}') \
                        if len(ctx.notes) < 20 else None
            except OverflowError as ex:
                if kind == 'varWriteInt32' and not (-2 ** 31 <= a[0] <= 2 ** 31 - 1):
                    if port.sent:
                        ctx.violate('var_write_int32 wrote bytes before raising', inp, repr(port.sent), 'nothing')
                    if len(ctx.out_of_domain) < 10:
                        ctx.out_of_domain.append({'input': inp, 'note': 'value outside the documented signed 32-bit range: OverflowError'})
                    if outs and m_ebb3 is not None:
                        ctx.disagree('model emits for an out-of-range 32-bit value', inp, 'OverflowError', repr(m_ebb3))
                    continue
                sent['ebb3'] = ('raised', repr(ex), list(port.sent))
            except Exception as ex:
                sent['ebb3'] = ('raised', repr(ex), list(port.sent))
        for layer, got in sent.items():
            ctx.count((layer, kind, a, board, ver), f'{layer}:{path}', True)
            if isinstance(got, tuple):
                ctx.violate(f'{layer} {kind}: helper raised against an acknowledging board', inp, got[1], 'the documented command',
                            key=f'{layer}-{kind}-raised')
                continue
            # -------------------------------------------------------------- tie: model vs implementation
            mdl = m_legacy if layer == 'legacy' else m_ebb3
            mdl_t = m_legacy_t if layer == 'legacy' else m_ebb3_t
            if outs:
                if mdl is None:
                    ctx.disagree(f'{layer} {kind}: model says the layer has no helper', inp, repr(got), 'NONE')
                elif got != mdl:
                    note = ' (implementation = the truthiness-test variant of the model, F4)' if got == mdl_t else ''
                    ctx.disagree(f'{layer} {kind}: bytes differ from the model{note}', inp, repr(got[:6]), repr(mdl[:6]))
            # -------------------------------------------------------------- property oracle
            body = got
            gated = layer == 'legacy' and kind in GATE
            if gated:
                ok_gate = tuple(int(x) for x in ver.split('.')) >= GATE[kind]
                if not got or got[0] != b'V\r':
                    ctx.violate(f'legacy {kind}: firmware gate query missing', inp, repr(got[:3]), "b'V\\r' first")
                    continue
                body = got[1:]
                if not ok_gate:
                    if body:
                        ctx.violate(f'legacy {kind}: command sent to firmware below the documented minimum', inp, repr(got[:3]),
                                    'only the version query')
                    continue
            if kind == 'timedPause':
                ok, want = pause_ok(a[0], body)
                if not ok:
                    ctx.violate(f'{layer} timed pause: wrong chunking', inp, repr(body[:4]) + f' ... {len(body)} commands', want,
                                key=f'{layer}-pause-chunking')
            elif body != req and tuple(board) in UNREAL_QE:
                if len(ctx.out_of_domain) < 10:
                    ctx.out_of_domain.append({'input': inp, 'note': 'prior motor state no board reports', 'sent': repr(body[:6])})
            elif body != req:
                key = supplied_zero_key(layer, kind, a) or f'{layer}-{kind}-wrong-text'
                ctx.violate(f'{layer} {kind}: transmitted text is not the documented command', inp, repr(body[:6]), repr(req[:6]), key=key)
            if outs and m_doc is not None and kind != 'timedPause' and req != m_doc:
                raise Infra(f'Python oracle and Lean `documented` differ on {inp}: {req} vs {m_doc}')
            ctx.sample({'layer': layer, 'request': kind, 'args': list(a), 'wire': [s.decode('latin-1') for s in got[:4]]})
        # ------------------------------------------------------------------ the two layers agree
        if 'legacy' in sent and 'ebb3' in sent and not isinstance(sent['legacy'], tuple) and not isinstance(sent['ebb3'], tuple):
            lg = sent['legacy']
            if kind in GATE:
                if tuple(int(x) for x in ver.split('.')) < GATE[kind]:
                    continue
                lg = lg[1:]
            if lg != sent['ebb3']:
                ctx.violate(f'{kind}: the two layers emit different text for the same request', inp,
                            'legacy ' + repr(lg[:4]) + ' / ebb3 ' + repr(sent['ebb3'][:4]), 'identical bytes',
                            key=supplied_zero_key('layers', kind, a) or f'layers-differ-{kind}')

    # ---- with no port nothing is sent (and nothing raises) ----
    for kind, (spec, lf, ef) in T.items():
        for _ in range(3):
            a = tuple(rng.choice(B if c == 'i' else BOPT) for c in spec)
            if kind == 'varWriteInt32':
                a = (rng.choice([0, -1, 2 ** 31 - 1]), a[1])
            inp = {'kind': kind, 'args': list(a), 'port': None}
            if lf is not None and legacy_serves(kind, a):
                spy = []
                from plotink import ebb_serial
                orig_c, orig_q = ebb_serial.command, ebb_serial.query
                ebb_serial.command = lambda p, c, v=True: (spy.append(c) if p is not None else None, orig_c(p, c, v))[1]
                ebb_serial.query = lambda p, c, v=True: (spy.append(c) if p is not None else None, orig_q(p, c, v))[1]
                try:
                    lf(None, a, False)
                except Exception as ex:
                    ctx.violate(f'legacy {kind}: raised with no port', inp, repr(ex), 'nothing sent, no exception', key=f'legacy-{kind}-noport')
                finally:
                    ebb_serial.command, ebb_serial.query = orig_c, orig_q
                if spy:
                    ctx.violate(f'legacy {kind}: sent with no port', inp, repr(spy), 'nothing')
                ctx.count(('legacy', 'noport', kind, a), 'legacy:noport', True)
            if ef is not None:
                obj = e3m.EBBMotionWrap()
                try:
                    ef(obj, a, False)
                except Exception as ex:
                    ctx.violate(f'ebb3 {kind}: raised with no port', inp, repr(ex), 'nothing sent, no exception', key=f'ebb3-{kind}-noport')
                ctx.count(('ebb3', 'noport', kind, a), 'ebb3:noport', True)
    if outs:
        # (pause lengths kept small here: the driver also renders `documented`, 2.8 million lines for 2^31-1 ms)
        np_lines = [f'c06 all 0 1 0 0 {k} ' + ' '.join(tok(rng.choice(B[:9])) for _ in s) for k, (s, _l, _e) in T.items()]
        for ln, o in zip(np_lines, ctx.driver.batch(np_lines)):
            fs = [parse_field(f) for f in o.split('|')]
            if any(f not in (None, []) for f in fs[:4]):
                ctx.disagree('model emits with no port', {'line': ln}, '[]', o)

    if not getattr(ctx, 'replay', None):
        missing = [p for p in REQUIRED_PATHS if p not in seen_paths]
        if missing:
            raise Infra(f'model paths without input: {missing}')


# ----------------------------------------------------------------------------------------------
# sequences: related calls on the SAME long-lived ports / objects, both layers interleaved, every call judged
# ----------------------------------------------------------------------------------------------
class Ebb3Board(Ebb3Port):
    """future-syntax board that implements EM / QE as documented: EM,<e1>,<e2> - e1 in 1..5 enables motor 1 and sets the
    global step mode, e1 = 0 disables motor 1 (mode kept); e2 != 0 enables motor 2; QE reports 0 for a disabled motor,
    else the microstep multiplier of the global mode"""
    MULT = {1: 16, 2: 8, 3: 4, 4: 2, 5: 1}

    def __init__(self, state):
        Ebb3Port.__init__(self)
        self.m1, self.m2, self.mode = bool(state[0]), bool(state[1]), int(state[2])

    @property
    def qe(self):
        m = self.MULT[self.mode]
        return (m if self.m1 else 0, m if self.m2 else 0)

    @qe.setter
    def qe(self, _v):
        pass

    def write(self, data):
        n = Ebb3Port.write(self, data)
        parts = bytes(data).decode('ascii', 'replace').strip().split(',')
        if parts[0] == 'EM' and len(parts) == 3:
            try:
                e1, e2 = int(parts[1]), int(parts[2])
                if 1 <= e1 <= 5:
                    self.mode = e1
                self.m1, self.m2 = e1 != 0, e2 != 0
            except ValueError:
                pass
        return n


BOARD_STATES = [(m1, m2, mode) for m1 in (0, 1) for m2 in (0, 1) for mode in (1, 2, 3, 4, 5)]


def rand_args(rng, kind, spec, layer):
    """arguments inside the helper's domain for `layer` (small / zero / boundary mixture)"""
    if kind == 'timedPause':
        return [rng.choice([0, 1, -1, 5, 749, 750, 751, 1500, 1501, rng.randint(1, 2500)])]
    a = []
    for c in spec:
        v = rng.choice([0, 0, 1, -1, rng.randint(0, 7), rng.choice(B), rng.randint(-70000, 70000)])
        a.append(rng.choice([None, 0, v, v]) if c == 'o' else v)
    if kind == 'varWriteInt32':
        a[0] = rng.choice([0, 1, -1, 258, 2 ** 31 - 1, -2 ** 31, rng.randint(-2 ** 31, 2 ** 31 - 1)])
    if kind == 'enable':
        a = [rng.choice([0, 0, 1, 2, 3, 5, 6, -1]), rng.choice([0, 0, 1, 2, 3, 5, 6, -1])]
        if layer == 'legacy':
            a[1] = a[0]
    if kind == 'pbConfig' and layer == 'legacy':
        a[2] = 0
    return a


def sibling(rng, kind, spec, layer, a, i=None):
    """the same request with one argument (position i, default random) changed"""
    b = list(a)
    if not b:
        return b
    if i is None:
        i = rng.randrange(len(b))
    if kind == 'enable' and layer == 'legacy':
        v = rng.choice([x for x in (0, 1, 2, 5, 6, -1) if x != b[0]])
        return [v, v]
    if kind == 'pbConfig' and layer == 'legacy' and i == 2:
        i = rng.randrange(2)
    if spec[i] == 'o':
        b[i] = rng.choice([x for x in (None, 0, 1, 3, 7) if x != b[i]])
    elif kind == 'timedPause':
        b[i] = rng.choice([x for x in (0, 1, 750, 751, 1500, 2251) if x != b[i]])
    elif kind == 'varWriteInt32' and i == 0:
        b[i] = rng.choice([x for x in (0, 1, -1, 65536, -2 ** 31) if x != b[i]])
    else:
        b[i] = rng.choice([x for x in (0, 1, -1, 5, 6, 750, b[i] + 1, -b[i] if b[i] else 9) if x != b[i]])
    return b


def gen_sequences(ctx, T):
    """each sequence: {'objects': [{'layer', 'version' | 'state', 'port': bool}], 'steps': [[object index, kind, args, drop]]}"""
    rng = ctx.rng
    seqs = []
    serves = {'legacy': [k for k, v in T.items() if v[1] is not None], 'ebb3': [k for k, v in T.items() if v[2] is not None]}

    def obj(layer, port=True):
        if layer == 'legacy':
            return {'layer': 'legacy', 'version': rng.choice(VERSIONS), 'port': port}
        return {'layer': 'ebb3', 'state': list(rng.choice(BOARD_STATES)), 'port': port}

    # (1) siblings: the same helper again with one argument changed, then the original again, on one port / object
    for layer in ('legacy', 'ebb3'):
        for kind in serves[layer]:
            if kind in ('reboot', 'bootload'):
                continue
            spec = T[kind][0]
            for _ in range(ctx.n(6) if spec else 1):
                a = rand_args(rng, kind, spec, layer)
                order = [a, a]                                  # identical repeat, then every single-argument variation A-B-A
                for i in range(len(spec)):
                    b = sibling(rng, kind, spec, layer, a, i)
                    order += [b, a]
                    if rng.random() < 0.3:
                        order += [sibling(rng, kind, spec, layer, b), b]
                steps = [[0, kind, x, rng.random() < 0.5] for x in order]
                seqs.append({'tag': 'sibling', 'objects': [obj(layer)], 'steps': steps})
    # (2) motors_enable from every prior board state, then a second request on the same object (and a third = the second)
    firsts = list(itertools.product([0, 1, 2, 5, 6, -1], repeat=2))
    seconds = list(itertools.product([0, 1, 3, 5], repeat=2))
    for st in BOARD_STATES:
        for f in firsts:
            for g in (seconds if ctx.tier == 'thorough' else rng.sample(seconds, 6) + [tuple(clamp05(x) for x in f)]):
                seqs.append({'tag': 'enable2', 'objects': [{'layer': 'ebb3', 'state': list(st), 'port': True}],
                             'steps': [[0, 'enable', list(f), False], [0, 'enable', list(g), False], [0, 'enable', list(g), False]]})
    # ... and A-B-A: only-motor-2 at scale r, then a request that changes the global scale, then only-motor-2 at r again
    # (twice): anything remembered from the first call is stale by the third
    for st in BOARD_STATES:
        for r in (1, 2, 3, 4, 5):
            for r2 in (1, 2, 3, 4, 5):
                if r2 != r:
                    for mid in ([r2, 0], [r2, r2], [r2, r], [0, r2]):
                        seqs.append({'tag': 'enable3', 'objects': [{'layer': 'ebb3', 'state': list(st), 'port': True}],
                                     'steps': [[0, 'enable', [0, r], False], [0, 'enable', mid, False], [0, 'enable', [0, r], False],
                                               [0, 'enable', [0, r], False]]})
    for r in (0, 1, 2, 5, 6, -1):
        for r2 in (0, 1, 3, 5, 9):
            seqs.append({'tag': 'enable2', 'objects': [obj('legacy')],
                         'steps': [[0, 'enable', [r, r], False], [0, 'enable', [r2, r2], False], [0, 'enable', [r2, r2], False],
                                   [0, 'disable', [], False], [0, 'enable', [r2, r2], False]]})
    # (3) one helper after a different one, both layers interleaved on long-lived objects, two instances per layer with
    #     different firmware / board state, one port-less object per layer, reboot + re-attach
    for _ in range(ctx.n(350)):
        objects = [obj('legacy'), obj('legacy'), obj('ebb3'), obj('ebb3'), obj('legacy', False), obj('ebb3', False)]
        steps = []
        hot = [rng.choice(serves['legacy']), rng.choice(serves['ebb3'])]     # helpers revisited often within this walk
        for _ in range(rng.randint(12, 40)):
            oi = rng.choice([0, 0, 1, 2, 2, 3, 0, 2, 4, 5])
            layer = objects[oi]['layer']
            r = rng.random()
            if layer == 'ebb3' and r < 0.03:
                steps.append([oi, rng.choice(['reboot', 'bootload']), [], False])
                continue
            if layer == 'ebb3' and r < 0.08:
                steps.append([oi, 'reattach', [], False])
                continue
            kind = rng.choice(hot) if r < 0.4 and rng.choice(hot) in serves[layer] else rng.choice(serves[layer])
            if kind not in serves[layer] or kind in ('reboot', 'bootload'):
                kind = rng.choice([k for k in serves[layer] if k not in ('reboot', 'bootload')])
            if steps and rng.random() < 0.25 and steps[-1][1] == kind and objects[steps[-1][0]]['layer'] == layer and steps[-1][2]:
                a = sibling(rng, kind, T[kind][0], layer, steps[-1][2])      # same helper, other object or same, one argument changed
            else:
                a = rand_args(rng, kind, T[kind][0], layer)
            steps.append([oi, kind, a, rng.random() < 0.5])
        seqs.append({'tag': 'walk', 'objects': objects, 'steps': steps})
    return seqs


# ----------------------------------------------------------------------------------------------
# late acknowledgements: the board answers every request, but a reply line arrives after k reads have timed out (k within
# the documented patience: 25 empty reads in the EBB3 layer, 100 in the legacy layer - statements of C05 / C07).  The
# helper must still transmit exactly the documented text, once.
# ----------------------------------------------------------------------------------------------
PATIENCE = {'ebb3': 25, 'legacy': 100}
# EBB3.query_statusbyte reads exactly once (DESIGN 7/C05: "reads once (no retry)"): for it a late reply IS a timeout, the
# error is latched and every later request of the object is blocked (C04) - a board that does not acknowledge in time is
# outside this property's domain, so the status query is always answered promptly here.
IMPATIENT = {('ebb3', 'queryStatus')}


def state_qe(state):
    m = Ebb3Board.MULT[int(state[2])]
    return (m if state[0] else 0, m if state[1] else 0)


def reply_lines(layer, kind, a, board, ver):
    """how many reply lines a conforming board sends for this request, from the oracle: one per command or no-OK query,
    data line + OK for the other legacy queries, one more for the legacy version gate (an estimate for pauses: a plan entry
    beyond the last reply line is simply never used)"""
    if kind == 'timedPause':
        w = [b'SM'] * (0 if a[0] <= 0 else -(-a[0] // 750))
    else:
        w = required(kind, tuple(a), board)
    if layer == 'ebb3':
        return len(w)
    n = 0
    if kind in GATE:
        n = 1
        if tuple(int(x) for x in ver.split('.')) < GATE[kind]:
            return n
    for x in w:
        n += 2 if x.split(b',')[0].strip().upper().decode('ascii') in LegacyPort.DATA else 1
    return n


def late_counts(rng, layer):
    """numbers of empty reads before a reply: 1..3, the documented limit and its neighbour below, one random in between"""
    lim = PATIENCE[layer]
    return [1, 2, 3, lim, rng.choice([lim - 1, rng.randint(4, lim - 2)])]


def late_args(ctx, kind, spec, layer):
    """[(arguments, EBB3 board state or None)]: the multi-command forms of the helper first, then small / zero / boundary"""
    rng = ctx.rng
    if kind == 'timedPause':
        return [([n], None) for n in [1, 750, 751, 1500, 1600, 2251, rng.randint(752, 6000)] +
                [rng.randint(1, 4000) for _ in range(ctx.n(1))]]
    if kind == 'enable':
        if layer == 'legacy':
            return [([r, r], None) for r in [1, 0, rng.choice([2, 3, 5, 6, -1])]]
        out = [([1, 1], None), ([0, 0], None), ([rng.choice([1, 2, 6]), 0], None)]
        for _ in range(max(2, ctx.n(2))):
            r = rng.randint(1, 5)
            keep = rng.choice([st for st in BOARD_STATES if st[2] == r and (st[0] or st[1])])
            other = rng.choice([st for st in BOARD_STATES if st[2] != r or not (st[0] or st[1])])
            out += [([0, r], list(keep)), ([0, rng.choice([r, r, 6, 9])], list(other))]
        return out
    if not spec:
        return [([], None)]
    out = [(rand_args(rng, kind, spec, layer), None) for _ in range(max(1, ctx.n(2)))]
    z = [None if c == 'o' and rng.random() < 0.5 else 0 for c in spec]          # every argument zero / optional ones absent
    if kind == 'pbConfig' and layer == 'legacy':
        z[2] = 0
    out.append((z, None))
    return out


def gen_late(ctx, T):
    rng = ctx.rng
    seqs = []
    serves = {'legacy': [k for k, v in T.items() if v[1] is not None],
              'ebb3': [k for k, v in T.items() if v[2] is not None and k not in ('reboot', 'bootload')]}   # RB / BL read no reply

    def obj(layer, state=None):
        if layer == 'legacy':
            return {'layer': 'legacy', 'version': rng.choice(VERSIONS), 'port': True}
        return {'layer': 'ebb3', 'state': list(state or rng.choice(BOARD_STATES)), 'port': True}

    def lines_of(o, kind, a):
        return reply_lines(o['layer'], kind, a, state_qe(o['state']) if o['layer'] == 'ebb3' else (16, 16), o.get('version', '3.0.2'))

    # (1) one call on a fresh object, ONE reply line late: every reply position of the helper (first, second, last two and
    #     a random one of long pauses) x every count of late_counts
    # (2) ... every reply line late at once; a random subset late by random counts up to the limit
    # (3) A prompt, A late, A prompt, then a different request: nothing of the late exchange may leak into the next call
    for layer in ('legacy', 'ebb3'):
        for kind in serves[layer]:
            spec = T[kind][0]
            for a, st in late_args(ctx, kind, spec, layer):
                o = obj(layer, st)
                n = lines_of(o, kind, a)
                if n == 0 or (layer, kind) in IMPATIENT:
                    continue
                pos = list(range(n)) if n <= 6 else sorted({0, 1, n - 2, n - 1, rng.randrange(n)})
                for j in pos:
                    for k in late_counts(rng, layer):
                        seqs.append({'tag': 'late1', 'objects': [o], 'steps': [[0, kind, list(a), rng.random() < 0.5, [[j, k]]]]})
                seqs.append({'tag': 'lateall', 'objects': [o],
                             'steps': [[0, kind, list(a), rng.random() < 0.5, [[j, rng.randint(1, 3)] for j in range(n)]]]})
                for _ in range(max(1, ctx.n(1))):
                    sub = [[j, rng.choice([1, 2, rng.randint(1, PATIENCE[layer])])] for j in range(n) if rng.random() < 0.5] \
                        or [[rng.randrange(n), 1]]
                    seqs.append({'tag': 'lateall', 'objects': [o], 'steps': [[0, kind, list(a), rng.random() < 0.5, sub]]})
                j, k = rng.randrange(n), rng.choice([1, 1, 2, 3, PATIENCE[layer]])
                okind = rng.choice(serves[layer])                       # (answered promptly)
                seqs.append({'tag': 'lateaba', 'objects': [o],
                             'steps': [[0, kind, list(a), False], [0, kind, list(a), False, [[j, k]]], [0, kind, list(a), False],
                                       [0, okind, rand_args(rng, okind, T[okind][0], layer), False]]})
    # (4) walks over all helpers on long-lived objects, both layers interleaved, about half of the calls with one or two
    #     late reply lines
    for _ in range(ctx.n(150)):
        objects = [obj('legacy'), obj('legacy'), obj('ebb3'), obj('ebb3')]
        steps = []
        for _ in range(rng.randint(8, 30)):
            oi = rng.randrange(4)
            layer = objects[oi]['layer']
            kind = rng.choice(serves[layer])
            if steps and rng.random() < 0.3 and objects[steps[-1][0]]['layer'] == layer:
                kind = steps[-1][1]                                             # the same helper again (same or other object)
            a = rand_args(rng, kind, T[kind][0], layer)
            st = [oi, kind, a, rng.random() < 0.5]
            if rng.random() < 0.5 and (layer, kind) not in IMPATIENT:
                upper = 4 if kind == 'enable' else max(1, lines_of(objects[oi], kind, a))
                lim = PATIENCE[layer]
                st.append([[j, rng.choice([1, 1, 2, 3, rng.randint(1, lim), lim])]
                           for j in sorted(rng.sample(range(upper), min(upper, rng.choice([1, 1, 2]))))])
            steps.append(st)
        seqs.append({'tag': 'latewalk', 'objects': objects, 'steps': steps})
    return seqs


def run_sequence(seq, T, e3m):
    objs = []
    for spec in seq['objects']:
        if spec['layer'] == 'legacy':
            objs.append({'layer': 'legacy', 'fake': LegacyPort(spec['version']) if spec.get('port', True) else None,
                         'ver': spec['version'], 'connected': bool(spec.get('port', True))})
        else:
            board = Ebb3Board(spec['state'])
            o = e3m.EBBMotionWrap()
            o.port, o.err, o.version = (board if spec.get('port', True) else None), None, '3.0.2'
            objs.append({'layer': 'ebb3', 'fake': board, 'obj': o, 'ver': '3.0.2', 'connected': bool(spec.get('port', True)),
                         'attachable': bool(spec.get('port', True))})
    recs = []
    for i, step in enumerate(seq['steps']):
        oi, kind, a, drop = step[:4]
        late = step[4] if len(step) > 4 else None       # [[reply line number within this call, empty reads before it], ...]
        o = objs[oi]
        a = tuple(a)
        if kind == 'reattach':
            if o['layer'] == 'ebb3' and o['attachable']:
                o['fake'].q.clear()             # a new connection starts with an empty input buffer (connect() resets it)
                o['obj'].port = o['fake']
                o['connected'] = True
            continue
        fake = o['fake']
        if fake is not None:
            fake.arm(late)
        before = len(fake.sent) if fake is not None else 0
        board = tuple(fake.qe) if o['layer'] == 'ebb3' else (16, 16)
        rec = {'step': i, 'layer': o['layer'], 'kind': kind, 'args': a, 'board': board, 'ver': o['ver'],
               'connected': o['connected'], 'exc': None, 'err': None, 'late': late}
        try:
            if o['layer'] == 'legacy':
                T[kind][1](fake if o['connected'] else None, a, drop)
            else:
                T[kind][2](o['obj'], a, drop)
                rec['err'] = o['obj'].err
        except Exception as ex:  # judged below
            rec['exc'] = repr(ex)
        rec['got'] = list(fake.sent[before:]) if fake is not None else []
        if o['layer'] == 'ebb3' and kind in ('reboot', 'bootload'):
            o['connected'] = False
        recs.append(rec)
    return recs


def _run_sequences(ctx, T, e3m, seqs):
    all_recs = []
    for si, seq in enumerate(seqs):
        for rec in run_sequence(seq, T, e3m):
            rec['seq'] = si
            all_recs.append(rec)
    outs = None
    if ctx.driver and all_recs:
        lines = []
        for r in all_recs:
            fw = 1
            if r['kind'] in GATE and r['layer'] == 'legacy':
                fw = 1 if tuple(int(x) for x in r['ver'].split('.')) >= GATE[r['kind']] else 0
            m1, m2 = QE_DECODE[r['board'][0]], QE_DECODE[r['board'][1]]
            lines.append(f"c06 all {1 if r['connected'] else 0} {fw} {m1} {m2} {r['kind']} " + ' '.join(tok(x) for x in r['args']))
        outs = ctx.driver.batch(lines)
    for idx, r in enumerate(all_recs):
        seq = seqs[r['seq']]
        layer, kind, a, got = r['layer'], r['kind'], r['args'], r['got']
        # the replayable input is the sequence cut after the failing step
        inp = {'kind': kind, 'args': list(a), 'board': list(r['board']), 'version': r['ver'], 'layer': layer, 'step': r['step'],
               'sequence': {'tag': seq.get('tag'), 'objects': seq['objects'], 'steps': seq['steps'][:r['step'] + 1]}}
        if r.get('late'):
            inp['late_acknowledgement'] = [{'reply_line_of_this_call': j, 'empty_reads_before_it': k} for j, k in r['late']]
        lk = '-late-ack' if r.get('late') else ''                # failing-input class: the reply to this call was late
        lw = ' (a reply arrives after reads that time out, within the documented patience)' if r.get('late') else ''
        tag = seq.get('tag', 'seq')
        ctx.count((layer, tag, r['seq'], r['step']), f"seq:{tag}:{layer}:{'noport' if not r['connected'] else model_path(kind, a, r['board'])}", True)
        if r['exc'] is not None:
            ctx.violate(f'{layer} {kind}: helper raised in a call sequence against an acknowledging board', inp, r['exc'],
                        'the documented command', key=f'seq-{layer}-{kind}-raised')
            continue
        if r['err'] is not None:
            ctx.violate(f'ebb3 {kind}: an error was recorded although every request was acknowledged{lw}', inp, repr(r['err']),
                        'err is None', key=f'seq-ebb3-{kind}-err{lk}')
        if outs:
            fs = [parse_field(f) for f in outs[idx].split('|')]
            mdl = fs[0] if layer == 'legacy' else fs[2]
            if mdl is not None and got != mdl:
                ctx.disagree(f'{layer} {kind}: bytes of a call inside a sequence differ from the model', inp, repr(got[:6]), repr(mdl[:6]))
        if not r['connected']:
            if got:
                ctx.violate(f'{layer} {kind}: bytes written although the object has no port', inp, repr(got[:4]), 'nothing',
                            key=f'seq-{layer}-{kind}-noport')
            continue
        body = got
        if layer == 'legacy' and kind in GATE:
            if not got or got[0] != b'V\r':
                ctx.violate(f'legacy {kind}: firmware gate query missing (call inside a sequence)', inp, repr(got[:3]), "b'V\\r' first",
                            key=f'seq-legacy-{kind}-gate')
                continue
            body = got[1:]
            if tuple(int(x) for x in r['ver'].split('.')) < GATE[kind]:
                if body:
                    ctx.violate(f'legacy {kind}: command sent to firmware below the documented minimum (call inside a sequence)', inp,
                                repr(got[:3]), 'only the version query', key=f'seq-legacy-{kind}-gate')
                continue
        if kind == 'timedPause':
            ok, want = pause_ok(a[0], body)
            if not ok:
                ctx.violate(f'{layer} timed pause inside a sequence: wrong chunking{lw}', inp,
                            repr(body[:4]) + f' ... {len(body)} commands', want, key=f'seq-{layer}-pause-chunking{lk}')
        else:
            req = required(kind, a, r['board'])
            if body != req:
                ctx.violate(f'{layer} {kind}: call {r["step"]} of a sequence on one port/object does not transmit the documented command{lw}',
                            inp, repr(body[:6]), repr(req[:6]), key=f'seq-{layer}-{kind}-wrong-text{lk}')


# ----------------------------------------------------------------------------------------------
# validation of the regenerated legacy helpers (Gen.ebb_motion_*): same requests, same acknowledging board
# ----------------------------------------------------------------------------------------------
GEN_KIND = {   # request kind -> (function of ebb_motion.py, arguments after the port, from the request's argument tuple)
    'xyMove': ('doXYMove', lambda a: a), 'abMove': ('doABMove', lambda a: a), 'absMove': ('doAbsMove', lambda a: a),
    'lowLevel': ('doLowLevelMove', lambda a: a), 'timedPause': ('doTimedPause', lambda a: a),
    'penDown': ('sendPenDown', lambda a: a), 'penUp': ('sendPenUp', lambda a: a),
    'enable': ('sendEnableMotors', lambda a: a[:1]), 'disable': ('sendDisableMotors', lambda a: ()),
    'pbConfig': ('PBOutConfig', lambda a: a[:2]), 'pbSet': ('PBOutValue', lambda a: a),
    'togglePen': ('TogglePen', lambda a: ()), 'penPosDown': ('setPenDownPos', lambda a: a),
    'penPosUp': ('setPenUpPos', lambda a: a), 'penRateDown': ('setPenDownRate', lambda a: a),
    'penRateUp': ('setPenUpRate', lambda a: a), 'setLayer': ('setEBBLV', lambda a: a),
    'queryLayer': ('queryEBBLV', lambda a: ()), 'servoTimeout': ('servo_timeout', lambda a: a),
    'queryPenUp': ('QueryPenUp', lambda a: ()), 'queryButton': ('QueryPRGButton', lambda a: ()),
    'querySteps': ('query_steps', lambda a: ()), 'queryVoltage': ('queryVoltage', lambda a: ()),
    'queryMotorsPI': ('query_enable_motors', lambda a: ())}


class RecordingLegacyPort(LegacyPort):
    """the acknowledging legacy board, remembering what every readline() delivered"""

    def __init__(self, version):
        LegacyPort.__init__(self, version)
        self.trace = []

    def readline(self):
        r = LegacyPort.readline(self)
        self.trace.append(r)
        return r


def gen_legacy_stream(ctx, em, reqs, cap=6000):
    from . import legacygen as G
    if ctx.driver is None:
        return
    todo, seen = [], set()
    for kind, a, board, ver in reqs:
        if kind not in GEN_KIND or (kind, a, ver) in seen:
            continue
        if kind == 'timedPause' and abs(a[0]) > 300000:      # hundreds of thousands of writes: the theorem's job
            continue
        seen.add((kind, a, ver))
        todo.append((kind, a, ver, True))
        if len(todo) % 25 == 0:
            todo.append((kind, a, ver, False))                # ... and without a port
    if len(todo) > cap:
        step = len(todo) / cap
        todo = [todo[int(i * step)] for i in range(cap)]
    lines, mine, inps = [], [], []
    for kind, a, ver, with_port in todo:
        fname, argf = GEN_KIND[kind]
        args = tuple(argf(tuple(a)))
        port = RecordingLegacyPort(ver)
        res, _ = G.result_of(lambda: getattr(em, fname)(port if with_port else None, *args))
        mine.append([G.record(res, port.sent, len(port.trace))])
        lines.append(G.line(G.reads_tok(port.trace), '.', '.', [G.call_tok('ebb_motion_' + fname, ((port if with_port else None),) + args)]))
        inps.append({'function': 'ebb_motion.' + fname, 'args': list(args), 'version': ver, 'port': with_port})
    answers = ctx.driver.batch(lines)
    for m, ans, inp in zip(mine, answers, inps):
        G.compare(ctx, 'C06 legacy helper', inp, m, ans)
    ctx.notes.append(f'regenerated legacy helpers (Gen.ebb_motion_*): {len(todo)} calls compared with the implementation')
