"""C01 — timed-move prediction (ebb_calc.move_dist_lt, ebb_motion.moveDistLM / moveDistLMA) equals the
firmware step-accumulator recurrence.

* correspondence: the *generated* Lean definitions (Gen.move_dist_lt / moveDistLM / moveDistLMA, concrete
  rounding instance Rounding.ieee, ambient precision = the caller's dps) against the real functions, called
  with mpmath.mp.dps set to the same random ambient value in {5, 15, 30, 50};
* property oracle (Python, written from the property statement, independent of the Lean model): the
  recurrence `rate -= trunc(accel/2); each tick: rate += accel; total += rate` by brute force for
  T <= BRUTE_MAX and by an exact-integer closed form above that (the closed form is validated against the
  brute force on every brute-forced case of the same run); the clear value from the *sequence* of per-tick
  rates (sign of the first non-zero rate of the unbounded recurrence);
* second opinion: the Lean Spec `Fw.ltSpec` / the proved closed form, through the driver (`c01 spec|closed`).
"""
import os, json, ast
from .common import pyval, Infra, REPO, VERIF
from . import sitecov

GEN_FUNCTIONS = ['move_dist_lt', 'moveDistLM', 'moveDistLMA']
RULE = ('per model path (clear: first-tick rate <0 / =0 with accel <0,=0,>0 / >0; given accumulator 0 / 2^31-1 / other), '
        'magnitudes tiny / table-like / maximal (T up to 2^32 with every per-tick rate within +-(2^31-1)), odd/even and '
        '+-accel, start accumulator chosen so that the total lands on / next to a multiple of 2^31, sign reversal '
        'mid-move, exhaustive box |rate|,|accel| <= 6, T <= 10, pinned test table; ambient dps random in {5,15,30,50}; '
        'a case is non-trivial when T >= 1 (all are); distinct by (rate, accel, T, accumulator); plus the "sitecov" stream: '
        'every comparison of the CURRENT move_dist_lt source driven to lhs == rhs, +-1 and both outcomes (harness/sitecov.py)')
TRUSTED = ['translator/pynum2lean.py and the Py.Val operator library (validated by this correspondence run)',
           'Rounding.ieee as model of binary64 division and mpmath round-to-nearest at prec bits (validated by this run; '
           'its exactness contract is proved in Lean: Plotink.contractExact_ieee)',
           'mpmath/CPython meet ContractExact (a value with <= prec significant bits is not changed by rounding)',
           'the firmware recurrence as written in the property statement (Model/Firmware.lean)']
ASSUMPTIONS = ['T >= 1, T <= 2^32, start accumulator in [0, 2^31) or "clear"',
               'every per-tick rate |r_k| <= 2^31 - 1 (k = 1..T); for T = 1 additionally |accel| <= 2^32 '
               '(range of the command field; not implied by the per-tick condition when there is one tick)',
               'arguments are Python ints (the function applies int() itself)']
STAGED = []

M = 2 ** 31
BRUTE_MAX = 20000
DPS = (5, 15, 30, 50)


# ------------------------------------------------------------------------------------------------
# the oracle: firmware recurrence, from the property statement
# ------------------------------------------------------------------------------------------------
def trunc_half(a):
    """accel/2 truncated toward zero"""
    return a // 2 if a >= 0 else -((-a) // 2)


def first_nonzero_sign(rate, accel, look=64):
    """sign of the first non-zero per-tick rate of the (unbounded) recurrence; 0 if there is none within `look`
    ticks (the sequence is an arithmetic progression, so two zero ticks mean all are zero)"""
    r = rate - trunc_half(accel)
    for _ in range(look):
        r += accel
        if r != 0:
            return 1 if r > 0 else -1
    return 0


def start_acc(rate, accel, acc):
    if acc == 'clear':
        return M - 1 if first_nonzero_sign(rate, accel) < 0 else 0
    return acc


def brute(rate, accel, T, a0):
    """(in_domain, total) by running the recurrence tick by tick"""
    r = rate - trunc_half(accel)
    tot = a0
    ok = True
    lim = M - 1
    for _ in range(T):
        r += accel
        if r > lim or r < -lim:
            ok = False
        tot += r
    return ok, tot


def closed(rate, accel, T, a0):
    """(in_domain, total) in closed form: the rates form an arithmetic progression, so the extreme rates are at
    ticks 1 and T and the total is a0 + T*r0 + accel*T*(T+1)/2 (accel*T*(T+1) is even)"""
    r0 = rate - trunc_half(accel)
    r1, rT = r0 + accel, r0 + T * accel
    ok = abs(r1) <= M - 1 and abs(rT) <= M - 1
    tot = a0 + T * r0 + (accel * T * (T + 1)) // 2
    return ok, tot


def path_id(rate, accel, acc):
    if acc == 'clear':
        r1 = rate - trunc_half(accel) + accel
        if r1 < 0:
            return 'clear:r1<0'
        if r1 > 0:
            return 'clear:r1>0'
        return 'clear:r1=0,accel' + ('<0' if accel < 0 else '=0' if accel == 0 else '>0')
    return 'acc:0' if acc == 0 else 'acc:2^31-1' if acc == M - 1 else 'acc:other'


ALL_PATHS = ['clear:r1<0', 'clear:r1>0', 'clear:r1=0,accel<0', 'clear:r1=0,accel=0', 'clear:r1=0,accel>0',
             'acc:0', 'acc:2^31-1', 'acc:other']


# ------------------------------------------------------------------------------------------------
# generators
# ------------------------------------------------------------------------------------------------
def pinned_table():
    """input tuples of the pinned tests (expected values are NOT used: the oracle is the recurrence)"""
    out = []
    path = os.path.join(REPO, 'test', 'test_ebb_calc.py')
    try:
        tree = ast.parse(open(path).read())
    except (OSError, SyntaxError):
        return out
    for fn in ast.walk(tree):
        if isinstance(fn, ast.FunctionDef) and fn.name == 'test_move_dist_lt':
            for node in ast.walk(fn):
                if isinstance(node, ast.List) and len(node.elts) == 6:
                    try:
                        v = [ast.literal_eval(e) for e in node.elts]
                    except (ValueError, SyntaxError):
                        continue
                    if all(isinstance(x, int) for x in v[:3]) and (v[3] == 'clear' or isinstance(v[3], int)):
                        out.append((v[0], v[1], v[2], v[3]))
    return out


def corpus_cases():
    out = []
    d = os.path.join(VERIF, 'corpus', 'C01')
    if os.path.isdir(d):
        for fn in sorted(os.listdir(d)):
            if fn.endswith('.jsonl'):
                for line in open(os.path.join(d, fn)):
                    line = line.strip()
                    if line and not line.startswith('#'):
                        o = json.loads(line)
                        out.append((int(o['rate']), int(o['accel']), int(o['T']),
                                    o['acc'] if o['acc'] == 'clear' else int(o['acc'])))
    return out


def gen_T(rng):
    u = rng.random()
    if u < 0.25:
        return rng.choice([1, 1, 2, 2, 3])
    if u < 0.60:
        return rng.randint(1, 50)
    if u < 0.78:
        return rng.randint(51, 3000)
    if u < 0.81:
        return rng.randint(3001, BRUTE_MAX)
    if u < 0.90:
        return rng.randint(BRUTE_MAX + 1, 10 ** 7)
    return rng.choice([2 ** 32, 2 ** 32 - 1, 2 ** 31, 2 ** 31 + 1, rng.randint(10 ** 7, 2 ** 32), rng.randint(2 ** 31, 2 ** 32)])


def gen_case(rng):
    """one in-domain case (rate, accel, T, acc), boundary-biased"""
    T = gen_T(rng)
    amax = 2 * (M - 1) // (T - 1) if T >= 2 else 2 ** 32      # |accel|*(T-1) <= 2*(2^31-1)
    amax = min(amax, 2 ** 32)
    u = rng.random()
    if u < 0.10:
        accel = 0
    elif u < 0.30:
        accel = rng.randint(-50, 50)
    elif u < 0.55:
        accel = rng.choice([-1, 1]) * rng.randint(10 ** 4, 10 ** 8)
    elif u < 0.75:
        accel = rng.randint(-amax, amax)
    else:
        accel = rng.choice([-1, 1]) * (amax - rng.choice([0, 0, 1, 2, rng.randint(0, max(0, amax // 1000))]))
    if abs(accel) > amax:
        accel = rng.randint(-amax, amax)
    if rng.random() < 0.3 and abs(accel) >= 1:      # force odd (truncation of accel/2 matters)
        accel = accel | 1 if accel > 0 else -((-accel) | 1)
        if abs(accel) > amax:
            accel = accel - 1 if accel > 0 else accel + 1
    # tick-1 rate r1 such that r1 and r1 + (T-1)*accel are both within +-(2^31-1)
    span = (T - 1) * accel
    lo = -(M - 1) - min(0, span)
    hi = (M - 1) - max(0, span)
    if lo > hi:       # cannot happen by construction of amax; be safe
        accel, span, lo, hi = 0, 0, -(M - 1), M - 1
    u = rng.random()
    if u < 0.18:
        r1 = 0
    elif u < 0.30:
        r1 = rng.choice([-1, 1, -2, 2])
    elif u < 0.45:
        r1 = rng.choice([lo, hi, lo + rng.randint(0, 3), hi - rng.randint(0, 3)])
    elif u < 0.60 and accel != 0 and T >= 3:
        k = rng.randint(1, T - 1)               # rate crosses (or touches) zero at tick k+1: reversal mid-move
        r1 = -k * accel + rng.choice([0, 0, 1, -1, accel // 2])
    elif u < 0.75:
        r1 = rng.randint(-1000, 1000)
    else:
        r1 = rng.randint(lo, hi)
    r1 = max(lo, min(hi, r1))
    rate = r1 - accel + trunc_half(accel)
    u = rng.random()
    if u < 0.45:
        acc = 'clear'
    elif u < 0.55:
        acc = 0
    elif u < 0.65:
        acc = M - 1
    elif u < 0.85:
        # land the total on / next to a multiple of 2^31 (floor and remainder boundaries)
        _, tot0 = closed(rate, accel, T, 0)
        acc = (-tot0 + rng.choice([0, 0, -1, 1, M // 2])) % M
    else:
        acc = rng.choice([1, M - 2, rng.randint(0, M - 1), rng.randint(0, M - 1)])
    return rate, accel, T, acc


def gen_plain(rng):
    """one in-domain case WITHOUT any boundary bias (T log-uniform, acceleration and first-tick rate uniform over what
    the domain allows for that T).  Used only when SITECOV_ONLY is set: the experiment that measures what the sitecov
    stream finds on its own (hand-written boundary generators disabled)"""
    T = rng.randint(1, 2 ** rng.randint(1, 24))
    amax = min(2 * (M - 1) // (T - 1) if T >= 2 else 2 ** 32, 2 ** 32)
    accel = rng.randint(-amax, amax)
    span = (T - 1) * accel
    lo, hi = -(M - 1) - min(0, span), (M - 1) - max(0, span)
    r1 = rng.randint(lo, hi)
    rate = r1 - accel + trunc_half(accel)
    acc = 'clear' if rng.random() < 0.5 else rng.randint(0, M - 1)
    return rate, accel, T, acc


def in_domain(c):
    """the property's quantifier on (rate, accel, T, acc) - the same test the pipeline applies"""
    rate, accel, T, acc = c
    if not all(type(x) is int for x in (rate, accel, T)) or not (acc == 'clear' or type(acc) is int):
        return False
    if T < 1 or T > 2 ** 32 or (acc != 'clear' and not (0 <= acc < M)):
        return False
    okc, _ = closed(rate, accel, T, start_acc(rate, accel, acc))
    return okc and not (T == 1 and abs(accel) > 2 ** 32)


SITECOV_ONLY = bool(os.environ.get('SITECOV_ONLY'))      # experiment switch, see gen_plain
SITECOV_OFF = bool(os.environ.get('SITECOV_OFF'))        # experiment control: no sitecov stream


def small_box():
    out = []
    for rate in range(-6, 7):
        for accel in range(-6, 7):
            for T in range(1, 11):
                for acc in ('clear', 0, M - 1, 1):
                    out.append((rate, accel, T, acc))
    return out


def handmade():
    big = 2 ** 32
    out = [
        (0, 0, 1, 'clear'), (0, 0, big, 'clear'), (0, 0, big, M - 1),
        (M - 1, 0, big, 'clear'), (-(M - 1), 0, big, 'clear'), (M - 1, 0, big, M - 1), (-(M - 1), 0, big, 0),
        (M - 1, 0, big - 1, 1), (-(M - 1), 0, big - 1, M - 2),
        # accel = +-1 over 2^32 ticks, from one extreme rate to the other
        (-(M - 1) - 1, 1, big - 1, 'clear'), ((M - 1) + 1, -1, big - 1, 'clear'),
        (-(M - 1) - 1, 1, big - 1, 5), ((M - 1) + 1, -1, big - 1, 5),
        # one tick, extreme acceleration (|accel| up to 2^32) with the tick-1 rate in range
        (-(2 ** 31), 2 ** 32, 1, 'clear'), (2 ** 31, -(2 ** 32), 1, 'clear'),
        (-(2 ** 31) + 1, 2 ** 32 - 1, 1, 0), (2 ** 31 - 1, -(2 ** 32) + 1, 1, M - 1),
        # two ticks, extreme acceleration
        (-(M - 1) - (M - 1), 2 * (M - 1), 2, 'clear'), ((M - 1) + (M - 1), -2 * (M - 1), 2, 'clear'),
        # first tick zero
        (0, 0, 7, 'clear'), (-1, 2, 7, 'clear'), (1, -2, 7, 'clear'), (-2, 3, 7, 'clear'), (1, -3, 7, 'clear'),
        (-2, 3, 1, 'clear'), (1, -3, 1, 'clear'), (1, -3, 2, 'clear'),
    ]
    return out


# ------------------------------------------------------------------------------------------------
def run(ctx):
    import mpmath
    from plotink import ebb_calc, ebb_motion
    rng = ctx.rng
    saved_dps = mpmath.mp.dps

    cases = []
    if getattr(ctx, 'replay', None):
        rp = json.load(open(ctx.replay))
        for v in rp.get('violations', []) + rp.get('model_vs_implementation', []):
            i = v['input']
            cases.append((int(i['rate']), int(i['accel']), int(i['T']), i['acc'] if i['acc'] == 'clear' else int(i['acc']),
                          int(i.get('dps', 15))))
    elif SITECOV_ONLY:
        for _ in range(ctx.n(3000)):
            cases.append(gen_plain(rng) + (rng.choice(DPS),))
        ctx.notes.append('SITECOV_ONLY: corpus, pinned table, hand-made cases, small box and the boundary-biased generator '
                         'are disabled; inputs = unbiased random cases + the sitecov stream')
    else:
        base = corpus_cases() + pinned_table() + handmade()
        for c in pinned_table():                 # the deprecated wrapper's pinned inputs and mirrored table rows
            base.append((-c[0], -c[1], c[2], c[3]))
        base += [(412361511, -35357, 11362, 0), (47141172, 141428, 11333, 0)]
        for c in base:
            for dps in DPS:
                cases.append(c + (dps,))
        for c in small_box():
            cases.append(c + (rng.choice(DPS),))
        for _ in range(ctx.n(24000)):
            cases.append(gen_case(rng) + (rng.choice(DPS),))

    totals = [0, 0]

    def pipeline(cases):
        """domain filter + oracle, model through the driver, real code, comparison - for one list of cases"""
        # --- oracle (independent of the model) and domain filter
        todo, brute_checked, closed_only = [], 0, 0
        for (rate, accel, T, acc, dps) in cases:
            if T < 1 or T > 2 ** 32 or (acc != 'clear' and not (0 <= acc < M)):
                ctx.out_of_domain.append({'input': [rate, accel, T, acc], 'why': 'T or accumulator outside the domain'})
                continue
            a0 = start_acc(rate, accel, acc)
            okc, totc = closed(rate, accel, T, a0)
            if T <= BRUTE_MAX:
                okb, totb = brute(rate, accel, T, a0)
                if (okb, totb) != (okc, totc):
                    raise Infra(f'C01 oracle: closed form and brute force differ on {(rate, accel, T, acc)}: '
                                f'{(okb, totb)} vs {(okc, totc)}')
                brute_checked += 1
            else:
                closed_only += 1
            if not okc or (T == 1 and abs(accel) > 2 ** 32):
                ctx.out_of_domain.append({'input': [rate, accel, T, acc], 'why': 'a per-tick rate exceeds 2^31-1'})
                continue
            todo.append((rate, accel, T, acc, dps, (totc // M, totc % M)))
        totals[0] += brute_checked
        totals[1] += closed_only

        # --- model side through the driver
        lines, slots = [], []
        for idx, (rate, accel, T, acc, dps, want) in enumerate(todo):
            a = f'{rate} {accel} {T} {acc}'
            lines.append(f'gen move_dist_lt {dps} {a}'); slots.append((idx, 'lt'))
            lines.append(f'c01 {"spec" if T <= BRUTE_MAX else "closed"} {a}'); slots.append((idx, 'spec'))
            if idx % 3 == 0 or idx < 600:
                lines.append(f'gen moveDistLMA {dps} {a}'); slots.append((idx, 'lma'))
                lines.append(f'gen moveDistLM {dps} {rate} {accel} {T}'); slots.append((idx, 'lm'))
        model = {}
        if ctx.driver:
            for (idx, k), out in zip(slots, ctx.driver.batch(lines)):
                model[(idx, k)] = out

        def call(fn, dps, *args):
            mpmath.mp.dps = dps
            try:
                return True, fn(*args)
            except Exception as ex:       # noqa: the property promises a value
                return False, f'{type(ex).__name__}: {ex}'

        try:
            for idx, (rate, accel, T, acc, dps, want) in enumerate(todo):
                inp = {'rate': rate, 'accel': accel, 'T': T, 'acc': acc, 'dps': dps}
                key = (rate, accel, T, acc)
                ctx.count(key, path_id(rate, accel, acc))
                wants = f'({want[0]} {want[1]})'
                # Lean Spec vs Python oracle: both are statements of the same recurrence
                sp = model.get((idx, 'spec'))
                if sp is not None and sp != wants:
                    raise Infra(f'C01: Lean Spec {sp} and Python oracle {wants} differ on {inp}')
                # a share of the explicit start accumulators is passed as the same integer held in a float (the code converts
                # with int(); exact below 2**53): the value judged is unchanged, only the argument's type differs
                acc_arg = acc
                if type(acc) is int and idx % 13 == 5:
                    acc_arg = float(acc)
                    inp['acc_passed_as'] = 'float'
                ok, r = call(ebb_calc.move_dist_lt, dps, rate, accel, T, acc_arg)
                impl = pyval(tuple(r)) if ok and isinstance(r, (tuple, list)) else (pyval(r) if ok else 'EXC ' + r)
                if idx % 997 == 0 or idx < 3:
                    ctx.sample({'input': inp, 'impl': impl, 'recurrence': wants})
                m = model.get((idx, 'lt'))
                if m is not None and m != impl:
                    ctx.disagree('move_dist_lt', inp, impl, m)
                if impl != wants:
                    ctx.violate('move_dist_lt differs from the firmware recurrence', inp, impl, wants,
                                key='lt-recurrence' + (':clear' if acc == 'clear' else ''))
                if (idx, 'lma') in model or (not ctx.driver and idx % 3 == 0):
                    ok2, r2 = call(ebb_motion.moveDistLMA, dps, rate, accel, T, acc)
                    impl2 = pyval(tuple(r2)) if ok2 and isinstance(r2, (tuple, list)) else (pyval(r2) if ok2 else 'EXC ' + r2)
                    ctx.count(('lma',) + key, 'alias:moveDistLMA')
                    m2 = model.get((idx, 'lma'))
                    if m2 is not None and m2 != impl2:
                        ctx.disagree('moveDistLMA', inp, impl2, m2)
                    if impl2 != wants:
                        ctx.violate('moveDistLMA differs from the firmware recurrence', inp, impl2, wants, key='lma-alias')
                    # moveDistLM: step position from a zero accumulator
                    a0 = 0
                    okc, tot0 = closed(rate, accel, T, a0)
                    want3 = str(tot0 // M)
                    ok3, r3 = call(ebb_motion.moveDistLM, dps, rate, accel, T)
                    impl3 = pyval(r3) if ok3 else 'EXC ' + r3
                    ctx.count(('lm',) + key[:3], 'alias:moveDistLM')
                    m3 = model.get((idx, 'lm'))
                    if m3 is not None and m3 != impl3:
                        ctx.disagree('moveDistLM', {'rate': rate, 'accel': accel, 'T': T, 'acc': 0, 'dps': dps}, impl3, m3)
                    if impl3 != want3:
                        ctx.violate('moveDistLM differs from the recurrence started at accumulator 0',
                                    {'rate': rate, 'accel': accel, 'T': T, 'acc': 0, 'dps': dps}, impl3, want3, key='lm-alias')
        finally:
            mpmath.mp.dps = saved_dps

    pipeline(cases)

    # --- sitecov stream: boundary inputs for every comparison of the CURRENT source, through the same pipeline
    if not getattr(ctx, 'replay', None) and not SITECOV_OFF:
        valid = [c[:4] for c in cases if in_domain(c[:4])]
        seeds = rng.sample(valid, min(len(valid), 250))
        sitecov.stream(ctx, 'move_dist_lt', ebb_calc.move_dist_lt, seeds,
                       rerun=lambda cs: pipeline([c + (rng.choice(DPS),) for c in cs]),
                       moves=sitecov.Moves(domain=in_domain, lo={2: 1, 3: 0}, hi={2: 2 ** 32, 3: M - 1}), budget=3000)
        mpmath.mp.dps = saved_dps
    ctx.notes.append(f'oracle: {totals[0]} cases by brute-force recurrence (closed form cross-checked on each), '
                     f'{totals[1]} by closed form only (T > {BRUTE_MAX})')

    if not getattr(ctx, 'replay', None) and not SITECOV_ONLY:
        missing = [p for p in ALL_PATHS if not ctx.paths.get(p)]
        if missing:
            raise Infra(f'C01: model paths without input: {missing}')
