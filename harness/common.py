"""Shared machinery of the plotink verification checks.

  regen -> build -> audit -> correspondence + oracle (per-property module) -> verdict -> evidence

See DESIGN.md sections 2-4.  Runs under /venv/bin/python (the interpreter that has plotink's
dependencies); /repo's *working tree* is put first on sys.path so the implementation that is
exercised is always the current source.
"""
import os, sys, re, json, time, subprocess, random, fcntl, shutil, importlib, traceback, hashlib

VERIF = os.path.dirname(os.path.dirname(os.path.abspath(__file__)))
REPO = os.environ.get('PLOTINK_REPO', '/repo')
LEAN = os.path.join(VERIF, 'lean')
ALLOWED_AXIOMS = {'propext', 'Classical.choice', 'Quot.sound'}
FORBIDDEN = ['sorry', 'admit', 'native_decide', 'bv_decide', 'implemented_by', 'unsafe ', 'maxHeartbeats 0',
             'ofReduceBool', 'reduceBool']
GUARD = 'PLOTINK_VERIF'


class Infra(Exception):
    """infrastructure failure: exit 2, never a violation"""


class HarnessTimeout(BaseException):
    """wall-clock budget of the harness run exhausted (BaseException so that `except Exception` in a module
    cannot swallow it): the verdict is derived from what has been collected so far"""


def _on_alarm(signum, frame):
    raise HarnessTimeout()


def run_with_deadline(fn, seconds):
    """run fn() under a wall-clock limit; returns True when it finished, False when the limit was hit"""
    import signal
    old = signal.signal(signal.SIGALRM, _on_alarm)
    signal.setitimer(signal.ITIMER_REAL, seconds, 2.0)   # repeating: a bare `except:` in the code under test may swallow one
    try:
        fn()
        return True
    except HarnessTimeout:
        return False
    finally:
        signal.setitimer(signal.ITIMER_REAL, 0)
        signal.signal(signal.SIGALRM, old)


def log(*a):
    print('[check]', *a, file=sys.stderr, flush=True)


def sh(cmd, cwd=None, timeout=3600, env=None):
    p = subprocess.run(cmd, cwd=cwd, stdout=subprocess.PIPE, stderr=subprocess.STDOUT, text=True,
                       timeout=timeout, env=env)
    return p.returncode, p.stdout


# ----------------------------------------------------------------------------------------------
# Lean side
# ----------------------------------------------------------------------------------------------
def strip_comments(text):
    text = re.sub(r'/-.*?-/', ' ', text, flags=re.S)
    text = re.sub(r'--.*', ' ', text)
    return text


def prop_theorems(prop):
    """names of the property theorems: every `theorem` in lean/Plotink/Props/<prop>.lean"""
    path = os.path.join(LEAN, 'Plotink', 'Props', f'{prop}.lean')
    if not os.path.exists(path):
        return [], path
    src = strip_comments(open(path).read())
    return re.findall(r'^\s*theorem\s+([A-Za-z0-9_.\']+)', src, flags=re.M), path


def module_closure(prop):
    """project-local modules imported (transitively) by Props/<prop>.lean"""
    seen, todo = [], [f'Plotink.Props.{prop}']
    while todo:
        m = todo.pop()
        if m in seen:
            continue
        path = os.path.join(LEAN, *m.split('.')) + '.lean'
        if not os.path.exists(path):
            continue
        seen.append(m)
        for imp in re.findall(r'^import\s+(Plotink\.[A-Za-z0-9_.]+)', open(path).read(), flags=re.M):
            todo.append(imp)
    return seen


def forbidden_scan(modules):
    hits = []
    for m in modules:
        path = os.path.join(LEAN, *m.split('.')) + '.lean'
        src = strip_comments(open(path).read())
        for tok in FORBIDDEN:
            if tok in src:
                hits.append(f'{m}: {tok.strip()}')
        if re.search(r'^\s*axiom\s', src, flags=re.M):
            hits.append(f'{m}: axiom')
    return hits


class BuildResult:
    def __init__(self):
        self.ok = True
        self.output = ''
        self.failed_modules = []
        self.failed_theorems = []
        self.gen_report = {}
        self.gen_not_ok = []
        self.theorems = []
        self.axioms = {}
        self.bad_axioms = {}
        self.driver = None
        self.wall = 0.0


def regen():
    sys.path.insert(0, os.path.join(VERIF, 'translator'))
    import pynum2lean
    rep = pynum2lean.generate(REPO, os.path.join(LEAN, 'Plotink', 'Gen'))
    try:
        import extract_params
        extract_params.generate(REPO, os.path.join(LEAN, 'Plotink', 'Gen'))
    except ImportError:
        pass
    try:
        import pyio2lean
        rep.update(pyio2lean.generate(REPO, os.path.join(LEAN, 'Plotink', 'Gen')))
    except ImportError:
        pass
    return rep


def build(prop, need_driver=True, clean=False):
    """regenerate Gen/**, build Props.<prop> and the driver, audit axioms.  Serialised by a file lock."""
    res = BuildResult()
    t0 = time.time()
    os.makedirs(os.path.join(LEAN, '.lake'), exist_ok=True)
    lock = open(os.path.join(LEAN, '.lake', 'verif.lock'), 'w')
    fcntl.flock(lock, fcntl.LOCK_EX)
    try:
        res.gen_report = regen()
        res.gen_not_ok = [k for k, v in res.gen_report.items() if isinstance(v, dict) and v['status'] != 'ok']
        res.theorems, ppath = prop_theorems(prop)
        if not res.theorems:
            raise Infra(f'no property theorems found in {ppath}')
        targets = [f'Plotink.Props.{prop}'] + (['driver'] if need_driver else [])
        rc, out = sh(['lake', 'build'] + targets, cwd=LEAN, timeout=3000)
        res.output = out
        if rc != 0:
            res.ok = False
            res.failed_modules = sorted(set(re.findall(r'error: (?:\./)?([A-Za-z0-9_/]+\.lean):\d+', out)))
            # map error lines in the Props file to theorems
            src_lines = open(ppath).read().split('\n')
            for f, ln in re.findall(r'error: (?:\./)?([A-Za-z0-9_/]+\.lean):(\d+)', out):
                if f.endswith(f'Props/{prop}.lean'):
                    i = min(int(ln), len(src_lines)) - 1
                    while i >= 0:
                        m = re.match(r'\s*theorem\s+([A-Za-z0-9_.\']+)', src_lines[i])
                        if m:
                            if m.group(1) not in res.failed_theorems:
                                res.failed_theorems.append(m.group(1))
                            break
                        i -= 1
            if not res.failed_theorems:
                # the failure is in an imported module (or not attributable): lake did not rebuild the Props
                # module, so none of the property's theorems has been checked against the current sources
                res.failed_theorems = list(res.theorems)
        # driver binary (may exist even if the Props build failed)
        drv = os.path.join(LEAN, '.lake', 'build', 'bin', 'driver')
        if need_driver:
            rc2, out2 = (0, '') if rc == 0 else sh(['lake', 'build', 'driver'], cwd=LEAN, timeout=3000)
            if rc2 == 0 and os.path.exists(drv):
                mine = drv + f'.{os.getpid()}'
                shutil.copy2(drv, mine)
                res.driver = mine
            else:
                res.output += '\n--- driver build ---\n' + out2
        # audit
        if res.ok:
            aud_dir = os.path.join(LEAN, '.lake', 'audit')
            os.makedirs(aud_dir, exist_ok=True)
            aud = os.path.join(aud_dir, f'{prop}.lean')
            with open(aud, 'w') as f:
                f.write(f'import Plotink.Props.{prop}\n')
                for t in res.theorems:
                    f.write(f'#print axioms Plotink.{t}\n')
            rc3, out3 = sh(['lake', 'env', 'lean', aud], cwd=LEAN, timeout=1200)
            if rc3 != 0:
                raise Infra('axiom audit failed to run:\n' + out3[-2000:])
            for m in re.finditer(r"'Plotink\.([^']+)' depends on axioms: \[([^\]]*)\]", out3.replace('\n', ' ')):
                res.axioms[m.group(1)] = [a.strip() for a in m.group(2).split(',') if a.strip()]
            for m in re.finditer(r"'Plotink\.([^']+)' does not depend on any axioms", out3):
                res.axioms[m.group(1)] = []
            for t in res.theorems:
                if t not in res.axioms:
                    raise Infra(f'audit: no axiom report for {t}\n' + out3[-2000:])
                bad = [a for a in res.axioms[t] if a not in ALLOWED_AXIOMS]
                if bad:
                    res.bad_axioms[t] = bad
            hits = forbidden_scan(module_closure(prop))
            if hits:
                raise Infra('forbidden constructs in proof sources: ' + '; '.join(hits))
            if res.bad_axioms:
                raise Infra(f'foreign axioms: {res.bad_axioms}')
    finally:
        fcntl.flock(lock, fcntl.LOCK_UN)
        lock.close()
    res.wall = time.time() - t0
    return res


class Driver:
    """the Lean line-protocol driver (model + spec executables)"""

    def __init__(self, path):
        self.path = path
        self.proc = None

    def batch(self, lines, timeout=3000):
        if not lines:
            return []
        p = subprocess.run([self.path], input='\n'.join(lines) + '\n', stdout=subprocess.PIPE,
                           stderr=subprocess.PIPE, text=True, timeout=timeout)
        out = p.stdout.split('\n')
        if out and out[-1] == '':
            out.pop()
        if p.returncode != 0 or len(out) != len(lines):
            raise Infra(f'driver: rc={p.returncode} {len(out)} answers for {len(lines)} requests; stderr={p.stderr[-500:]}')
        return out

    def ask(self, line):
        if self.proc is None:
            self.proc = subprocess.Popen([self.path], stdin=subprocess.PIPE, stdout=subprocess.PIPE, text=True, bufsize=1)
        self.proc.stdin.write(line + '\n')
        self.proc.stdin.flush()
        return self.proc.stdout.readline().rstrip('\n')

    def close(self):
        if self.proc is not None:
            try:
                self.proc.stdin.close()
                self.proc.wait(timeout=10)
            except Exception:
                self.proc.kill()
            self.proc = None


def enc_str(s):
    return '-' if s == '' else ','.join(str(ord(c)) for c in s)


def dec_str(t):
    return '' if t == '-' else ''.join(chr(int(x)) for x in t.split(','))


def frac_str(q):
    from fractions import Fraction
    q = Fraction(q)
    return str(q.numerator) if q.denominator == 1 else f'{q.numerator}/{q.denominator}'


# ----------------------------------------------------------------------------------------------
# context handed to the per-property modules
# ----------------------------------------------------------------------------------------------
class Ctx:
    def __init__(self, prop, tier, seed, driver, tie_broken, tie_scale=10):
        self.prop = prop
        self.tier = tier
        self.seed = seed
        self.rng = random.Random(seed * 1000003 + int(prop[1:]))
        self.driver = driver
        self.tie_broken = tie_broken
        self.scale = (10 if tier == 'thorough' else 1) * (tie_scale if tie_broken else 1)
        self.disagreements = []
        self.violations = []
        self.out_of_domain = []
        self.samples = []
        self.evaluations = 0
        self.nontrivial = set()
        self.paths = {}
        self.notes = []

    def n(self, quick):
        """budget: `quick` cases on the quick tier, x10 thorough, x10 again when the tie is broken"""
        return quick * self.scale

    def count(self, key, path=None, nontrivial=True):
        self.evaluations += 1
        if nontrivial:
            self.nontrivial.add(hashlib.blake2b(repr(key).encode(), digest_size=8).digest())
        if path is not None:
            self.paths[path] = self.paths.get(path, 0) + 1

    def sample(self, s, cap=12):
        if len(self.samples) < cap:
            self.samples.append(s)

    def disagree(self, what, inp, impl, model):
        if len(self.disagreements) < 50:
            self.disagreements.append({'what': what, 'input': inp, 'impl': impl, 'model': model})

    def violate(self, what, inp, observed, required, key=None):
        """the implementation breaks the property on `inp` (an in-domain input)"""
        if len(self.violations) < 200:
            self.violations.append({'what': what, 'input': inp, 'observed': observed, 'required': required,
                                    'key': key or what})


def load_known(prop):
    path = os.path.join(VERIF, 'known_findings.txt')
    known = []
    if os.path.exists(path):
        for line in open(path):
            line = line.strip()
            m = re.match(r'open:\s+property=(\S+)\s+key=(\S+)\s+(.*)', line)
            if m and m.group(1) == prop:
                known.append({'key': m.group(2), 'text': m.group(3)})
    return known


def write_evidence(prop, ev, subdir='evidence'):
    """evidence/ holds exactly one file per listed property; supplementary checks (X..) write to supplementary/"""
    os.makedirs(os.path.join(VERIF, subdir), exist_ok=True)
    path = os.path.join(VERIF, subdir, f'{prop}.json')
    tmp = path + f'.{os.getpid()}.tmp'
    with open(tmp, 'w') as f:
        json.dump(ev, f, indent=1, default=str)
    os.replace(tmp, path)


def write_replay(prop, payload):
    d = os.path.join(VERIF, 'replays')
    os.makedirs(d, exist_ok=True)
    path = os.path.join(d, f'{prop}.json')
    with open(path, 'w') as f:
        json.dump(payload, f, indent=1, default=str)
    return path


def repo_on_path():
    if REPO not in sys.path:
        sys.path.insert(0, REPO)
    os.environ[GUARD] = '1'


def run_check(prop, tier, replay=None):
    t0 = time.time()
    seed = int(os.environ.get('VERIF_SEED', '0') or 0)
    if replay:
        try:
            rp = json.load(open(replay))
            seed = int(rp.get('seed', seed))
            tier = rp.get('tier', tier)
            log(f'replay: re-running {prop} with seed={seed} tier={tier} (all random choices derive from the seed)')
        except (OSError, ValueError) as ex:
            raise Infra(f'cannot read replay file {replay}: {ex}')
    tier = os.environ.get('VERIF_TIER', tier) if tier is None else tier
    tier = tier or 'quick'
    repo_on_path()
    mod = importlib.import_module(f'harness.{prop.lower()}')
    need_driver = getattr(mod, 'NEED_DRIVER', True)
    b = build(prop, need_driver=need_driver)
    tie_notes = []
    if b.gen_not_ok:
        used = set(getattr(mod, 'GEN_FUNCTIONS', []))
        bad = [g for g in b.gen_not_ok if g in used]
        if bad:
            tie_notes.append('translator rejected: ' + ', '.join(f"{g} ({b.gen_report[g]['status']})" for g in bad))
    if not b.ok:
        tie_notes.append('lake build failed; theorems no longer checking: ' + ', '.join(b.failed_theorems or ['?'])
                         + '; failed files: ' + ', '.join(b.failed_modules))
    if need_driver and b.driver is None:
        tie_notes.append('driver did not build (model/generated code no longer compiles)')
    tie_scale = int(getattr(mod, 'TIE_SCALE', 10))   # budget multiplier of the failing-input search once the tie is broken
    ctx = Ctx(prop, tier, seed, Driver(b.driver) if b.driver else None, bool(tie_notes), tie_scale)
    ctx.replay = replay
    try:
        try:
            limit = int(os.environ.get('VERIF_HARNESS_LIMIT', '0') or 0) or (3600 if tier == 'thorough' else 300)
            timed_out = not run_with_deadline(lambda: mod.run(ctx), limit)
            if timed_out:
                # a change to the implementation can make it arbitrarily slow (or the search space explode): stop,
                # and judge by what has been collected so far
                ctx.notes.append(f'harness wall-clock budget of {limit}s exhausted; verdict from what was collected so far')
                log(f'{prop}: harness wall-clock budget of {limit}s exhausted')
                if ctx.driver:
                    ctx.driver.close()
                if not ctx.violations and not ctx.disagreements and not ctx.tie_broken:
                    raise Infra(f'harness did not finish within {limit}s and found nothing (timeout)')
            if not timed_out and ctx.disagreements and not ctx.violations and not ctx.tie_broken:
                # correspondence broke during the run: search again at 10x budget for a failing input
                log(f'{prop}: model and implementation differ; searching again at 10x budget for a failing input')
                first = ctx
                ctx = Ctx(prop, tier, seed + 7919, first.driver, True, tie_scale)
                ctx.replay = replay
                ctx.disagreements = list(first.disagreements)
                if not run_with_deadline(lambda: mod.run(ctx), limit):
                    ctx.notes.append(f'second pass stopped at the wall-clock budget of {limit}s')
                    if ctx.driver:
                        ctx.driver.close()
                ctx.notes.append(f'second pass at 10x budget after {len(first.disagreements)} correspondence disagreement(s)')
        finally:
            if ctx.driver:
                ctx.driver.close()
            if b.driver and os.path.exists(b.driver):
                os.remove(b.driver)
    except Infra:
        raise
    except Exception:
        raise Infra('harness crashed:\n' + traceback.format_exc())
    checker_extra = ''
    if tier == 'thorough' and b.ok:
        rc4, out4 = sh(['lake', 'env', 'leanchecker', f'Plotink.Props.{prop}'], cwd=LEAN, timeout=3000)
        if rc4 != 0:
            raise Infra('leanchecker rejected the compiled proofs:\n' + out4[-3000:])
        checker_extra = f' && lake env leanchecker Plotink.Props.{prop}'
    if ctx.disagreements:
        tie_notes.append(f'correspondence: model and implementation differ on {len(ctx.disagreements)} in-domain input(s)')
    known = load_known(prop)
    known_hit, fresh = {}, []
    for v in ctx.violations:
        k = next((e for e in known if e['key'] == v['key']), None)
        if k:
            known_hit.setdefault(k['key'], (k, v))
        else:
            fresh.append(v)
    for key, (k, v) in known_hit.items():
        print(f"KNOWN-FINDING: property={prop} {k['text']}")
    discharged = [t for t in b.theorems if t not in b.failed_theorems] if b.ok or b.failed_theorems else []
    if not b.ok and not b.failed_theorems:
        discharged = []
    status = 0
    replay_path = None
    if fresh:
        status = 1
        replay_path = write_replay(prop, {'property': prop, 'kind': 'failing-input', 'violations': fresh[:20],
                                          'tie': tie_notes, 'seed': seed, 'tier': tier})
        print(f'VIOLATION property={prop} replay={replay_path}')
    elif tie_notes:
        status = 1
        replay_path = write_replay(prop, {'property': prop, 'kind': 'tie-broken', 'no_longer_checking': tie_notes,
                                          'failed_theorems': b.failed_theorems, 'failed_files': b.failed_modules,
                                          'model_vs_implementation': ctx.disagreements[:20],
                                          'build_output_tail': b.output[-4000:] if not b.ok else '',
                                          'seed': seed, 'tier': tier})
        print(f'VIOLATION property={prop} replay={replay_path} no-failing-input-found')
    axioms_seen = sorted({a for t in b.axioms.values() for a in t})
    ev = {
        'property_id': prop, 'tier': tier, 'seed': seed, 'level': 'proof',
        'coverage': {
            'obligations': len(b.theorems), 'discharged': len(discharged),
            'checker_cmd': f'cd lean && lake build Plotink.Props.{prop} && lake env lean .lake/audit/{prop}.lean  (#print axioms)' + checker_extra,
            'trusted_base': ['Lean 4 kernel', 'axioms: ' + (', '.join(axioms_seen) or 'none')] + list(getattr(mod, 'TRUSTED', [])),
            'theorems': {t: b.axioms.get(t, 'UNCHECKED') for t in b.theorems},
            'generated_from_source': {k: v['status'] for k, v in b.gen_report.items() if isinstance(v, dict)
                                      and k in getattr(mod, 'GEN_FUNCTIONS', [])},
            'evaluations': ctx.evaluations, 'distinct_nontrivial': len(ctx.nontrivial),
            'rule': getattr(mod, 'RULE', ''), 'samples': ctx.samples or ['(none)'],
            'model_paths': ctx.paths, 'disagreements_checked': len(ctx.disagreements),
            'out_of_domain_differences': ctx.out_of_domain[:10],
            'known_findings_reproduced': sorted(known_hit), 'notes': ctx.notes,
            'staged_partial': list(getattr(mod, 'STAGED', [])),
            'build_wall_s': round(b.wall, 1),
        },
        'assumptions': list(getattr(mod, 'ASSUMPTIONS', [])),
        'wall_s': round(time.time() - t0, 2), 'violations': len(fresh) + (1 if (tie_notes and not fresh) else 0),
    }
    write_evidence(prop, ev, getattr(mod, 'EVIDENCE_DIR', 'evidence'))
    log(f'{prop} {tier} seed={seed}: {len(discharged)}/{len(b.theorems)} theorems, {ctx.evaluations} evaluations, '
        f'{len(ctx.disagreements)} disagreements, {len(fresh)} violations, {len(known_hit)} known; {ev["wall_s"]}s')
    return status


# ----------------------------------------------------------------------------------------------
# value syntax shared with Plotink/Drv/Util.lean (parseVal / showVal)
# ----------------------------------------------------------------------------------------------
def pyval(v):
    """render a Python value the way the Lean driver's `showVal` does / `parseVal` reads"""
    from fractions import Fraction
    try:
        import mpmath
        if isinstance(v, mpmath.mpf):
            m, e = int(v.man), int(v.exp)
            s = -1 if v._mpf_[0] else 1
            q = Fraction(s * m) * (Fraction(2) ** e)
            return 'm' + frac_str(q)
    except ImportError:
        pass
    if v is None:
        return 'None'
    if v is True:
        return 'True'
    if v is False:
        return 'False'
    if isinstance(v, int):
        return str(v)
    if isinstance(v, float):
        if v != v or v in (float('inf'), float('-inf')):
            return 'NONFINITE'
        return 'f' + frac_str(Fraction(v))
    if isinstance(v, str):
        return 'clear' if v == 'clear' else 's' + enc_str(v)
    if isinstance(v, (tuple, list)):
        return '(' + ' '.join(pyval(x) for x in v) + ')'
    return 'OTHER:' + type(v).__name__
