"""Unit tests of harness/sitecov.py (plain asserts).

    cd /verif && /venv/bin/python -m harness.test_sitecov            (or: /venv/bin/python harness/test_sitecov.py)

Part 1: synthetic functions (twin fidelity, site inventory, chained comparisons, truthiness, helper functions,
        exceptions, exploration incl. equality guards and floor/ceil windows, determinism).
Part 1b: nested arguments (lists / tuples of Fractions of different shapes), per-execution targets of a site that runs
        several times in one call, classes and methods (recursive construction stays inside the twin class), `adjust`
        (keep min <= max) and group moves (translate all x coordinates together).
Part 3: the real geometry code: clip_segment / clip_code, points_in_tolerance / supersample, rtree.Index,
        spatial_grid.Index, vb_scale - every numeric site reaches lhs == rhs exactly or is listed in GEO_REASONS.
Part 2: the real ebb_calc.calculate_lm, ebb_calc.max_rate_t3 and plot_utils.checkLimitsTol from PLOTINK_REPO: every
        integer comparison site reachable from valid inputs gets an equality hit, or is listed in REASONS with the
        reason why lhs == rhs cannot occur there (checked: a listed site must indeed stay without an equality hit -
        otherwise the reason is wrong - and its closest approach must be 1).
"""
import os, sys, random, time, math
from fractions import Fraction

if __package__ in (None, ''):
    sys.path.insert(0, os.path.dirname(os.path.dirname(os.path.abspath(__file__))))
    __package__ = 'harness'
from harness import sitecov as sc           # noqa: E402
from harness.common import REPO              # noqa: E402

if REPO not in sys.path:
    sys.path.insert(0, REPO)

CALLS = []


# ------------------------------------------------------------------------------------------------
# synthetic functions
# ------------------------------------------------------------------------------------------------
def f_nested(a, b, c):
    if a * b >= c:
        if a == 7:
            return 'seven'
        return 'ge'
    elif c - a > 100:
        return 'far'
    return 'lt'


def mid(t):
    CALLS.append(t)
    return t


def f_chain(jerk, accel, n):
    if jerk == 0:
        return -1
    t = (jerk / 2 - accel) / jerk
    if 1.5 < mid(t) < n - 1.5:
        return math.ceil(t)
    return 0


def f_truth(pin, x):
    if pin:
        return x + 1
    y = 5 if not x else 6
    while x > 0 and not pin:
        x -= 3
    return y + x


def helper(v):
    return 1 if v > 10 else 0


def f_calls(v, w):
    return helper(v) + (2 if w < v else 0) + sum(1 for k in range(3) if k < w)


def f_exc(a, b):
    if a / b > 1:
        return [1][a]
    return 'x' < a        # TypeError for ints


def f_str(s, k):
    if s == 'clear' or k in (1, 2, 3):
        return 0
    if s is None:
        return 1
    return 2


def f_guard(rate, accel):
    """the shape of move_dist_lt's clear test: the inner comparison is reached only when temp == 0"""
    temp = rate - int(accel / 2) + accel
    if temp < 0:
        return -1
    elif temp == 0:
        if accel < 0:
            return -2
        return 0
    return 1


def f_window(a, x):
    """integer-valued site built from a ceil: equality only in a narrow window next to a jump"""
    if a <= 0 or x < 0:
        return 0
    band = x // 100000
    r = math.ceil(math.sqrt(x - band * 100000 + 1) / 3)
    if r == 100 + band % 2 * 5:
        return 1
    return 2


def f_poly(points, tol):
    """nested arguments: a list of (x, y) tuples and a scalar; a helper is called once per point"""
    if tol <= 0:
        return -1
    n = 0
    for p in points:
        if inside_band(p[0], p[1], tol):
            n += 1
    return n


def inside_band(x, y, tol):
    if x < -tol:
        return False
    if x > tol:
        return False
    return y * y <= tol * tol


class Tree:
    """a class that builds itself recursively through its own name (the shape of rtree.Index)"""
    limit = 3

    def __init__(self, items):
        self.items, self.kids = [], []
        if len(items) <= 1:
            self.items = list(items)
            return
        mean = sum(items) / len(items)
        lo = [v for v in items if v < mean]
        hi = [v for v in items if not v < mean]
        if not lo or not hi:
            self.items = list(items)
        else:
            self.kids = [Tree(lo), Tree(hi)]

    def count_above(self, x):
        n = 0
        for v in self.items:
            if v > x:
                n += 1
        for k in self.kids:
            n += k.count_above(x)
        return n


def f_shift(box, q):
    """a new early return on one coordinate of the query hides the rest: the failing inputs have q[0] == 37 AND overlap"""
    if q[0] == 37:
        return 'magic'
    return not (q[0] > box[1] or q[1] < box[0])


def same(tw, *args):
    assert tw.same_as_original(*args), (tw.__name__, args)


def test_instrument():
    tw = sc.instrument(f_nested)
    assert [s.text for s in tw.sites] == ['a * b >= c', 'a == 7', 'c - a > 100'], tw.sites
    assert all(s.func == 'f_nested' and s.kind == 'cmp' for s in tw.sites)
    here = open(__file__).read().split('\n')
    for s in tw.sites:                       # line numbers are those of the real file
        assert s.text.split()[0] in here[s.line - 1], (s, here[s.line - 1])
    rng = random.Random(1)
    for _ in range(300):
        same(tw, rng.randint(-20, 20), rng.randint(-20, 20), rng.randint(-200, 200))
    assert tw(7, 1, 7) == 'seven'
    assert [(tw.sites[i].text, d, o) for (i, d, o, _, _) in tw.trace] == [('a * b >= c', 0, True), ('a == 7', 0, True)]
    tw(2, 3, 500)
    assert [(d, o) for (_, d, o, _, _) in tw.trace] == [(-494, False), (398, True)]

    # chained comparison: two sites, middle operand evaluated once, short circuit kept
    tw = sc.instrument(f_chain)
    texts = [s.text for s in tw.sites]
    assert texts == ['jerk == 0', '1.5 < mid(t)', 'mid(t) < n - 1.5'], texts
    assert 'mid' in tw.functions                 # the helper was instrumented too (it has no sites)
    del CALLS[:]
    assert tw(2, -4, 10) == f_chain(2, -4, 10) == 3      # t = 2.5
    assert len(CALLS) == 2                               # one call each
    assert [(tw.sites[i].text, d) for (i, d, *_r) in tw.trace][1:] == [('1.5 < mid(t)', -1), ('mid(t) < n - 1.5', -6)]
    del CALLS[:]
    tw(2, 0, 10)                                         # t = 0.5: first link false, second not evaluated
    assert len(tw.trace) == 2 and tw.trace[1][1] == 1 and tw.trace[1][2] is False and len(CALLS) == 1
    assert tw.trace[1][3] is False                       # 1.5 - 0.5 = 1, but the operands are not both integral
    rng = random.Random(2)
    for _ in range(300):
        same(tw, rng.randint(-5, 5), rng.randint(-30, 30), rng.randint(0, 12))

    # truthiness tests, `not`, `and`, ternary, while
    tw = sc.instrument(f_truth)
    assert [(s.text, s.kind) for s in tw.sites] == [('pin', 'truth'), ('x', 'truth'), ('x > 0', 'cmp'), ('pin', 'truth')], tw.sites
    for pin in (0, 1, [], [0], None, 2.5, ''):
        for x in (-2, 0, 1, 7):
            same(tw, pin, x)
    tw(0, 4)
    assert [(tw.sites[i].text, d, o) for (i, d, o, *_r) in tw.trace] == \
        [('pin', 0, False), ('x', 4, True), ('x > 0', 4, True), ('pin', 0, False), ('x > 0', 1, True), ('pin', 0, False),
         ('x > 0', -2, False)]
    tw([], 0)
    assert tw.trace[0][1] is None and tw.trace[0][2] is False          # non-numeric: outcome only
    tw(True, 0)
    assert tw.trace[0][1] is None and tw.trace[0][2] is True           # bool is not treated as a number

    # helper functions of the same module, ternaries, comprehension conditions
    tw = sc.instrument(f_calls)
    assert tw.functions == ['f_calls', 'helper']
    assert sorted(s.text for s in tw.sites) == ['k < w', 'v > 10', 'w < v']
    assert [s.func for s in tw.sites if s.text == 'v > 10'] == ['helper']
    for v in range(8, 13):
        for w in range(-1, 4):
            same(tw, v, w)

    # same exceptions
    tw = sc.instrument(f_exc)
    for a, b in ((1, 0), (5, 1), (0, 1), (1, 2), ('s', 1)):
        same(tw, a, b)
    try:
        tw(1, 0)
        assert False
    except ZeroDivisionError:
        pass
    r, trace = tw.run(1, 2)
    assert r[0] == 'exc' and isinstance(r[1], TypeError) and len(trace) == 1

    # non-numeric operands, `in`, `is`
    tw = sc.instrument(f_str)
    assert [s.op for s in tw.sites] == ['==', 'in', 'is']
    for s_ in ('clear', 'x', None, 5):
        for k in (0, 2):
            same(tw, s_, k)
    tw('x', 2)
    assert [(d, o) for (_, d, o, *_r) in tw.trace] == [(None, False), (None, True)]

    # exact values
    import mpmath
    assert sc.exact(mpmath.mpf('0.75')) == Fraction(3, 4) and sc.exact(mpmath.mpf(-6)) == -6 and sc.exact(mpmath.mpf(0)) == 0
    assert sc.exact(mpmath.inf) is None and sc.exact(float('nan')) is None and sc.exact(True) is None
    assert sc.exact(2.0) == 2 and type(sc.exact(2.0)) is int and sc.exact(0.1) == Fraction(0.1) and sc.exact('a') is None
    print('instrument: ok')


def rep_of(report, text):
    r = [v for v in report.values() if v['text'] == text]
    assert len(r) == 1, text
    return r[0]


def test_explore():
    rng = random.Random(7)
    # nested ifs: product against a bound, equality with a constant
    tw = sc.instrument(f_nested)
    seeds = [(rng.randint(-1000, 1000), rng.randint(-1000, 1000), rng.randint(-10 ** 6, 10 ** 6)) for _ in range(40)]
    assert not any(a * b == c or a == 7 for a, b, c in seeds)
    inputs, rep = sc.explore(tw, seeds, None, 1500, rng)
    for text in ('a * b >= c', 'a == 7', 'c - a > 100'):
        r = rep_of(rep, text)
        assert r['hit_equal'] and r['hit_true'] and r['hit_false'] and r['best_pos'] == 1 and r['best_neg'] == -1, (text, r)
    assert any(a * b == c for a, b, c in inputs) and any(a * b == c + 1 for a, b, c in inputs) \
        and any(a * b == c - 1 for a, b, c in inputs) and any(a == 7 and a * b >= c for a, b, c in inputs)
    assert all(type(x) is int for t in inputs for x in t)         # integer arguments stay integers
    assert not any(t in seeds for t in inputs)

    # restricted moves: bounds, fixed argument, domain callback
    mv = sc.Moves(kinds={1: 'fixed'}, lo={0: 1}, hi={0: 5000}, domain=lambda t: t[2] % 2 == 0)
    inputs, rep = sc.explore(tw, [s for s in seeds if 1 <= s[0] <= 5000 and s[2] % 2 == 0], mv, 1500, random.Random(3))
    bs = {s[1] for s in seeds}
    assert inputs and all(1 <= a <= 5000 and b in bs and c % 2 == 0 for a, b, c in inputs), inputs
    assert rep_of(rep, 'a * b >= c')['hit_equal']

    # chained float comparison with integer arguments: t = 1/2 - accel/jerk against 1.5 and n - 1.5
    tw = sc.instrument(f_chain)
    seeds = [(rng.choice([-1, 1]) * rng.randint(1, 50), rng.randint(-3000, 3000), rng.randint(3, 60)) for _ in range(60)]
    inputs, rep = sc.explore(tw, seeds, sc.Moves(lo={2: 1}), 2500, rng)
    for text in ('1.5 < mid(t)', 'mid(t) < n - 1.5'):
        r = rep_of(rep, text)
        assert r['hit_equal'] and r['hit_true'] and r['hit_false'] and not r['int_valued'], (text, r)
    assert any(j != 0 and Fraction(1, 2) - Fraction(a, j) == Fraction(3, 2) for j, a, n in inputs)
    assert any(j != 0 and Fraction(1, 2) - Fraction(a, j) == n - Fraction(3, 2) for j, a, n in inputs)
    assert rep_of(rep, 'jerk == 0')['hit_equal']

    # truthiness of a number is driven to zero like `pin != 0`
    tw = sc.instrument(f_truth)
    inputs, rep = sc.explore(tw, [(rng.randint(5, 900), rng.randint(5, 900)) for _ in range(10)], None, 600, rng)
    r = [v for v in rep.values() if v['text'] == 'pin'][0]
    assert r['hit_equal'] and r['hit_true'] and r['hit_false'], r
    assert any(p == 0 for p, x in inputs) and rep_of(rep, 'x > 0')['hit_equal']

    # an equality guard on the way: `accel < 0` is reached only while rate - int(accel/2) + accel == 0
    tw = sc.instrument(f_guard)
    seeds = []
    while len(seeds) < 12:
        a = rng.choice([-1, 1]) * rng.randint(1000, 10 ** 7)
        seeds.append((-(a - int(a / 2)), a))
    seeds += [(rng.randint(-10 ** 6, 10 ** 6), rng.randint(-10 ** 6, 10 ** 6)) for _ in range(20)]
    inputs, rep = sc.explore(tw, seeds, None, 1500, rng)
    r = rep_of(rep, 'accel < 0')
    assert r['hit_equal'] and r['best_pos'] == 1 and r['best_neg'] == -1, r
    assert (0, 0) in inputs and (-1, 1) in inputs and (1, -1) in inputs, inputs
    # ... and without any seed that reaches the inner site: driving `temp == 0` to equality discovers it
    inputs, rep = sc.explore(tw, seeds[12:], None, 1500, rng)
    assert rep_of(rep, 'accel < 0')['hit_equal'], rep_of(rep, 'accel < 0')

    # a window next to a jump (ceil of a root, floor bands)
    tw = sc.instrument(f_window)
    seeds = [(1, rng.randint(0, 10 ** 7)) for _ in range(30)]
    inputs, rep = sc.explore(tw, seeds, sc.Moves(kinds={0: 'fixed'}), 2500, rng)
    r = rep_of(rep, 'r == 100 + band % 2 * 5')
    assert r['hit_equal'] and r['best_pos'] == 1 and r['best_neg'] == -1, r

    # deterministic for a given rng
    def once():
        rr = random.Random(11)
        sd = [(rr.randint(-1000, 1000), rr.randint(-1000, 1000), rr.randint(-10 ** 6, 10 ** 6)) for _ in range(25)]
        return sc.explore(sc.instrument(f_nested), sd, None, 800, rr)
    assert once() == once()
    print('explore: ok')


def test_nested_and_classes():
    from fractions import Fraction as Fr
    rng = random.Random(5)
    # ---- nested arguments, Fractions, per-execution targets --------------------------------------
    tw = sc.instrument(f_poly)
    assert tw.functions == ['f_poly', 'inside_band']
    assert [s.text for s in tw.sites] == ['tol <= 0', 'inside_band(p[0], p[1], tol)', 'x < -tol', 'x > tol', 'y * y <= tol * tol']
    flat = sc.flatten(([(1, 2), [3, (4,)]], 5))
    assert flat[1:] == (1, 2, 3, 4, 5) and flat[0].paths == [(0, 0, 0), (0, 0, 1), (0, 1, 0), (0, 1, 1, 0), (1,)]
    assert sc.build(flat) == ([(1, 2), [3, (4,)]], 5) and sc.build(flat)[0] is not sc.build(flat)[0]
    seeds = []
    for _ in range(30):
        n = rng.randint(1, 4)       # different shapes in one run
        seeds.append(([(Fr(rng.randint(-9000, 9000), 1009), Fr(rng.randint(-9000, 9000), 1009)) for _ in range(n)],
                      Fr(rng.randint(1, 5000), 1009)))
    for s_ in seeds:
        same(tw, *s_)
    dom = lambda a: a[1] >= 0        # noqa: E731
    inputs, rep = sc.explore(tw, seeds, sc.Moves(domain=dom, lo={(1,): 0}), 2500, rng)
    for text in ('tol <= 0', 'x < -tol', 'x > tol', 'y * y <= tol * tol'):
        r = rep_of(rep, text)
        assert r['hit_equal'] and r['hit_true'] and r['hit_false'], (text, r)
    assert all(type(c) is Fr for pts, t in inputs for p in pts for c in p) and all(type(t) is Fr and t >= 0 for _, t in inputs)
    assert all(isinstance(pts, list) and all(isinstance(p, tuple) for p in pts) for pts, _ in inputs)     # shapes are kept
    # equality was reached for the FIRST and for the SECOND execution of the site separately (the k-th execution is
    # the k-th point that gets as far as this comparison), not only for whichever comes first
    assert rep_of(rep, 'x > tol')['equal_by_occurrence'][:2] == [True, True]
    assert any(p[0] == t for pts, t in inputs for p in pts)
    assert any(len(pts) >= 2 and any(p[0] == t for p in pts[1:]) and pts[0][0] != t for pts, t in inputs)
    assert any(p[1] * p[1] == t * t for pts, t in inputs for p in pts)                # quadratic relation, exact rationals
    assert max(c.denominator.bit_length() for pts, t in inputs for p in pts for c in p) <= 130    # readable rationals
    # tolerance 0 is inside the domain and is proposed; a negative one never is
    assert any(t == 0 for _, t in inputs)

    # ---- classes and methods -------------------------------------------------------------------------
    tw = sc.instrument(Tree)
    assert tw.functions == ['Tree.__init__', 'Tree.count_above'] and tw.cls is not Tree and tw.cls.__name__ == 'Tree'
    assert tw.cls.limit == 3
    texts = [s.text for s in tw.sites]
    assert texts == ['len(items) <= 1', 'v < mean', 'v < mean', 'lo', 'hi', 'v > x'], texts
    assert [s.func for s in tw.sites][-1] == 'Tree.count_above'
    t1 = tw.cls([5, 1, 9, 3, 7])
    assert type(t1.kids[0]) is tw.cls                         # recursion through the class name stays inside the twin
    for items, x in (([5, 1, 9, 3, 7], 4), ([2, 2, 2], 2), ([], 0), ([1], 1)):
        assert tw.cls(items).count_above(x) == Tree(items).count_above(x)
    twm = sc.instrument(Tree.count_above)                     # a method: the whole class is instrumented
    assert twm.cls is not None and twm(twm.cls([1, 5]), 2) == 1 and twm.trace
    ap = lambda tw_, a: tw_.cls(list(a[0])).count_above(a[1])      # noqa: E731
    seeds = [([rng.randint(-10 ** 6, 10 ** 6) for _ in range(rng.randint(2, 6))], rng.randint(-10 ** 6, 10 ** 6)) for _ in range(25)]
    inputs, rep = sc.explore(tw, seeds, None, 2500, rng, apply=ap)
    for text in ('v > x', 'len(items) <= 1'):
        r = [v for v in rep.values() if v['text'] == text][0]
        assert r['hit_true'] and r['hit_false'], (text, r)
    assert rep_of(rep, 'v > x')['hit_equal'] and any(x in items for items, x in inputs)
    r = [v for k, v in rep.items() if v['text'] == 'v < mean'][0]
    assert r['hit_equal'], r                                  # an item exactly on the mean (float mean, int items)
    # ---- adjust (keep min <= max by dragging the partner) and group moves (translate all x together) ----
    tw = sc.instrument(f_shift)
    seeds = []
    for _ in range(30):
        a, b = sorted([rng.randint(-20, 20), rng.randint(-20, 20)])
        c, d = sorted([rng.randint(-20, 20), rng.randint(-20, 20)])
        seeds.append(((a, b), (c, d)))
    ok = lambda a: a[0][0] <= a[0][1] and a[1][0] <= a[1][1]      # noqa: E731

    def drag(args, path):
        box, q = [list(args[0]), list(args[1])]
        for v in (box, q):
            if v[0] > v[1]:
                v[1 - path[1]] = v[path[1]]
        return (tuple(box), tuple(q))
    overlap = lambda a: a[0][0] <= a[1][1] and a[1][0] <= a[0][1]     # noqa: E731
    ins1, rep1 = sc.explore(tw, seeds, sc.Moves(domain=ok), 600, random.Random(1))
    assert not rep_of(rep1, 'q[0] == 37')['hit_equal']           # 37 lies beyond every q[1]: the domain rejects the move
    ins2, rep2 = sc.explore(tw, seeds, sc.Moves(domain=ok, adjust=drag), 600, random.Random(1))
    assert rep_of(rep2, 'q[0] == 37')['hit_equal'] and all(ok(a) for a in ins2)
    assert not any(a[1][0] == 37 and overlap(a) for a in ins2)   # ... reached, but the figure was torn apart
    ins3, rep3 = sc.explore(tw, seeds, sc.Moves(domain=ok, adjust=drag, groups=lambda path, v: 'x'), 600, random.Random(1), keep=6)
    assert any(a[1][0] == 37 and overlap(a) for a in ins3), ins3  # translated as a whole: still overlapping
    print('nested arguments, classes: ok')


# ------------------------------------------------------------------------------------------------
# the real functions
# ------------------------------------------------------------------------------------------------
# integer comparison sites that are reachable from valid inputs but at which lhs == rhs cannot occur, keyed by
# (function, source text, how many sites with that text): why.  Checked below against the exploration result.
REASONS = {
    'calculate_lm': {
        'steps < 0': 'steps == 0 has returned (0, 0, 0) four lines earlier',
        'accel < 0': 'inside `temp_rate == 0`: accel == 0 there means rate == 0, and accel == rate == 0 has returned earlier',
        'accel > 0': 'every occurrence is evaluated only when accel != 0 (right operand of `accel != 0 and ...`, or on the '
                     'reversal path t_rev > 0, which needs accel != 0)',
        'rate > 0': 'right operand of `rate != 0 and ...`',
        't_rev > 0': 'the occurrences after line 302: t_rev is then -1 (flag) or >= 1; the first occurrence (line 290) '
                     'does reach 0',
        'two_a != 0': 'in the else branch of `accel == 0`',
    },
    'max_rate_t3': {
        'time == 0': 'in rate_t3, called with time = 1, T (>= 2 there) or ceil(t_mid) (>= 2); T = 0 is outside the domain',
    },
    'checkLimitsTol': {
        'value > upper_bound': 'n/a', 'value < lower_bound': 'n/a',
    },
}


def check_real(name, report, reasons, allow_missing=()):
    bad = []
    for sid, r in report.items():
        if not (r['reached'] and r['numeric'] and r['int_valued']):
            continue
        why = reasons.get(r['text'])
        if r['hit_equal']:
            continue
        if why is None or why == 'n/a':
            if r['text'] in allow_missing:
                print(f'   note: {sid} `{r["text"]}` not driven to equality in this run (search, not a guarantee)')
                continue
            bad.append((sid, r['text'], r['best_abs_diff']))
        else:
            assert r['best_abs_diff'] == 1, (sid, r)       # as close as the reason allows
    assert not bad, f'{name}: integer sites without equality hit and without a reason: {bad}'
    # a reason must not be contradicted: a site text listed with a reason never reaches equality at *all* its occurrences
    for text, why in reasons.items():
        if why == 'n/a':
            continue
        occ = [r for r in report.values() if r['text'] == text]
        assert occ, (name, text)
        assert any(not r['hit_equal'] for r in occ), (name, text, 'reached equality everywhere: the reason is wrong')


def test_real():
    import mpmath
    from plotink import ebb_calc, plot_utils
    from harness import c03, c02
    rng = random.Random(2024)
    saved = mpmath.mp.dps

    # ---- calculate_lm: seeds = the module's random family, domain = the property's (ValidLM or cannot-move) ----
    tw = sc.instrument(ebb_calc.calculate_lm)
    tmp = []
    for _ in range(700):
        c03.gen_random(rng, tmp)
    seeds = [c for c in tmp if c03.required(*c)[0] == 'ok'][:300]
    for s in seeds[:100]:
        same(tw, *s)
    dom = lambda a: c03.required(*a)[0] in ('ok', 'degenerate')     # noqa: E731
    t0 = time.time()
    inputs, rep = sc.explore(tw, seeds, sc.Moves(domain=dom, lo={3: 0}, hi={3: 2 ** 31 - 1}), 8000, rng)
    dt = time.time() - t0
    print(f'calculate_lm: {sc.compact(rep)}\n   {sc.explore.last}, {len(inputs)} inputs, {dt:.1f}s')
    assert all(dom(a) for a in inputs)
    assert all(r['reached'] for r in rep.values())
    # the two hardest sites (a ceil-of-root window, an exact double root) are found in most but not all runs
    check_real('calculate_lm', rep, REASONS['calculate_lm'], allow_missing=('neg_root <= t_rev',))
    for text in ('s_rev >= steps', 'pos_root <= t_rev', 'pos_root < neg_root', 's_rev == 0', 't_rev == 1', 'temp_rate < 0'):
        assert all(r['hit_equal'] for r in rep.values() if r['text'] == text), text
    assert dt < 15

    # ---- max_rate_t3 (follows rate_t3): seeds random, domain = firmware-valid ----
    tw = sc.instrument(ebb_calc.max_rate_t3)
    assert tw.functions == ['max_rate_t3', 'rate_t3']
    seeds = [c for c in (c02.gen_random(rng) for _ in range(600)) if c02.firmware_valid(*c)][:250]
    for s in seeds[:100]:
        same(tw, *s)
    t0 = time.time()
    inputs, rep = sc.explore(tw, seeds, sc.Moves(domain=lambda a: c02.firmware_valid(*a), lo={0: 1}), 4000, rng)
    dt = time.time() - t0
    print(f'max_rate_t3: {sc.compact(rep)}\n   {sc.explore.last}, {len(inputs)} inputs, {dt:.1f}s')
    check_real('max_rate_t3', rep, REASONS['max_rate_t3'])
    for text in ('1.5 < t_mid', 't_mid < time - 1.5'):          # float sites with integer arguments: exact equality
        r = rep_of(rep, text)
        assert r['hit_equal'] and r['hit_true'] and r['hit_false'], (text, r)
    r = [v for k, v in rep.items() if k.startswith('rate_t3:')][0]
    assert r['text'] == 'time == 0' and not r['hit_equal']      # T = 0 is outside the domain: never proposed
    assert dt < 10

    # ---- checkLimitsTol: int/float mixtures; equality must be reached exactly (floats: same binary64 value) ----
    tw = sc.instrument(plot_utils.checkLimitsTol)
    seeds = []
    while len(seeds) < 120:
        lo = rng.choice([rng.randint(-50, 50), rng.uniform(-100, 100)])
        hi = lo + rng.choice([rng.randint(0, 100), rng.uniform(0, 300)])
        seeds.append((rng.choice([rng.randint(-200, 200), rng.uniform(-400, 400)]), lo, hi, rng.choice([0, 1, 0.5, 1e-9, rng.uniform(0, 2)])))
    for s in seeds:
        same(tw, *s)
    okd = lambda a: Fraction(a[1]) <= Fraction(a[2]) and a[3] >= 0     # noqa: E731
    mv = sc.Moves(kinds={0: 'num', 1: 'num', 2: 'num', 3: 'num'}, lo={3: 0}, domain=okd)
    inputs, rep = sc.explore(tw, seeds, mv, 3000, rng)
    print(f'checkLimitsTol: {sc.compact(rep)}\n   {sc.explore.last}, {len(inputs)} inputs')
    assert len(rep) == 4 and all(r['hit_equal'] and r['hit_true'] and r['hit_false'] for r in rep.values()), rep
    assert any(v < lo and v == lo - t for v, lo, hi, t in inputs) and any(v > hi and v == hi + t for v, lo, hi, t in inputs)
    # +-1 ulp around the tolerance band
    assert any(v < lo and v == math.nextafter(lo - t, -math.inf) for v, lo, hi, t in inputs if isinstance(v, float))
    assert any(v > hi and v == math.nextafter(hi + t, math.inf) for v, lo, hi, t in inputs if isinstance(v, float))
    mpmath.mp.dps = saved
    print('real functions: ok')


# reachable numeric sites of the geometry code at which lhs == rhs cannot occur: why (checked: never hit)
GEO_REASONS = {
    'clip_segment': {'code & 8': 'reached only when the bits 1, 2 and 4 of a non-zero outcode are clear, i.e. code == 8'},
    'points_in_tolerance': {'seg_length_squared == 0': 'reached only when seg_length_squared > temp1 > 0'},
    'supersample': {'seg_length_squared == 0': 'reached only when seg_length_squared > temp1 > 0',
                    'len(vertices) <= 2': 'the domain of the stream has at least 3 vertices (len - 2 >= 1)'},
    'vb_scale': {'len(par_array) > 0': 'the stream always passes a non-empty preserveAspectRatio',
                 'len(vb_array) < 4': 'n/a'},
}


def check_geo(name, rep, reasons):
    for sid, r in rep.items():
        if r['reached'] and r['numeric'] and not r['hit_equal']:
            assert r['text'] in reasons, f'{name}: {sid} `{r["text"]}` never reached lhs == rhs (closest {r["best_abs_diff"]})'


def test_real_geometry():
    from fractions import Fraction as Fr
    from plotink import plot_utils as pu, rtree, spatial_grid as sg
    from harness import c08, c09, c13, c14, c11
    rng = random.Random(77)

    # ---- clip_segment (+ clip_code): exact stream, eight Fraction coordinates nested in two 2x2 lists ----
    tw = sc.instrument(pu.clip_segment)
    assert tw.functions == ['clip_segment', 'clip_code'] and len(tw.sites) == 14
    seeds = []
    for _ in range(120):
        (p, q), b = c08._sitecov_plain_case(rng)
        seeds.append(([list(p), list(q)], [list(b[0]), list(b[1])]))
    for s_ in seeds:
        same(tw, *s_)
    t0 = time.time()
    inputs, rep = sc.explore(tw, seeds, sc.Moves(domain=c08._sitecov_domain), 4000, rng)
    print(f'clip_segment: {sc.compact(rep)}\n   {sc.explore.last}, {len(inputs)} inputs, {time.time() - t0:.1f}s')
    check_geo('clip_segment', rep, GEO_REASONS['clip_segment'])
    for text in ('x_in < x_min', 'x_in > x_max', 'y_in < y_min', 'y_in > y_max'):
        assert rep_of(rep, text)['equal_by_occurrence'][:2] == [True, True], text      # endpoint 1 and endpoint 2
    on_edge = lambda s_, b: any(p[0] in (b[0][0], b[1][0]) or p[1] in (b[0][1], b[1][1]) for p in s_)     # noqa: E731
    assert sum(on_edge(s_, b) for s_, b in inputs) >= 8 and not any(on_edge(s_, b) for s_, b in seeds)
    assert all(c08._sitecov_domain(a) for a in inputs)
    assert rep_of(rep, 'iterations > 3')['best_abs_diff'] <= 1

    # ---- points_in_tolerance / supersample: one coordinate of one vertex, or the tolerance ----
    seeds = []
    while len(seeds) < 120:
        pts = c09.gen_list(rng)
        tol = c09.gen_tol(rng, pts)
        if 3 <= len(pts) <= 8 and tol >= 0:
            seeds.append(([tuple(p) for p in pts], Fr(tol)))
    for fn, budget in ((pu.points_in_tolerance, 2500), (pu.supersample, 2000)):
        tw = sc.instrument(fn)
        for s_ in seeds[:40]:
            import copy
            a, b = copy.deepcopy(s_), copy.deepcopy(s_)
            assert repr(fn(*a)) == repr(tw(*b)) and a == b        # same result, same in-place reduction
        inputs, rep = sc.explore(tw, seeds, sc.Moves(domain=c09._sitecov_domain, lo={(1,): 0}), budget, rng)
        print(f'{fn.__name__}: {sc.compact(rep)}\n   {sc.explore.last}, {len(inputs)} inputs')
        check_geo(fn.__name__, rep, GEO_REASONS[fn.__name__])
        assert all(c09._sitecov_domain(a) for a in inputs)
        # the three tolerance comparisons: squared distance == tolerance squared, exactly
        eq_tol = [r for r in rep.values() if r['text'].endswith('>= tol_squared')]
        assert len(eq_tol) == 3 and all(r['hit_equal'] and r['hit_true'] and r['hit_false'] for r in eq_tol), eq_tol

    # ---- rtree.Index: the class, through construction + query ----
    tw = sc.instrument(rtree.Index)
    assert tw.functions == ['Index.__init__', 'Index.intersection'] and len(tw.sites) == 19
    ap = lambda tw_, a: tw_.cls(list(a[0])).intersection(a[1])        # noqa: E731
    seeds = []
    for _ in range(100):
        bs = c14._sitecov_plain_boxes(rng)
        seeds.append((bs, c14._sitecov_plain_queries(rng, bs, 1)[0]))
    for s_ in seeds:
        assert ap(tw, s_) == rtree.Index(list(s_[0])).intersection(s_[1])
    ids_fixed = lambda path, v: 'fixed' if (len(path) == 3 and path[0] == 0 and path[2] == 0) else None   # noqa: E731
    t0 = time.time()
    inputs, rep = sc.explore(tw, seeds, sc.Moves(kinds=ids_fixed, domain=c14._sitecov_domain), 2500, rng, apply=ap)
    print(f'rtree.Index: {sc.compact(rep)}\n   {sc.explore.last}, {len(inputs)} inputs, {time.time() - t0:.1f}s')
    check_geo('rtree.Index', rep, {})
    assert all(c14._sitecov_domain(a) for a in inputs)
    assert all([i for i, _ in bs] == list(range(len(bs))) for bs, _ in inputs)          # ids untouched
    touching = lambda b, q: b[0] == q[2] or q[0] == b[2] or b[1] == q[3] or q[1] == b[3]    # noqa: E731
    assert sum(any(touching(b, q) for _, b in bs) for bs, q in inputs) >= 6

    # ---- spatial_grid.Index: build, removals, one query ----
    tw = sc.instrument(sg.Index)
    assert tw.functions == ['Index.__init__', 'Index.find_adjacents', 'Index.nearest', 'Index.remove_path']
    seeds = []
    while len(seeds) < 80:
        n, bins, rev = rng.randint(1, 5), rng.randint(1, 5), rng.random() < 0.5
        verts = c13._sitecov_plain_verts(rng, n)
        if c13.zero_extent(verts, rev):
            continue
        e = verts[0][0]
        seeds.append((verts, bins, rev, (), [e[0] + Fr(rng.randint(-4000, 4000), 1009), e[1] + Fr(rng.randint(-4000, 4000), 1009)]))
    for s_ in seeds:
        assert c13._sitecov_apply(tw, s_) == sg.Index(s_[0], s_[1], s_[2]).nearest(s_[4])
    fixed = lambda path, v: 'fixed' if path[0] in (2, 3) else None      # noqa: E731
    inputs, rep = sc.explore(tw, seeds, sc.Moves(kinds=fixed, lo={(1,): 1}, hi={(1,): 6}, domain=c13._sitecov_domain), 2000, rng,
                             apply=c13._sitecov_apply)
    print(f'spatial_grid.Index: {sc.compact(rep)}\n   {sc.explore.last}, {len(inputs)} inputs')
    check_geo('spatial_grid.Index', rep, {})
    assert all(c13._sitecov_domain(a) for a in inputs)
    assert all(r['hit_equal'] for r in rep.values() if r['text'] == 'dist < best_dist')      # exact distance ties

    # ---- vb_scale: four viewBox numbers rendered into the string, page size ----
    tw = sc.instrument(pu.vb_scale)
    seeds = []
    for i in range(100):
        x, y, w, h, W, H, exact = c11._sitecov_plain_boxes(rng, 1, 1)[i % 2]
        seeds.append((float(x), float(y), float(w), float(h), rng.choice(c11.ALIGNS), rng.choice(['meet', 'slice', None]), float(W), float(H)))
    kinds = {0: 'float', 1: 'float', 2: 'float', 3: 'float', 4: 'fixed', 5: 'fixed', 6: 'num', 7: 'num'}
    inputs, rep = sc.explore(tw, seeds, sc.Moves(kinds=kinds, domain=c11._sitecov_domain), 3000, rng, apply=c11._sitecov_apply)
    print(f'vb_scale: {sc.compact(rep)}\n   {sc.explore.last}, {len(inputs)} inputs')
    check_geo('vb_scale', rep, GEO_REASONS['vb_scale'])
    for text in ('width <= 0', 'height <= 0', 'd_width <= 0', 'd_height <= 0', 'ar_doc >= ar_vb', 'ar_doc < ar_vb'):
        assert rep_of(rep, text)['hit_equal'], text
    assert any(a[2] == 0 for a in inputs) and any(a[7] == 0 for a in inputs)
    assert any(a[2] > 0 and a[3] > 0 and a[6] > 0 and a[7] > 0 and float(a[7]) / float(a[6]) == a[3] / a[2]
               for a in inputs)                                    # equal aspect ratios as the code computes them (binary64)
    print('real geometry: ok')


if __name__ == '__main__':
    t0 = time.time()
    test_instrument()
    test_explore()
    test_nested_and_classes()
    test_real()
    test_real_geometry()
    print(f'all sitecov tests passed in {time.time() - t0:.1f}s')
