"""Validation of translator/pyio2lean.py for the module-level functions of the legacy layers and of port discovery
(list FUNCS there): the SOURCE-REGENERATED functions (`legacygen run`, lean/Plotink/Drv/LegacyGen.lean) are run on the
same inputs as the real functions and must do exactly the same — return value (with its type), escaping exception
class, bytes written, reads consumed.  Used by separate blocks at the end of `run` in harness/c06.py, c15.py, c19.py.
"""
from .common import enc_str

FUEL = 1000
EXC_KEY = {'SerialException': 'serial', 'PortNotOpenError': 'notopen', 'OSError': 'oserror', 'IOError': 'ioerror',
           'RuntimeError': 'runtime', 'SerialTimeoutException': 'serial'}


def is_port(v):
    return hasattr(v, 'write') and hasattr(v, 'readline')


def show(v):
    """canonical rendering shared with Drv/LegacyGen.lean (`lgShowVal`)"""
    if v is None:
        return 'None'
    if v is True:
        return 'True'
    if v is False:
        return 'False'
    if isinstance(v, int):
        return str(v)
    if isinstance(v, str):
        return 's' + enc_str(v)
    if isinstance(v, (bytes, bytearray)):
        return 'b' + enc_str(bytes(v).decode('latin-1'))
    if is_port(v):
        return 'P'
    if isinstance(v, tuple):
        return '(' + ','.join(show(x) for x in v) + ')'
    if isinstance(v, list):
        return '[' + ','.join(show(x) for x in v) + ']'
    if hasattr(v, 'device') and hasattr(v, 'hwid'):            # a pyserial ListPortInfo: indexable like a 3-tuple
        return '(' + ','.join(show(v[i]) for i in range(3)) + ')'
    return 'OTHER'


def arg_tok(a):
    if is_port(a):
        return 'P'
    if a is None:
        return 'n'
    if a is True:
        return 'b1'
    if a is False:
        return 'b0'
    if isinstance(a, int):
        return f'i{a}'
    if isinstance(a, str):
        return 's' + enc_str(a)
    raise ValueError(a)


def call_tok(gname, args):
    return ':'.join([gname] + [arg_tok(a) for a in args])


def reads_tok(outcomes, exc_key='serial'):
    """outcomes: bytes (a line / b'' = timeout) or anything else = the read raises"""
    if not outcomes:
        return '.'
    return ';'.join(('L' + enc_str(bytes(o).decode('latin-1'))) if isinstance(o, (bytes, bytearray)) else 'X' + exc_key
                    for o in outcomes)


def writes_tok(outcomes, exc_key='serial'):
    ch = {'serial': 'x', 'notopen': 'p', 'oserror': 'e', 'ioerror': 'i'}.get(exc_key, 'x')
    return ''.join('o' if o == 'o' else ch for o in outcomes) or '.'


def comports_tok(ports):
    """ports: list of (device, description, hwid) or the string 'T' (comports() raises TypeError)"""
    if ports == 'T':
        return 'T'
    if not ports:
        return '.'
    return ';'.join('|'.join(enc_str(p[i]) for i in range(3)) for p in ports)


def line(reads, writes, comports, calls):
    return ' '.join(['legacygen', 'run', str(FUEL), reads, writes, comports] + calls)


def record(res, written, nreads):
    wr = '.' if not written else ';'.join(enc_str(bytes(w).decode('latin-1')) for w in written)
    return f'{res} {wr} {nreads}'


def result_of(fn):
    """('V<value>' | 'X<class>', exception or None) of calling fn()"""
    try:
        return 'V' + show(fn()), None
    except Exception as ex:     # compared with the regenerated code, not judged here
        return 'X' + type(ex).__name__, ex


def compare(ctx, what, inp, mine, answer):
    """mine: list of record strings (one per call); answer: the driver's line"""
    outs = answer.split(' | ') if answer else []
    for k, m in enumerate(mine):
        o = outs[k] if k < len(outs) else 'MISSING'
        key = 'gen:same' if m == o else 'gen:differs'
        ctx.paths[key] = ctx.paths.get(key, 0) + 1
        if m != o:
            ctx.disagree(f'{what}: regenerated function (translator/pyio2lean.py) vs implementation, call {k}', inp, m, o)
            return False
    return True


def ascii_only(*strings):
    return all(ord(ch) < 128 for s in strings if isinstance(s, str) for ch in s)
