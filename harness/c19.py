"""C19 - port discovery picks only EiBotBoards, in enumeration order, and finds by name.

The port enumerator (`comports`, imported by name into plotink.ebb_serial and plotink.ebb3_serial) is
replaced by a stub returning pyserial `ListPortInfo` objects (or plain 3-tuples, as pyserial 2.7 did).
  * correspondence: every function of both layers vs the Lean model (Model/C19.lean) on the same
    port list and keys, compared exactly;
  * oracle (Python, from the property statement): first-board rule, listing rule, membership of every
    lookup result, lookup by reported name / SER= tag / device name / (legacy) SNR= tag in any casing
    when no earlier port matches, agreement of the two layers.
"""
import itertools
from . import common
from .common import enc_str

RULE = ('port lists of 0..6 entries built from 26 templates in the three platform styles (Linux ttyACM, macOS '
        'cu.usbmodem, Windows COMn with SER=... LOCATION= or SNR=), EBB boards named/unnamed/by-id-only/by-description-only, '
        'foreign devices incl. look-alikes (product name or VID:PID not at the start, foreign SER= equal to a board name, '
        'COM1 vs COM10 prefixes); discovery SEQUENCES on one long-lived EBB3 object (all ordered pairs of 15 representative enumerations - empty, '
        'foreign only, description match, VID:PID only, named, unnamed - plus present/absent/present triples and random '
        'walks; the legacy functions run on the same changing lists), every call judged; one further EBB3 object is reused '
        'across all other lists; all ordered lists of <= 3 entries over 9 core templates, then random lists; keys = for every '
        'port its reported name, SER= tag, device name, SNR= tag (legacy) in original/lower/upper/random casing, plus unrelated '
        'keys (None, empty, prefixes, foreign names). A case is one function call; non-trivial when the list is non-empty; '
        'distinct by (function, layer, ports, key).')
TRUSTED = ['pyserial ListPortInfo indexing ([0] device, [1] description, [2] hwid) - the real class is used in the stub',
           'CPython str methods lower/startswith/find/in on ASCII text (modelled by List Char functions, compared each run)']
ASSUMPTIONS = ['ASCII-only device names, descriptions, hardware strings and keys',
               '"an earlier port also matches" is read with the library\'s own lookup criteria (Matches3 / MatchesL in '
               'Model/C19.lean: hwid contains ser=<key> (legacy also snr=<key>), description contains (<key>), description '
               'after its first 11 characters or the device name starts with <key>; all lower-cased)',
               'the enumerator returns normally (the TypeError escape hatch of the code is not part of the property)']
STAGED = []

EBB_DESC = 'EiBotBoard'
EBB_ID = 'USB VID:PID=04D8:FD92'
NAMES = ['Bob', 'AxiDraw 1', 'east', 'EAST2', 'x1y', 'Bo', 'Bobby', 'COM3', 'ab', 'AxiDraw_1', 'North-East', 'Z9z']


def win(nm):
    return nm.replace(' ', '_')


# template: (id, is_core, fn(i, nm) -> (dev, desc, hwid))
TEMPLATES = [
    ('mac_named', True, lambda i, nm: (f'/dev/cu.usbmodem{i}01', f'EiBotBoard,{nm}', f'{EBB_ID} SER={nm} LOCATION=20-{i}')),
    ('mac_unnamed', True, lambda i, nm: (f'/dev/cu.usbmodem{i}01', 'EiBotBoard', f'{EBB_ID} LOCATION=20-{i}')),
    ('linux_named', True, lambda i, nm: (f'/dev/ttyACM{i}', f'EiBotBoard,{nm}', f'{EBB_ID} SER={nm} LOCATION=1-{i}:1.0')),
    ('linux_unnamed', False, lambda i, nm: (f'/dev/ttyACM{i}', 'EiBotBoard', f'{EBB_ID} LOCATION=1-{i}:1.0')),
    ('win_ser', True, lambda i, nm: (f'COM{i + 3}', f'USB Serial Device (COM{i + 3})', f'{EBB_ID} SER={win(nm)} LOCATION=1-{i}')),
    ('win_snr', True, lambda i, nm: (f'COM{i + 3}', f'USB Serial Device (COM{i + 3})', f'{EBB_ID} SNR={win(nm)}')),
    ('win_unnamed', False, lambda i, nm: (f'COM{i + 3}', f'USB Serial Device (COM{i + 3})', f'{EBB_ID} LOCATION=1-{i}')),
    ('win_com1x', False, lambda i, nm: (f'COM1{i}', f'USB Serial Device (COM1{i})', f'{EBB_ID} SER={win(nm)} LOCATION=1-{i}')),
    ('win_com1', False, lambda i, nm: ('COM1', 'USB Serial Device (COM1)', f'{EBB_ID} SER={win(nm)} LOCATION=1-{i}')),
    ('desc_only', True, lambda i, nm: (f'/dev/ttyS{i}', f'EiBotBoard,{nm}', 'n/a')),
    ('id_short_ser', False, lambda i, nm: (f'/dev/ttyACM{i}', 'USB Serial', f'{EBB_ID} SER=a{i % 10} LOCATION=1-{i}')),
    ('id_ser_noloc', False, lambda i, nm: (f'/dev/ttyACM{i}', 'USB Serial', f'{EBB_ID} SER={nm}')),
    ('id_loc_before_ser', False, lambda i, nm: (f'/dev/ttyACM{i}', 'USB Serial', f'{EBB_ID} LOCATION=1-{i} SER={nm}')),
    ('named_space_desc', False, lambda i, nm: (f'/dev/ttyACM{i}', f'EiBotBoard {nm}', f'{EBB_ID} SER={nm} LOCATION=1-{i}')),
    ('foreign_ftdi', True, lambda i, nm: (f'/dev/ttyUSB{i}', 'FT232R USB UART', f'USB VID:PID=0403:6001 SER=A{i}00 LOCATION=1-{i}')),
    ('foreign_win', True, lambda i, nm: (f'COM{i + 3}', f'Arduino Uno (COM{i + 3})', f'USB VID:PID=2341:0043 SER=75{i} LOCATION=1-{i}')),
    ('foreign_desc_inside', True, lambda i, nm: (f'/dev/ttyUSB{i}', 'Clone of EiBotBoard', f'USB VID:PID=1A86:7523 LOCATION=1-{i}')),
    ('foreign_id_inside', False, lambda i, nm: (f'/dev/ttyS{i}', 'n/a', f'PCI {EBB_ID}')),
    ('foreign_id_in_desc', False, lambda i, nm: (f'/dev/ttyUSB{i}', f'{EBB_ID} bridge', 'USB VID:PID=0403:6001')),
    ('foreign_name_in_hwid', False, lambda i, nm: (f'/dev/ttyUSB{i}', 'n/a', 'EiBotBoard')),
    ('foreign_same_ser', False, lambda i, nm: (f'/dev/ttyUSB{i}', 'FT232R USB UART', f'USB VID:PID=0403:6001 SER={nm} LOCATION=1-{i}')),
    ('id_bare', False, lambda i, nm: (f'/dev/ttyACM{i}', 'USB Serial', EBB_ID)),
    ('foreign_microchip', False, lambda i, nm: (f'/dev/ttyACM{i}', 'CDC RS-232 Emulation Demo', f'USB VID:PID=04D8:000A SER={nm} LOCATION=1-{i}')),
    ('foreign_pid_near', False, lambda i, nm: (f'COM{i + 3}', f'USB Serial Device (COM{i + 3})', f'USB VID:PID=04D8:FD93 LOCATION=1-{i}')),
    ('foreign_desc_near', False, lambda i, nm: (f'/dev/ttyUSB{i}', 'EiBotBoar', f'USB VID:PID=1A86:7523 LOCATION=1-{i}')),
    ('bluetooth', False, lambda i, nm: ('/dev/cu.Bluetooth-Incoming-Port', 'n/a', 'n/a')),
]


def is_ebb(p):
    return p[1].startswith(EBB_DESC) or p[2].startswith(EBB_ID)


# ---- oracle side: matching criteria, written from the statement / Matches3, MatchesL ----
def matches(layer, key, q):
    k = key.lower()
    dev, desc, hwid = q[0].lower(), q[1].lower(), q[2].lower()
    hit = ('ser=' + k) in hwid or ('(' + k + ')') in desc or desc[11:].startswith(k) or dev.startswith(k)
    if layer == 'L':
        hit = hit or ('snr=' + k) in hwid
    return hit


def ser_tag(hwid):
    """value of the SER= tag when the hardware string has the SER=... LOCAT shape"""
    if 'SER=' in hwid:
        i1 = hwid.find('SER=') + 4
        i2 = hwid.find(' LOCAT', i1)
        if i2 >= 0:
            return hwid[i1:i2]
    return None


def snr_tag(hwid):
    if 'SNR=' in hwid:
        return hwid[hwid.find('SNR=') + 4:]
    return None


def casings(rng, s):
    out = [s, s.lower(), s.upper(), ''.join(c.upper() if rng.random() < 0.5 else c.lower() for c in s)]
    return list(dict.fromkeys(out))


def run(ctx):
    from plotink import ebb_serial, ebb3_serial
    import serial.tools.list_ports as slp
    from serial.tools.list_ports_common import ListPortInfo
    rng = ctx.rng
    saved = (ebb_serial.comports, ebb3_serial.comports, slp.comports)

    def mkobj(t, as_tuple):
        if as_tuple:
            return tuple(t)
        o = ListPortInfo(t[0], skip_link_detection=True)
        o.description = t[1]
        o.hwid = t[2]
        return o

    def install(objs):
        def stub(*a, **k):
            return iter(list(objs))
        ebb_serial.comports = stub
        ebb3_serial.comports = stub
        slp.comports = stub

    # ---- port lists ----
    # `lists` is processed in order; `owner[i]` names the long-lived EBB3 object that ALSO runs discovery on list i
    # (besides a fresh object): one object per explicit sequence, one global object for everything else.
    lists = [[]]
    owner = ['global']
    T = {t[0]: t[2] for t in TEMPLATES}
    reps = [[], [T['foreign_ftdi'](0, 'x')], [T['mac_named'](1, 'Lab One')], [T['mac_unnamed'](1, 'x')],
            [T['win_ser'](4, 'Bob')], [T['win_snr'](4, 'Bob')], [T['foreign_win'](0, 'x'), T['win_ser'](4, 'AXI_TWO')],
            [T['win_ser'](2, 'Bob'), T['mac_named'](3, 'east')], [T['mac_named'](3, 'east'), T['win_ser'](2, 'Bob')],
            [T['foreign_ftdi'](0, 'x'), T['desc_only'](1, 'Bob')], [T['id_bare'](5, 'x')],
            [T['foreign_desc_inside'](0, 'x')], [T['linux_named'](0, 'Bobby')], [T['foreign_win'](0, 'x'), T['win_unnamed'](6, 'x')],
            [T['linux_unnamed'](0, 'x')]]
    seqs = [[a, b] for a in reps for b in reps]
    seqs += [[a, [], b] for a in reps[2:6] for b in reps[1:8]]
    for _ in range(ctx.n(150)):
        seqs.append([rng.choice(reps) for _ in range(rng.randint(3, 6))])
    for si, sq in enumerate(seqs):
        for ports in sq:
            lists.append(list(ports))
            owner.append(('seq', si))
    n_seq_lists = len(lists)
    core = [t for t in TEMPLATES if t[1]]
    for n in (1, 2, 3):
        for combo in itertools.product(range(len(core)), repeat=n):
            nm = [NAMES[(3 * c + j) % 4] for j, c in enumerate(combo)]       # few names: collisions between boards
            lists.append([core[c][2](j, nm[j]) for j, c in enumerate(combo)])
    for _ in range(ctx.n(2500)):
        n = rng.choice([1, 2, 3, 3, 4, 4, 5, 6])
        pool = rng.sample(NAMES, rng.randint(1, 4))
        ports = []
        for j in range(n):
            t = rng.choice(TEMPLATES)
            ports.append(t[2](j if rng.random() < 0.85 else rng.randint(0, 2), rng.choice(pool)))
        lists.append(ports)
    owner += ['global'] * (len(lists) - len(owner))

    unrelated = [None, '', 'nosuch', 'COM', 'Bob', 'Bo', 'EiBotBoard', 'SER=', '(', 'east', 'usb', 'COM1', '/dev/tty', 'n/a']

    # ---- run implementation, build driver lines ----
    records = []
    lines = []
    try:
        shared = {}
        prev_ports = {}
        for li, ports in enumerate(lists):
            as_tuple = rng.random() < 0.15
            objs = [mkobj(t, as_tuple) for t in ports]
            install(objs)
            rec = {'ports': ports, 'objs': objs, 'err': None}
            try:
                e3 = ebb3_serial.EBB3()
                e3.find_first()
                rec['firstE'] = e3.port_name
                ow = owner[li]
                if ow not in shared:
                    if ow != 'global':
                        for k in [k for k in shared if k != 'global']:     # sequences are consecutive: drop finished ones
                            del shared[k], prev_ports[k]
                    shared[ow] = ebb3_serial.EBB3()
                    prev_ports[ow] = None
                rec['prev'] = prev_ports[ow]
                rec['prev_name'] = shared[ow].port_name
                shared[ow].find_first()
                rec['firstS'] = shared[ow].port_name
                prev_ports[ow] = ports
                rec['firstL'] = ebb_serial.findPort()
                rec['listE'] = ebb3_serial.list_ebb_ports()
                rec['listL'] = ebb_serial.listEBBports()
                rec['namesE'] = ebb3_serial.list_named_ebbs()
                rec['namesL'] = ebb_serial.list_named_ebbs()
            except Exception as ex:
                rec['err'] = repr(ex)
                records.append(rec)
                lines.append(None)
                continue
            # keys: (key, origin) with origin = (port index, kind) or None
            keys = []
            listed = [j for j, t in enumerate(ports) if is_ebb(t)]
            for layer, names in (('E', rec['namesE']), ('L', rec['namesL'])):
                if isinstance(names, list) and len(names) == len(listed):
                    for j, nm in zip(listed, names):
                        if isinstance(nm, str):
                            for k in casings(rng, nm):
                                keys.append((k, (j, 'name' + layer)))
            for j, t in enumerate(ports):
                tag = ser_tag(t[2])
                if tag is not None:
                    for k in casings(rng, tag):
                        keys.append((k, (j, 'ser')))
                for k in casings(rng, t[0]):
                    keys.append((k, (j, 'dev')))
                tag = snr_tag(t[2])
                if tag is not None:
                    for k in casings(rng, tag):
                        keys.append((k, (j, 'snr')))
            if len(keys) > 40:
                keys = rng.sample(keys, 40)
            for k in unrelated:
                keys.append((k, None))
            finds = []
            for (k, origin) in keys:
                try:
                    rE = ebb3_serial.find_named(k)
                    rL = ebb_serial.find_named_ebb(k)
                    finds.append((rL, rE, None))
                except Exception as ex:
                    finds.append((None, None, repr(ex)))
            rec['keys'] = keys
            rec['finds'] = finds
            records.append(rec)
            toks = ['c19', str(len(ports))] + [enc_str(x) for t in ports for x in t] + [str(len(keys))] + \
                   [('None' if k is None else 'k' + enc_str(k)) for (k, _) in keys]
            lines.append(' '.join(toks))
    finally:
        ebb_serial.comports, ebb3_serial.comports, slp.comports = saved

    outs = [None] * len(lines)
    if ctx.driver:
        idx = [i for i, l in enumerate(lines) if l is not None]
        res = ctx.driver.batch([lines[i] for i in idx])
        for i, r in zip(idx, res):
            outs[i] = r

    # ---- canonical forms shared with Drv/C19.lean ----
    def c_opt(v):
        return 'None' if v is None else ('s' + enc_str(v) if isinstance(v, str) else 'OTHER:' + repr(v))

    def c_ports(v):
        if v is None:
            return 'None'
        try:
            if len(v) == 0:
                return 'EMPTY'
            return ';'.join('|'.join(enc_str(p[i]) for i in range(3)) for p in v)
        except Exception:
            return 'OTHER:' + repr(v)

    def c_names(v):
        if v is None:
            return 'None'
        try:
            if len(v) == 0:
                return 'EMPTY'
            return ';'.join(enc_str(s) for s in v)
        except Exception:
            return 'OTHER:' + repr(v)

    for rec, out in zip(records, outs):
        ports = rec['ports']
        pin = {'ports': [list(t) for t in ports]}
        if rec['err'] is not None:
            ctx.count(('raise', tuple(ports)), 'raise')
            ctx.violate('a discovery function raised', pin, rec['err'], 'a value', key='raised')
            continue
        devs = [t[0] for t in ports]
        # ----- first -----
        want = next((t[0] for t in ports if t[1].startswith(EBB_DESC)), None)
        how = 'desc'
        if want is None:
            want = next((t[0] for t in ports if t[2].startswith(EBB_ID)), None)
            how = 'id' if want is not None else 'none'
        for layer, fn in (('L', 'findPort'), ('E', 'find_first')):
            got = rec['first' + layer]
            ctx.count(('first', layer, tuple(ports)), f'first:{how}', nontrivial=bool(ports))
            if got != want:
                ctx.violate(f'{fn}: not the first description match, else first VID:PID match, else None', pin,
                            got, want, key='first')
        if rec.get('prev') is not None:
            ctx.count(('first-again', tuple(rec['prev']), tuple(ports)), f'first-again:{how}')
            if rec['firstS'] != want:
                ctx.violate('find_first on an EBB3 object that already ran a discovery: not the first description match, '
                            'else first VID:PID match, else None of the CURRENT enumeration',
                            {'earlier_ports': [list(t) for t in rec['prev']], 'port_name_before': rec['prev_name'],
                             'ports': [list(t) for t in ports]}, rec['firstS'], want, key='first-again')
        # ----- list -----
        wl = [o for o, t in zip(rec['objs'], ports) if is_ebb(t)] or None
        for layer, fn in (('L', 'listEBBports'), ('E', 'list_ebb_ports')):
            got = rec['list' + layer]
            ctx.count(('list', layer, tuple(ports)), f'list:{min(len(wl or []), 3)}', nontrivial=bool(ports))
            ok = (got is None and wl is None) or (isinstance(got, list) and wl is not None and len(got) == len(wl)
                                                   and all(a is b for a, b in zip(got, wl)))
            if not ok:
                def plain(v):
                    try:
                        return None if v is None else [[p[0], p[1], p[2]] for p in v]
                    except Exception:
                        return repr(v)
                ctx.violate(f'{fn}: not exactly the ports matching either test, in order (None if none)', pin,
                            plain(got), plain(wl), key='list')
            names = rec['names' + layer]
            okn = (names is None and wl is None) or (isinstance(names, list) and wl is not None and len(names) == len(wl)
                                                    and all(isinstance(s, str) for s in names))
            if not okn:
                ctx.violate(f'list_named_ebbs ({layer}): not one name per listed board (None if none)', pin,
                            repr(names), f'{len(wl or [])} names', key='names')
        if rec['firstL'] != rec['firstE'] or c_ports(rec['listL']) != c_ports(rec['listE']):
            ctx.violate('layers disagree on first-board discovery or listing', pin,
                        {'legacy': [rec['firstL'], c_ports(rec['listL'])], 'ebb3': [rec['firstE'], c_ports(rec['listE'])]},
                        'equal results', key='layers')
        if not any('SNR=' in t[2] for t in ports) and rec['namesL'] != rec['namesE']:
            ctx.violate('layers disagree on reported names although no hardware string has an SNR= tag', pin,
                        {'legacy': rec['namesL'], 'ebb3': rec['namesE']}, 'equal results', key='layers')
        # ----- lookups -----
        for (k, origin), (rL, rE, err) in zip(rec['keys'], rec['finds']):
            kin = {'ports': [list(t) for t in ports], 'key': k}
            if err is not None:
                ctx.count(('find', tuple(ports), k), 'find:raise')
                ctx.violate('a lookup raised', kin, err, 'a port name or None', key='raised')
                continue
            for layer, r in (('L', rL), ('E', rE)):
                kind = origin[1] if origin else 'unrelated'
                ctx.count(('find', layer, tuple(ports), k), f'find{layer}:{kind}:{"hit" if r is not None else "none"}',
                          nontrivial=bool(ports))
                if r is not None and r not in devs:
                    ctx.violate('lookup returned something that is not a port of the list', dict(kin, layer=layer), r,
                                'a device of the list or None', key='member')
                if origin is not None:
                    j, okind = origin
                    if okind == 'name' + ('E' if layer == 'L' else 'L') or (okind == 'snr' and layer == 'E'):
                        continue    # a name reported by the other layer / the SNR tag is not this layer's promise
                    if not any(matches(layer, k, ports[i]) for i in range(j)) and r != ports[j][0]:
                        ctx.violate({'nameL': 'lookup by the reported name', 'nameE': 'lookup by the reported name',
                                     'ser': 'lookup by the SER= tag', 'dev': 'lookup by the device name',
                                     'snr': 'legacy lookup by the SNR= tag'}[okind] +
                                    ' (any casing) does not return that board although no earlier port matches',
                                    dict(kin, layer=layer, port_index=j), r, ports[j][0], key='lookup-' + okind[:4])
            if k is not None and rL != rE and not any(('snr=' + k.lower()) in t[2].lower() for t in ports):
                ctx.violate('layers disagree on a lookup although no hardware string contains snr=<key>', kin,
                            {'legacy': rL, 'ebb3': rE}, 'equal results', key='layers')
        # ----- model -----
        if out is not None:
            parts = out.split(' ')
            if len(parts) != 8 + 2 * len(rec['keys']) or 'BAD' in parts:
                raise common.Infra(f'driver answered {out[:200]!r}')
            impl = [c_opt(rec['firstL']), c_opt(rec['firstE']), c_ports(rec['listL']), c_ports(rec['listE']),
                    c_names(rec['namesL']), c_names(rec['namesE'])]
            what = ['findPort', 'find_first', 'listEBBports', 'list_ebb_ports', 'list_named_ebbs (legacy)',
                    'list_named_ebbs (ebb3)']
            for w, a, b in zip(what, impl, parts[:6]):
                if a != b:
                    ctx.disagree(w, pin, a, b)
            if rec.get('prev') is not None and c_opt(rec['firstS']) != parts[1]:
                ctx.disagree('find_first (object reused after an earlier discovery)',
                             {'earlier_ports': [list(t) for t in rec['prev']], 'ports': [list(t) for t in ports]},
                             c_opt(rec['firstS']), parts[1])
            if parts[6] != c_opt(want) or parts[7] != c_ports([t for t in ports if is_ebb(t)] or None):
                raise common.Infra(f'Lean Spec and Python oracle differ on {pin}')
            for qi, ((k, origin), (rL, rE, err)) in enumerate(zip(rec['keys'], rec['finds'])):
                if err is not None:
                    continue
                mL, mE = parts[8 + 2 * qi], parts[9 + 2 * qi]
                if c_opt(rL) != mL:
                    ctx.disagree('find_named_ebb', {'ports': [list(t) for t in ports], 'key': k}, c_opt(rL), mL)
                if c_opt(rE) != mE:
                    ctx.disagree('find_named', {'ports': [list(t) for t in ports], 'key': k}, c_opt(rE), mE)
        if ports:
            ctx.sample({'ports': [list(t) for t in ports][:3], 'first': rec['firstE'], 'names_ebb3': rec['namesE'],
                        'names_legacy': rec['namesL']})

    # ---- separate block: the SOURCE-REGENERATED discovery functions (translator/pyio2lean.py), both layers ----
    gen_discovery_stream(ctx, records, (ebb_serial, ebb3_serial, slp), install, saved)


def gen_discovery_stream(ctx, records, mods, install, saved, cap=1400, max_keys=10):
    """Gen.ebb_serial_findPort / listEBBports / list_named_ebbs / list_port_info / find_named_ebb, Gen.EBB3_find_first,
    Gen.ebb3_serial_list_ebb_ports / list_named_ebbs / find_named with `comports()` as an input: the results the
    implementation produced for every port list of this run must be reproduced exactly"""
    from . import legacygen as G
    if ctx.driver is None:
        return
    ebb_serial, ebb3_serial, slp = mods
    recs = [r for r in records if r['err'] is None and G.ascii_only(*[x for t in r['ports'] for x in t])]
    if len(recs) > cap:
        step = len(recs) / cap
        recs = [recs[int(i * step)] for i in range(cap)]
    lines, mine, inps = [], [], []
    try:
        for rec in recs:
            ports = rec['ports']
            install(list(rec['objs']))
            info, _ = G.result_of(ebb_serial.list_port_info)
            calls = ['ebb_serial_findPort', '@find_first', 'ebb_serial_listEBBports', 'ebb3_serial_list_ebb_ports',
                     'ebb_serial_list_named_ebbs', 'ebb3_serial_list_named_ebbs', 'ebb_serial_list_port_info']
            want = ['V' + G.show(rec['firstL']), 'V' + G.show(rec['firstE']), 'V' + G.show(rec['listL']), 'V' + G.show(rec['listE']),
                    'V' + G.show(rec['namesL']), 'V' + G.show(rec['namesE']), info]
            keys = [(k, f) for (k, _), f in zip(rec['keys'], rec['finds']) if f[2] is None and (k is None or G.ascii_only(k))]
            if len(keys) > max_keys:
                stepk = len(keys) / max_keys
                keys = [keys[int(i * stepk)] for i in range(max_keys)]
            for k, (rL, rE, _) in keys:
                calls += [G.call_tok('ebb_serial_find_named_ebb', (k,)), G.call_tok('ebb3_serial_find_named', (k,))]
                want += ['V' + G.show(rL), 'V' + G.show(rE)]
            lines.append(G.line('.', '.', G.comports_tok(ports), calls))
            mine.append([w + ' . 0' for w in want])
            inps.append({'ports': [list(t) for t in ports], 'calls': calls})
        # comports() raising TypeError: every function returns None
        def boom(*a, **k):
            raise TypeError('comports failed')
        ebb_serial.comports = ebb3_serial.comports = slp.comports = boom
        tcalls = [('ebb_serial_findPort', ebb_serial.findPort), ('ebb_serial_listEBBports', ebb_serial.listEBBports),
                  ('ebb3_serial_list_ebb_ports', ebb3_serial.list_ebb_ports), ('ebb_serial_list_named_ebbs', ebb_serial.list_named_ebbs),
                  ('ebb3_serial_list_named_ebbs', ebb3_serial.list_named_ebbs), ('ebb_serial_list_port_info', ebb_serial.list_port_info),
                  ('ebb_serial_find_named_ebb:s66,111,98', lambda: ebb_serial.find_named_ebb('Bob')),
                  ('ebb3_serial_find_named:s66,111,98', lambda: ebb3_serial.find_named('Bob'))]
        lines.append(G.line('.', '.', 'T', [c for c, _ in tcalls]))
        mine.append([G.result_of(f)[0] + ' . 0' for _, f in tcalls])
        inps.append({'ports': 'comports() raises TypeError'})
    finally:
        ebb_serial.comports, ebb3_serial.comports, slp.comports = saved
    answers = ctx.driver.batch(lines)
    for m, ans, inp in zip(mine, answers, inps):
        G.compare(ctx, 'C19 discovery', inp, m, ans)
    ctx.notes.append(f'regenerated discovery functions: {sum(len(m) for m in mine)} calls on {len(recs)} port lists compared with the implementation')
