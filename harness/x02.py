"""X02 — supplementary (NOT one of the twenty listed properties, not registered in MANIFEST.json): opening a port in the
legacy layer — ebb_serial.testPort, openPort, open_named_port.

Correspondence: the regenerated functions (translator/pyio2lean.py) run by the driver on a read/write script must do what
the real functions do with serial.Serial / comports stubbed: result (the port object, None, or the escaping exception
class), bytes written, write attempts, reads consumed.  Statement-level oracle: the port object is returned only after a
reply beginning b'EBB' to one of at most two b'v\\r' probes; nothing else is ever written; a serial.SerialException never
escapes."""
from .common import enc_str
from . import legacygen as G
from .c15 import Script, FakePort, serial_factory, RAISE

GEN_FUNCTIONS = ['ebb_serial_testPort', 'ebb_serial_openPort', 'ebb_serial_open_named_port']
RULE = ('every script of <= 3 read outcomes over {EBB version line, other EBB-prefixed line, foreign line, blank line, timeout, raising} '
        'x write outcomes {all ok, first fails, second fails} x {port opens, open fails} x exception class {SerialException, OSError} '
        'for testPort; openPort / open_named_port on port lists of 0..3 entries (EBB and foreign devices, named boards) with the same scripts; '
        'a case is non-trivial when a probe is written; distinct by (function, script)')
TRUSTED = ['translator/pyio2lean.py and lean/Plotink/PyObj.lean (validated by this correspondence run)',
           'fake pyserial port (harness/c15.py: Script/FakePort); serial.Serial and comports replaced through module attributes']
ASSUMPTIONS = ['ASCII device bytes and port descriptors; close() does not raise (the script model has no close faults)']
EVIDENCE_DIR = 'supplementary'

EBBV = b'EBBv13_and_above EB Firmware Version 2.8.1\r\n'
OUTCOMES = [EBBV, b'EBB\r\n', b'Marlin 1.0\r\n', b'\r\n', b'', RAISE, b'ebb lower case\r\n', b' EBB leading blank\r\n']
PORTS = [('/dev/ttyACM0', 'EiBotBoard', 'USB VID:PID=04D8:FD92 SER=East LOCATION=1-1'),
         ('COM5', 'USB Serial Device (COM5)', 'USB VID:PID=04D8:FD92 SER=West'),
         ('/dev/ttyUSB0', 'FT232R USB UART', 'USB VID:PID=0403:6001 SER=A50285BI'),
         ('/dev/cu.usbmodem1', 'EiBotBoard,West', 'USB VID:PID=04D8:FD92 SNR=West')]


def one(ctx, ebb_serial, pyserial, fn, gname, args, reads, writes, opens, exc, ports, lines, mine, inps):
    sc = Script(reads, writes, opens)
    sc.exc = exc
    saved = (ebb_serial.serial.Serial, ebb_serial.comports)
    ebb_serial.serial.Serial = serial_factory(sc)
    ebb_serial.comports = lambda ports=ports: list(ports)
    try:
        res, _ = G.result_of(lambda: fn(*args))
    finally:
        ebb_serial.serial.Serial, ebb_serial.comports = saved
    key = G.EXC_KEY.get(exc.__name__, 'serial')
    cp = G.comports_tok(ports)
    if opens and not opens[0]:
        cp = '!' + cp
    lines.append(G.line(G.reads_tok(reads, key), G.writes_tok(writes, key), cp, [G.call_tok(gname, tuple(args))]))
    mine.append((res, [bytes(w) for w in sc.written], sc.nw, len(sc.trace), list(sc.trace)))
    inps.append({'function': gname, 'args': [repr(a) for a in args], 'reads': [x if x == RAISE else x.decode('latin-1') for x in reads],
                 'writes': ''.join(writes), 'opens': opens, 'exception': exc.__name__, 'ports': ports})


def run(ctx):
    from plotink import ebb_serial
    import serial as pyserial
    import logging
    logging.disable(logging.CRITICAL)      # testPort logs every swallowed SerialException
    rng = ctx.rng
    lines, mine, inps, metas = [], [], [], []
    excs = [pyserial.SerialException, OSError]
    scripts = [[]] + [[a] for a in OUTCOMES] + [[a, b] for a in OUTCOMES for b in OUTCOMES] + \
              [[a, b, EBBV] for a in OUTCOMES[2:6] for b in OUTCOMES[2:6]]
    wr = [[], ['x'], ['o', 'x']]
    for reads in scripts:
        for writes in wr:
            for exc in excs:
                for opens in ([True], [False]):
                    if not opens[0] and (exc is OSError or writes or len(reads) > 1):
                        continue        # the script model's open failure is a SerialException; one representative each
                    one(ctx, ebb_serial, pyserial, ebb_serial.testPort, 'ebb_serial_testPort', ['/dev/ttyACM0'], reads, writes, opens, exc,
                        [], lines, mine, inps)
    one(ctx, ebb_serial, pyserial, ebb_serial.testPort, 'ebb_serial_testPort', [None], [EBBV], [], [True], excs[0], [], lines, mine, inps)
    for _ in range(ctx.n(400)):
        k = rng.randint(0, 3)
        ports = [rng.choice(PORTS) for _ in range(k)]
        reads = [rng.choice(OUTCOMES) for _ in range(rng.randint(0, 3))]
        writes = rng.choice(wr)
        exc = rng.choice(excs)
        opens = [rng.random() < 0.85]
        if not opens[0]:
            exc = excs[0]
        if rng.random() < 0.5:
            one(ctx, ebb_serial, pyserial, ebb_serial.openPort, 'ebb_serial_openPort', [], reads, writes, opens, exc, ports, lines, mine, inps)
        else:
            name = rng.choice(['East', 'West', 'west', 'COM5', '/dev/ttyACM0', 'nobody', None, 'EAST'])
            one(ctx, ebb_serial, pyserial, ebb_serial.open_named_port, 'ebb_serial_open_named_port', [name], reads, writes, opens, exc, ports,
                lines, mine, inps)
    logging.disable(logging.NOTSET)
    answers = ctx.driver.batch(lines) if ctx.driver else [None] * len(lines)
    for (res, written, nw, nr, trace), ans, inp in zip(mine, answers, inps):
        ctx.count((inp['function'], repr(inp)), inp['function'] + ':' + res[:6], nw > 0)
        ctx.sample({'input': inp, 'impl': f'{res} written={written} attempts={nw} reads={nr}'})
        writes = inp['writes']
        if ans is not None:
            parts = ans.split(' ')
            ok = len(parts) == 3
            if ok:
                gw = [] if parts[1] == '.' else parts[1].split(';')
                okw = [t for i, t in enumerate(gw) if not (i < len(writes) and writes[i] == 'x')]
                ok = (parts[0] == res and okw == [enc_str(w.decode('latin-1')) for w in written] and len(gw) == nw
                      and parts[2] == str(nr))
            if not ok:
                ctx.disagree('regenerated function (translator/pyio2lean.py) vs implementation', inp,
                             f'{res} written={written} attempts={nw} reads={nr}', ans)
        # ---- statement-level oracle, independent of the model ----
        if any(w != b'v\r' for w in written) or nw > 2:
            ctx.violate('something other than at most two version probes was written', inp, repr(written), "<= 2 x b'v\\r'")
        if res == 'VP' and not any(isinstance(t, bytes) and t.startswith(b'EBB') for t in trace[:2]):
            ctx.violate('port handed out without an EBB identification', inp, res, 'None')
        if res.startswith('X') and inp['exception'] == 'SerialException':
            ctx.violate('a serial.SerialException escaped', inp, res, 'None')
