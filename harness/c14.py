"""C14 - R-tree intersection query equals brute force (plotink/rtree.py, class Index).

Tie between the Lean model (Model/C14.lean) and the current source:
  * the eight quadrant comparison operators are read off the *current* source AST and the model is run
    with exactly those (`Strict` parameter); the theorems C14_query / C14_brute_force need the decidable
    coverage test `coversB` for that assignment - asked from the driver; failing it breaks the tie;
  * differential execution: real `rtree.Index` (built on int / Fraction / float boxes) vs the model:
    the whole tree (leaf id lists, subtree extents) and the id set of every query;
  * oracle (Python, from the property statement): the ids whose closed box shares a point with the
    closed query box; RecursionError = "construction does not terminate".
"""
import ast, os, json, math, itertools, time
from fractions import Fraction
from . import common
from .common import frac_str

RULE = ('corpus (F8 witnesses, single strokes, empty list) first; exhaustive multisets of <= 3 boxes on the 4x4 grid '
        '{0,6,12,18}^2 (all 100 grid queries for <= 2 boxes, 7 derived queries for 3 - sampled on the quick tier, all '
        'on thorough); near-maximal-magnitude float boxes (1e300..DBL_MAX, same and opposite sign, mixed with ordinary and '
        'subnormal ones); every ordered pair of 12 small lists built one after the other, the second asked the first\'s '
        'queries; every index is asked again after the next one was built; random lists of 1..200 boxes from small coordinate pools (ties, duplicates, nesting, shared '
        'edges, zero-width/height, points, boxes constructed to lie exactly on the mean lines) as ints, Fractions and '
        'floats; queries derived from box coordinates (touching edges/corners, points, lines, cover-all, far away). '
        'A case (box list, query) is non-trivial when the list is non-empty; distinct by (boxes, query).')
TRUSTED = ['CPython int/float/Fraction arithmetic and exact mixed comparison',
           'harness AST reader for the eight quadrant comparisons (a shape it cannot read breaks the tie)',
           'Rounding: binary64 running mean modelled by roundBits 53 (validated by the tree comparison of this run; '
           'the theorems hold for every centre function, so the result does not depend on it)']
ASSUMPTIONS = ['boxes and query boxes have finite coordinates with min <= max on both axes; ids are hashable '
               '(natural numbers in the model)',
               'binary64 range effects on the running mean are not modelled: for near-maximal coordinates the mean may '
               'overflow to +-inf (or, for subnormal ones, lose a bit), which still orders every coordinate (it acts like a centre beyond all boxes, an instance '
               'of the arbitrary centre of C14_query); the tree comparison is skipped for that stream, queries are judged by '
               'brute force and against the model\'s id sets. A NaN centre (not reachable from finite boxes in the current '
               'code: every accumulated term is finite) is outside every centre function.',
               'CPython\'s recursion limit is not modelled: the recursion depth is at most the number of boxes '
               '(theorem C14_terminates)']
STAGED = []

EXPECT = [((0, 'lo'), (1, 'lo')), ((2, 'hi'), (1, 'lo')), ((0, 'lo'), (3, 'hi')), ((2, 'hi'), (3, 'hi'))]


# ------------------------------------------------------------------------------------------------
# reading the quadrant comparisons off the current source
# ------------------------------------------------------------------------------------------------
TIE_SCALE = 3   # once the tie is broken the failing-input search runs at this multiple of the budget (default 10; this check is slow)

def extract_flags(repo):
    """-> (flags 'x0y0x1y1x2y2x3y3' as 0/1 string, None) or (None, reason)"""
    try:
        src = open(os.path.join(repo, 'plotink', 'rtree.py')).read()
        tree = ast.parse(src)
        cls = [n for n in tree.body if isinstance(n, ast.ClassDef) and n.name == 'Index'][0]
        init = [n for n in cls.body if isinstance(n, ast.FunctionDef) and n.name == '__init__'][0]
    except Exception as ex:
        return None, f'cannot locate Index.__init__: {ex!r}'
    lists = [n for n in ast.walk(init) if isinstance(n, ast.List) and len(n.elts) == 4
             and all(isinstance(e, ast.ListComp) for e in n.elts)]
    if len(lists) != 1:
        return None, f'expected one list of four list comprehensions, found {len(lists)}'
    flags = ''
    for k, comp in enumerate(lists[0].elts):
        if len(comp.generators) != 1:
            return None, f'quadrant {k}: not a single generator'
        g = comp.generators[0]
        tgt = g.target
        try:
            names = [e.id for e in tgt.elts[1].elts]
            assert len(names) == 4 and isinstance(g.iter, ast.Name) and g.iter.id == 'bboxes'
            assert ast.dump(comp.elt) == ast.dump(tgt).replace('Store()', 'Load()')
        except Exception:
            return None, f'quadrant {k}: comprehension is not "(i,(a,b,c,d)) for (i,(a,b,c,d)) in bboxes"'
        conj = []
        for c in g.ifs:
            if isinstance(c, ast.BoolOp) and isinstance(c.op, ast.And):
                conj += c.values
            else:
                conj.append(c)
        tests = {}
        for c in conj:
            if not (isinstance(c, ast.Compare) and len(c.ops) == 1 and isinstance(c.left, ast.Name)
                    and isinstance(c.comparators[0], ast.Name)):
                return None, f'quadrant {k}: condition {ast.unparse(c)!r} is not a simple comparison'
            l, r, op = c.left.id, c.comparators[0].id, type(c.ops[0]).__name__
            if l in ('center_x', 'center_y'):
                l, r = r, l
                op = {'Lt': 'Gt', 'LtE': 'GtE', 'Gt': 'Lt', 'GtE': 'LtE'}.get(op, op)
            if r not in ('center_x', 'center_y') or l not in names or op not in ('Lt', 'LtE', 'Gt', 'GtE'):
                return None, f'quadrant {k}: condition {ast.unparse(c)!r} is not "<coordinate> <op> <centre>"'
            axis = 'x' if r == 'center_x' else 'y'
            if axis in tests:
                return None, f'quadrant {k}: two tests on the {axis} axis'
            tests[axis] = (names.index(l), 'lo' if op in ('Lt', 'LtE') else 'hi', op in ('Lt', 'Gt'))
        if set(tests) != {'x', 'y'}:
            return None, f'quadrant {k}: needs one x and one y test, has {sorted(tests)}'
        for axis, exp in zip('xy', EXPECT[k]):
            if tests[axis][:2] != exp:
                return None, (f'quadrant {k}: {axis}-test compares coordinate #{tests[axis][0]} on the '
                              f'{tests[axis][1]} side; the model has coordinate #{exp[0]} on the {exp[1]} side')
        flags += ('1' if tests['x'][2] else '0') + ('1' if tests['y'][2] else '0')
    return flags, None


# ------------------------------------------------------------------------------------------------
# oracle and canonical forms
# ------------------------------------------------------------------------------------------------
def shares_point(b, q):
    """closed rectangles b, q (x1,y1,x2,y2) have a common point (exact comparisons)"""
    return b[0] <= q[2] and q[0] <= b[2] and b[1] <= q[3] and q[1] <= b[3]


def oracle(boxes, q):
    return {i for (i, b) in boxes if shares_point(b, q)}


def num(v):
    if type(v) is int:
        return str(v)
    try:
        return frac_str(Fraction(v))
    except (OverflowError, ValueError):
        return repr(v)


def dump_tree(idx):
    if not idx.subtrees:
        return 'L[' + ','.join(str(i) for (i, _) in idx.bboxes) + ']'
    out = 'N'
    for s in idx.subtrees:
        if s.xmin == math.inf and s.ymin == math.inf and s.xmax == -math.inf and s.ymax == -math.inf:
            e = '-'
        else:
            e = ','.join(num(v) for v in (s.xmin, s.ymin, s.xmax, s.ymax))
        out += '(' + e + ':' + dump_tree(s) + ')'
    return out


def tree_depth(idx):
    return 0 if not idx.subtrees else 1 + max(tree_depth(s) for s in idx.subtrees)


def shw(v):
    """readable and exactly re-readable rendering for evidence / replays"""
    return repr(v) if type(v) is float else num(v)


def show_boxes(boxes):
    return [[i, [shw(v) for v in b]] for (i, b) in boxes]


def is_huge(boxes):
    """coordinates at which binary64 range effects (overflow of the running mean, subnormal halving) can occur"""
    return any(type(v) is float and (abs(v) > 1e300 or 0 < abs(v) < 1e-290) for _, b in boxes for v in b)


def conv(kind, v):
    v = Fraction(v)
    if kind == 'frac':
        return v
    if kind == 'float':
        return float(v)
    return int(v) if v.denominator == 1 else v


# ------------------------------------------------------------------------------------------------
# generators
# ------------------------------------------------------------------------------------------------
def queries_for(rng, boxes, m, kind):
    xs = sorted({b[0] for _, b in boxes} | {b[2] for _, b in boxes}) or [0]
    ys = sorted({b[1] for _, b in boxes} | {b[3] for _, b in boxes}) or [0]
    step = Fraction(1, 2) if kind == 'frac' else (0.5 if kind == 'float' else 1)

    def near(pool):
        v = rng.choice(pool)
        r = rng.random()
        if kind == 'float' and r >= 0.6 and rng.random() < 0.5:      # one ulp beside a box edge (near-tie)
            return math.nextafter(float(v), math.inf if r < 0.8 else -math.inf)
        return v if r < 0.6 else (v - step if r < 0.8 else v + step)
    qs = []
    while len(qs) < m:
        r = rng.random()
        if r < 0.45:
            a, b = sorted([near(xs), near(xs)]); c, d = sorted([near(ys), near(ys)])
            q = (a, c, b, d)
        elif r < 0.6 and boxes:      # touching one edge or corner of a box
            _, bx = rng.choice(boxes)
            w, h = rng.choice([0, step, 3 * step]), rng.choice([0, step, 3 * step])
            side = rng.randrange(8)
            x1, y1, x2, y2 = bx
            q = [(x1 - w, y1, x1, y2), (x2, y1, x2 + w, y2), (x1, y1 - h, x2, y1), (x1, y2, x2, y2 + h),
                 (x1 - w, y1 - h, x1, y1), (x2, y2, x2 + w, y2 + h), (x1 - w, y2, x1, y2 + h), (x2, y1 - h, x2 + w, y1)][side]
        elif r < 0.75:               # a point or a line
            a, c = near(xs), near(ys)
            q = rng.choice([(a, c, a, c), (a, ys[0], a, ys[-1]), (xs[0], c, xs[-1], c)])
        elif r < 0.85:               # just missing by one step
            if boxes:
                _, bx = rng.choice(boxes)
                q = rng.choice([(bx[2] + step, bx[1], bx[2] + 2 * step, bx[3]), (bx[0] - 2 * step, bx[1], bx[0] - step, bx[3]),
                                (bx[0], bx[3] + step, bx[2], bx[3] + 2 * step), (bx[0], bx[1] - 2 * step, bx[2], bx[1] - step)])
            else:
                q = (0, 0, 1, 1)
        elif r < 0.93:
            q = (xs[0] - step, ys[0] - step, xs[-1] + step, ys[-1] + step)
        else:
            q = (xs[-1] + 5 * step, ys[-1] + 5 * step, xs[-1] + 9 * step, ys[-1] + 9 * step)
        qs.append(q)
    return qs


def gen_boxes(rng, kind, nmax):
    """random id-tagged boxes; `kind` in int / frac / float"""
    r = rng.random()
    n = 1 + int((rng.random() ** 2.2) * nmax) if r > 0.15 else rng.randint(1, 6)
    style = rng.random()
    if style < 0.5:
        k = rng.randint(2, 7)
        if kind == 'int':
            pool = [rng.randint(-8, 8) * rng.choice([1, 1, 2, 6]) for _ in range(k)]
        elif kind == 'frac':
            pool = [Fraction(rng.randint(-12, 12), rng.choice([1, 1, 2, 3, 4, 7])) for _ in range(k)]
        else:
            pool = [rng.randint(-16, 16) / rng.choice([1, 2, 4, 8]) for _ in range(k)] + \
                   [rng.choice([0.1, 0.3, 1 / 3, 2.7, -1.1])]
        def coord():
            return rng.choice(pool)
    else:
        scale = rng.choice([4, 20, 1000])
        if kind == 'int':
            def coord():
                return rng.randint(-scale, scale)
        elif kind == 'frac':
            def coord():
                return Fraction(rng.randint(-scale * 4, scale * 4), rng.choice([1, 2, 3, 4, 5, 6, 8]))
        else:
            def coord():
                return rng.choice([round(rng.uniform(-scale, scale), rng.choice([0, 1, 2])), rng.uniform(-scale, scale)])
    boxes = []
    pz = rng.choice([0.0, 0.15, 0.4, 0.9])
    idpool = n if rng.random() < 0.85 else max(1, n // 2)
    for j in range(n):
        r = rng.random()
        if boxes and r < 0.12:                     # duplicate
            b = rng.choice(boxes)[1]
        elif boxes and r < 0.22:                   # nested in an earlier box
            o = rng.choice(boxes)[1]
            x = sorted([o[0], o[2], coord()])[:2] if rng.random() < 0.5 else [o[0], o[2]]
            y = sorted([o[1], o[3], coord()])[1:] if rng.random() < 0.5 else [o[1], o[3]]
            b = (x[0], y[0], x[1], y[1])
        elif boxes and r < 0.32:                   # shares an edge with an earlier box
            o = rng.choice(boxes)[1]
            x = sorted([o[2], coord()]); y = sorted([coord(), coord()])
            b = (x[0], y[0], x[1], y[1]) if rng.random() < 0.5 else (y[0], x[0], y[1], x[1])
        else:
            x = sorted([coord(), coord()]); y = sorted([coord(), coord()])
            if rng.random() < pz:
                x[1] = x[0]
            if rng.random() < pz:
                y[1] = y[0]
            b = (x[0], y[0], x[1], y[1])
        boxes.append((j % idpool, tuple(b)))
    return boxes


def gen_on_center(rng, nmax):
    """Fraction boxes with the last box placed exactly on the mean lines of the whole list"""
    k = rng.randint(1, max(1, min(nmax, 12)))
    base = gen_boxes(rng, rng.choice(['int', 'frac']), k)[:k]
    k = len(base)
    sx = sum((Fraction(b[0]) + Fraction(b[2])) / 2 for _, b in base)
    sy = sum((Fraction(b[1]) + Fraction(b[3])) / 2 for _, b in base)

    def place(s):
        w = Fraction(rng.choice([0, 0, 1, 2, 3]), rng.choice([1, 2]))
        mode = rng.randrange(4)
        if mode == 0:          # low edge on the centre
            c = (s + w / 2) / k
            return c, c + w
        if mode == 1:          # high edge on the centre
            c = (s - w / 2) / k
            return c - w, c
        if mode == 2:          # degenerate on the centre
            c = s / k
            return c, c
        lo = Fraction(rng.randint(-9, 9), 2)
        return lo, lo + w
    x = place(sx); y = place(sy)
    boxes = [(i, tuple(Fraction(v) for v in b)) for i, b in base] + [(k, (x[0], y[0], x[1], y[1]))]
    rng.shuffle(boxes)
    return boxes


FMAX = 1.7976931348623157e308


def gen_huge(rng):
    """finite float boxes of near-maximal magnitude (1e300 .. DBL_MAX), same and opposite sign, mixed with ordinary
    and tiny ones; returns (boxes, queries)"""
    big = [FMAX, 1.7e308, 1.5e308, 1.2e308, 1e308, 8.99e307, 9e307, 4.5e307, 1e305, 1e300]
    small = [0.0, 1.0, -1.0, 2.5, 1e-310, 5e-324, 1e6]
    style = rng.choice(['opposite', 'opposite', 'same', 'mixed', 'max'])

    def coord(axis_big):
        if not axis_big:
            return rng.choice(small) * rng.choice([1, -1])
        if style == 'max':
            return FMAX * rng.choice([1, 1, 1, -1]) if rng.random() < 0.8 else rng.choice(big)
        v = rng.choice(big) * rng.choice([1.0, 1.0, rng.random()])
        if style == 'same':
            return v
        if style == 'opposite':
            return v * rng.choice([1, -1])
        return v * rng.choice([1, -1]) if rng.random() < 0.6 else rng.choice(small)
    n = rng.choice([1, 2, 2, 3, 3, 4, 5, 7, 9, 12])
    xbig, ybig = rng.random() < 0.8, rng.random() < 0.4
    boxes = []
    for j in range(n):
        x = sorted([coord(xbig), coord(xbig)]); y = sorted([coord(ybig), coord(ybig)])
        if rng.random() < 0.2:
            x[1] = x[0]
        if rng.random() < 0.2:
            y[1] = y[0]
        if style == 'max' and boxes and rng.random() < 0.5:
            boxes.append((j, boxes[-1][1]))
            continue
        boxes.append((j, (x[0], y[0], x[1], y[1])))
    xs = sorted({b[0] for _, b in boxes} | {b[2] for _, b in boxes} | {-FMAX, FMAX, 0.0})
    ys = sorted({b[1] for _, b in boxes} | {b[3] for _, b in boxes} | {-FMAX, FMAX, 0.0})
    qs = [(-FMAX, -FMAX, FMAX, FMAX)]
    for _ in range(7):
        a, b = sorted([rng.choice(xs), rng.choice(xs)]); c, d = sorted([rng.choice(ys), rng.choice(ys)])
        if rng.random() < 0.25:
            b = a
        if rng.random() < 0.25:
            d = c
        qs.append((a, c, b, d))
    return boxes, qs


def pair_lists(rng):
    """small box lists in separate regions, used for 'two instances one after the other'"""
    out = [[], [(0, (2, 0, 2, 1))], [(5, (0, 0, 0, 0))],
           [(0, (0.0, 0.0, 1.0, 1.0)), (1, (2.0, 0.0, 3.0, 1.0)), (2, (0.0, 2.0, 1.0, 3.0)), (3, (2.0, 2.0, 3.0, 3.0)),
            (4, (1.5, 0.0, 1.5, 3.0))],
           [(10, (10.0, 10.0, 11.0, 11.0)), (11, (12.0, 10.0, 13.0, 11.0)), (12, (10.0, 12.0, 13.0, 12.0))]]
    for _ in range(7):
        off = rng.choice([0, 0, 20, -40])
        bs = gen_boxes(rng, 'int', rng.choice([2, 4, 9]))
        base = rng.randint(0, 3) * 100
        out.append([(base + i, (b[0] + off, b[1] + off, b[2] + off, b[3] + off)) for i, b in bs])
    return out


GRID = [0, 6, 12, 18]
GRID_IV = [(a, b) for a in GRID for b in GRID if a <= b]
GRID_BOXES = [(x[0], y[0], x[1], y[1]) for x in GRID_IV for y in GRID_IV]


# ------------------------------------------------------------------------------------------------
def run(ctx):
    from plotink import rtree
    rng = ctx.rng
    t_start = time.time()
    flags, why = extract_flags(common.REPO)
    covered = None
    if flags is None:
        ctx.disagree('quadrant comparisons of rtree.Index.__init__ are not of the modelled shape', {'reason': why},
                     'current source', 'Model/C14.lean quad')
    else:
        ctx.notes.append(f'quadrant strictness read from source (x0 y0 x1 y1 x2 y2 x3 y3, 1 = strict): {flags}')
        if ctx.driver:
            covered = ctx.driver.batch([f'c14 covers {flags}'])[0] == 'True'
            ctx.notes.append(f'coversB for the current source: {covered}')
            if not covered:
                ctx.disagree('hypothesis coversB of C14_query / C14_brute_force fails for the quadrant comparisons of the '
                             'current source (some box with min<=max on a split line is in no quadrant)',
                             {'flags': flags}, flags, 'a covering assignment, e.g. 00000000')
    use_model = ctx.driver is not None and flags is not None

    cases = []   # (tag, kind, boxes, queries)

    # ---- corpus / replay ----
    def load(path):
        out = []
        for line in open(path):
            line = line.strip()
            if not line or line.startswith('#'):
                continue
            d = json.loads(line)
            kind = d.get('kind', 'int')
            bs = [(i, tuple(conv(kind, v) for v in b)) for i, b in d['boxes']]
            qs = [tuple(conv(kind, v) for v in q) for q in d['queries']]
            out.append(('corpus', kind, bs, qs))
        return out
    cdir = os.path.join(common.VERIF, 'corpus', 'C14')
    if os.path.isdir(cdir):
        for f in sorted(os.listdir(cdir)):
            if f.endswith('.jsonl'):
                cases += load(os.path.join(cdir, f))
    if getattr(ctx, 'replay', None):
        try:
            rp = json.load(open(ctx.replay))
            for v in rp.get('violations', []):
                inp = v.get('input', {})
                if 'boxes' in inp and 'query' in inp:
                    rk = inp.get('kind', 'frac')
                    bs = [(i, tuple(conv(rk, x) for x in b)) for i, b in inp['boxes']]
                    cases.append(('replay', rk, bs, [tuple(conv(rk, x) for x in inp['query'])]))
        except Exception as ex:
            ctx.notes.append(f'replay file not usable: {ex!r}')

    # near-maximal finite floats: the running mean may overflow to +-inf in binary64 (an infinite centre still orders
    # every coordinate, so the partition argument applies), which the unbounded-exponent model does not mirror:
    # the tree comparison is skipped for this stream, the id sets and the brute-force oracle are not
    for _ in range(ctx.n(700)):
        bs, qs = gen_huge(rng)
        cases.append(('huge', 'float', bs, qs))
    # two instances one after the other: every ordered pair of a few small lists in separate / shared regions;
    # the second instance is also asked the first one's queries (and, below, the first is asked again afterwards)
    pl = pair_lists(rng)
    for a in pl:
        for b in pl:
            qa = queries_for(rng, a, 4, 'int'); qb = queries_for(rng, b, 4, 'int')
            cases.append(('pair-1st', 'int', a, qa + qb))
            cases.append(('pair-2nd', 'int', b, qb + qa))

    # ---- exhaustive small: multisets of <= 3 boxes on the 4x4 grid (scaled by 6: the float mean is exact) ----
    grid_q = list(GRID_BOXES)
    cases.append(('grid0', 'int', [], grid_q[:10]))
    for c in itertools.combinations_with_replacement(range(100), 1):
        cases.append(('grid1', 'int', [(k, GRID_BOXES[j]) for k, j in enumerate(c)], grid_q))
    for c in itertools.combinations_with_replacement(range(100), 2):
        cases.append(('grid2', 'int', [(k, GRID_BOXES[j]) for k, j in enumerate(c)], grid_q))
    triples = list(itertools.combinations_with_replacement(range(100), 3))
    if ctx.tier != 'thorough' and not ctx.tie_broken:
        triples = rng.sample(triples, 40000)
    for c in triples:
        bs = [(k, GRID_BOXES[j]) for k, j in enumerate(c)]
        cases.append(('grid3', 'int', bs, queries_for(rng, bs, 7, 'int')))

    # ---- large leaves: more than 256 boxes that all contain the split centre end up in ONE leaf (counts beyond the
    # small-integer cache, beyond typical recursion/size shortcuts): nested, duplicate and random-around-a-point ----
    for n in (257, 300, 513):
        nested = [(k, (-k - 1, -k - 1, k + 1, k + 1)) for k in range(n)]
        cases.append(('bigleaf', 'int', nested, queries_for(rng, nested[:40], 4, 'int') + [(0, 0, 0, 0), (-n - 5, -n - 5, -n - 2, n + 5)]))
    dup = [(k, (2, 3, 7, 5)) for k in range(300)]
    cases.append(('bigleaf', 'int', dup, [(0, 0, 1, 1), (7, 5, 9, 9), (3, 4, 3, 4)]))
    around = [(k, (-rng.randint(1, 50), -rng.randint(1, 50), rng.randint(1, 50), rng.randint(1, 50))) for k in range(280)]
    cases.append(('bigleaf', 'int', around, queries_for(rng, around[:40], 5, 'int')))
    # ---- random ----
    for _ in range(ctx.n(1400)):
        kind = rng.choice(['int', 'frac', 'frac'])
        bs = gen_boxes(rng, kind, 200 if rng.random() < 0.07 else 30)
        cases.append(('rand-' + kind, kind, bs, queries_for(rng, bs, 8, kind)))
    for _ in range(ctx.n(1200)):
        bs = gen_on_center(rng, 12)
        cases.append(('oncenter', 'frac', bs, queries_for(rng, bs, 8, 'frac')))
    for _ in range(ctx.n(400)):
        bs = gen_boxes(rng, 'float', 120 if rng.random() < 0.06 else 25)
        cases.append(('rand-float', 'float', bs, queries_for(rng, bs, 8, 'float')))

    t_gen = time.time()
    # ---- model: one driver line per case ----
    is_huge_case = {id(bs): is_huge(bs) for (_, _, bs, _) in cases}

    def exact_mean(tag, kind):
        return kind == 'frac' or tag.startswith('grid') or is_huge_case.get(id(bs), False)
    outs = [None] * len(cases)
    if use_model:
        lines = []
        for (tag, kind, bs, qs) in cases:
            mode = 'exact' if exact_mean(tag, kind) else 'f64'
            toks = ['c14 run', flags, mode, str(len(bs))]
            for i, b in bs:
                toks.append(str(i)); toks += [num(v) for v in b]
            toks.append(str(len(qs)))
            for q in qs:
                toks += [num(v) for v in q]
            lines.append(' '.join(toks))
        outs = ctx.driver.batch(lines)

    t_drv = time.time()
    shrunk = 0
    nonterm = 0
    earlier = None      # (index, boxes, queries, kind) of the previous case, asked again after the next build
    for (tag, kind, bs, qs), out in zip(cases, outs):
        if len(ctx.violations) >= 200 or nonterm >= 12:
            ctx.notes.append('exploration stopped early: violation cap reached')
            break
        def inp0_():
            return {'kind': kind, 'boxes': show_boxes(bs)}
        try:
            idx = rtree.Index(list(bs))
        except RecursionError:
            nonterm += 1
            ctx.count((tag, tuple(bs)), f'{tag}:norec')
            ctx.violate('construction does not terminate (RecursionError)', inp0_(), 'RecursionError', 'a finite tree',
                        key='no-termination')
            continue
        except Exception as ex:
            ctx.count((tag, tuple(bs)), f'{tag}:raise')
            ctx.violate(f'construction raised {type(ex).__name__}', inp0_(), repr(ex), 'an index', key='raised')
            continue
        try:
            depth = tree_depth(idx)
            dump = dump_tree(idx)
        except Exception as ex:
            depth, dump = -1, f'unreadable: {ex!r}'
        if earlier is not None:
            eidx, ebs, eqs, ekind = earlier
            for q in eqs[:2] + qs[:1]:
                ctx.count(('again', tuple(ebs), q, tuple(bs)), 'earlier-instance-again', nontrivial=bool(ebs))
                try:
                    rs = set(eidx.intersection(q))
                except Exception as ex:
                    rs = {'raised ' + repr(ex)}
                want = oracle(ebs, q)
                if rs != want:
                    ctx.violate('an index built earlier answers wrongly after another index was built in the same process',
                                {'kind': ekind, 'boxes': show_boxes(ebs), 'query': [shw(v) for v in q],
                                 'built_afterwards': show_boxes(bs)},
                                {'returned': sorted(rs, key=repr)}, {'ids': sorted(want)},
                                key='missed' if want - rs else 'extra')
        earlier = (idx, bs, qs, kind)
        mtree = mids = mspec = None
        if out is not None:
            parts = out.split(' ')
            if len(parts) != 4:
                raise common.Infra(f'driver answered {out!r}')
            mtree = parts[0]
            mids = [set() if t in ('-', '.') else {int(x) for x in t.split(',')} for t in parts[1].split(';')]
            mspec = [set() if t in ('-', '.') else {int(x) for x in t.split(',')} for t in parts[2].split(';')]
            if mtree != dump and not is_huge(bs):
                ctx.disagree('tree built by Index.__init__ differs from the model (leaf contents / subtree extents)',
                             inp0_(), dump, mtree)
        path = f"{tag}:{'leaf' if depth == 0 else 'depth' + str(min(depth, 4)) if depth > 0 else 'unreadable'}"
        first = None
        for qi, q in enumerate(qs):
            def inp_():
                return {'kind': kind, 'boxes': show_boxes(bs), 'query': [shw(v) for v in q]}
            ctx.count((tuple(bs), q), path, nontrivial=bool(bs))
            try:
                r = idx.intersection(q)
                rs = set(r)
            except RecursionError:
                ctx.violate('query does not terminate (RecursionError)', inp_(), 'RecursionError', 'a set of ids', key='raised')
                continue
            except Exception as ex:
                ctx.violate(f'intersection raised {type(ex).__name__}', inp_(), repr(ex), 'a set of ids', key='raised')
                continue
            want = oracle(bs, q)
            if qi == 0:
                first = sorted(rs)
            if mspec is not None and qs and mspec[qi] != want:
                raise common.Infra(f'Lean Spec bruteForce {sorted(mspec[qi])} != Python oracle {sorted(want)} on {inp_()}')
            if mids is not None and mids[qi] != rs:
                ctx.disagree('intersection() differs from the model query', inp_(), sorted(rs), sorted(mids[qi]))
            if rs != want:
                missed, extra = sorted(want - rs), sorted(rs - want)
                inp = inp_()
                if shrunk < 6:   # minimise the box list (greedy removal while the same kind of failure persists)
                    shrunk += 1
                    cur = list(bs)
                    changed = True
                    while changed and len(cur) > 1:
                        changed = False
                        for j in range(len(cur)):
                            t = cur[:j] + cur[j + 1:]
                            try:
                                rr = set(rtree.Index(list(t)).intersection(q))
                            except Exception:
                                continue
                            ww = oracle(t, q)
                            if (missed and ww - rr) or (extra and not missed and rr - ww):
                                cur = t; changed = True
                                break
                    rr = set(rtree.Index(list(cur)).intersection(q)); ww = oracle(cur, q)
                    inp = {'kind': kind, 'boxes': show_boxes(cur), 'query': [shw(v) for v in q],
                           'shrunk_from_boxes': len(bs)}
                    rs, want, missed, extra = rr, ww, sorted(ww - rr), sorted(rr - ww)
                if missed:
                    ctx.violate('a box sharing a point with the query is not reported', inp,
                                {'returned': sorted(rs), 'missed': missed}, {'ids': sorted(want)}, key='missed')
                if extra:
                    ctx.violate('an id is reported whose boxes are all disjoint from the query', inp,
                                {'returned': sorted(rs), 'extra': extra}, {'ids': sorted(want)}, key='extra')
            elif not isinstance(r, (set, frozenset)):
                ctx.violate('intersection() does not return a set', inp_(), type(r).__name__, 'set', key='type')
        if bs and qs:
            ctx.sample({'tag': tag, 'boxes': show_boxes(bs)[:6], 'query': [shw(v) for v in qs[0]],
                        'impl': first, 'tree_depth': depth})
    ctx.notes.append(f'timing: generate {t_gen - t_start:.1f}s, model (driver) {t_drv - t_gen:.1f}s, implementation+oracle {time.time() - t_drv:.1f}s; {len(cases)} box lists')

    # =================================================================================================
    # ---- the SOURCE-REGENERATED code (translator: classes, recursion on fuel, comprehensions, sets): gen_stream below
    gen_stream(ctx, rtree, cases)
    # ======== "sitecov" input stream - self-contained, implemented at the end of this file; keep this call last ========
    _sitecov_tail(ctx)


# Generated-code stream: Gen.rtree_Index_init / Gen.rtree_Index_intersection (lean/Plotink/Gen/rtree_Index.lean,
# regenerated from rtree.py on every run - the definitions the C14_gen_* theorems are about) against the real class:
# the WHOLE instance tree (class tag, leaf box lists, subtree lists, the four extents with +-inf for empty quadrants) must
# be identical, every float bit for bit, and every query must return the same id set.  Fraction boxes run under
# Rounding.exact, int and float boxes under Rounding.ieee (the running mean is binary64 arithmetic).  Not compared:
# near-maximal floats (the mean overflows in binary64; Rounding.ieee has an unbounded exponent).  Fuel = number of
# boxes + 2 (the recursion depth is at most the number of boxes: C14_terminates).
GEN_FUNCTIONS = ['rtree_Index']
TRUSTED = TRUSTED + ['Gen.rtree_Index_init / _intersection are regenerated from rtree.py on every run (C14_gen_* theorems); not '
                     'verified, validated by the generated-code stream of this run: the translator (classes as tagged field '
                     'tuples, recursion on fuel, list comprehensions, sets as duplicate-free lists, math.inf as sentinels of '
                     'the extended comparisons) and the Py.Val library; Rounding.ieee as binary64']


def _gen_val(v):
    from .common import pyval, enc_str
    if isinstance(v, Fraction):
        return 'f' + frac_str(v)
    if isinstance(v, float) and v == math.inf:
        return 's' + enc_str('inf')
    if isinstance(v, float) and v == -math.inf:
        return 's' + enc_str('-inf')
    if isinstance(v, (list, tuple)):
        return '(' + ' '.join(_gen_val(x) for x in v) + ')'
    return pyval(v)


def _gen_tree(idx):
    from .common import enc_str
    return '(' + ' '.join(['s' + enc_str('Index'), _gen_val(idx.bboxes), '(' + ' '.join(_gen_tree(t) for t in idx.subtrees) + ')',
                           _gen_val(idx.xmin), _gen_val(idx.ymin), _gen_val(idx.xmax), _gen_val(idx.ymax)]) + ')'


def _gen_arg(v):
    if isinstance(v, (list, tuple)):
        return '[' + ','.join(_gen_arg(x) for x in v) + ']'
    return _gen_val(v)


def gen_stream(ctx, rtree, cases):
    if not ctx.driver:
        ctx.notes.append('generated-code stream skipped: no driver')
        return
    rng = ctx.rng
    t0 = time.time()
    sel = [c for c in cases if c[0] != 'huge' and not is_huge(c[2]) and all(isinstance(i, int) for i, _ in c[2])]
    cap = ctx.n(2400)
    if len(sel) > cap:
        head = [c for c in sel if c[0] in ('corpus', 'replay')]
        rest = [c for c in sel if c[0] not in ('corpus', 'replay')]
        by_tag = {}
        for c in rest:
            by_tag.setdefault(c[0], []).append(c)
        per = max(1, (cap - len(head)) // max(1, len(by_tag)))
        sel = head
        for tag in sorted(by_tag):
            sel += by_tag[tag] if len(by_tag[tag]) <= per else rng.sample(by_tag[tag], per)
    lines = []
    for (tag, kind, bs, qs) in sel:
        dps = 'x15' if kind == 'frac' else '15'
        lines.append(f"gen rtree {dps} {len(bs) + 2} {_gen_arg([[i, list(b)] for i, b in bs])} {_gen_arg([list(q) for q in qs[:6]])}")
    outs = ctx.driver.batch(lines)
    n = bad_t = bad_q = nq = 0
    for (tag, kind, bs, qs), g in zip(sel, outs):
        inp = {'gen': True, 'kind': kind, 'boxes': show_boxes(bs)}
        try:
            idx = rtree.Index(list(bs))
            want_t = _gen_tree(idx)
            rs = [set(idx.intersection(q)) for q in qs[:6]]
        except Exception as ex:
            ctx.disagree('Gen.rtree_Index vs rtree.Index: the real class raised', inp, repr(ex), g[:200])
            continue
        n += 1
        ctx.count(('gen', tag, tuple(bs)), 'gen:' + kind, False)
        want = '(' + want_t + ' ('
        if not g.startswith(want):
            bad_t += 1
            ctx.disagree(f"Gen.rtree_Index_init (Rounding.{'exact' if kind == 'frac' else 'ieee'}) vs rtree.Index: instance trees differ",
                         inp, want_t[:400], g[:400])
            continue
        tail = g[len(want):-2] if g.endswith('))') else None
        got = None
        if tail is not None:
            got, depth, cur = [], 0, ''
            for ch in tail:        # the results: a blank-separated list of (id id …) groups
                if ch == '(':
                    depth += 1; cur = ''
                elif ch == ')':
                    depth -= 1; got.append({int(x) for x in cur.split()} if cur.strip() else set())
                else:
                    cur += ch
        for k, (q, r) in enumerate(zip(qs[:6], rs)):
            nq += 1
            if got is None or k >= len(got) or got[k] != r:
                bad_q += 1
                ctx.disagree('Gen.rtree_Index_intersection vs Index.intersection: id sets differ',
                             dict(inp, query=[shw(v) for v in q]), sorted(r), sorted(got[k]) if got and k < len(got) else g[-200:])
    ctx.notes.append(f'generated-code stream: Gen.rtree_Index (init + intersection) vs the real class on {n} box lists: whole instance '
                     f'trees compared bit for bit ({bad_t} differ), {nq} queries as id sets ({bad_q} differ); {time.time() - t0:.1f}s')



# ================================================================================================
# "sitecov" input stream (harness/sitecov.py, DESIGN 3c): the class rtree.Index is instrumented as a whole (the
# comparisons inside the four quadrant list comprehensions of __init__, the leaf test and the pruning test of
# intersection - recursion stays inside the twin class); every site is driven to lhs == rhs and to either side -
# separately for the first executions of each site in a call - by exact moves on one coordinate of one box or of the
# query (Fractions, min <= max kept); the inputs found go through run() itself (real code, Lean model tree and query,
# brute-force oracle, earlier-instance check) and are additionally counted under the path 'sitecov'.
# Self-contained block at the end of the file on purpose (the body of `run` is untouched except for its last line).
# ================================================================================================
def _sitecov_plain_boxes(rng, kind='frac', nmax=5):
    """boxes WITHOUT structure (no shared edges, duplicates, nesting, degenerate sides): random rationals"""
    den = rng.choice([97, 1009, 10007])
    if kind == 'int':
        g = lambda: rng.randint(-10 ** 6, 10 ** 6)                      # noqa: E731
    elif kind == 'float':
        g = lambda: rng.uniform(-1000, 1000)                            # noqa: E731
    else:
        g = lambda: Fraction(rng.randint(-20 * den, 20 * den), den)      # noqa: E731
    out = []
    for j in range(rng.randint(1, max(1, min(nmax, 6)))):
        x, y = sorted([g(), g()]), sorted([g(), g()])
        out.append((j, (x[0], y[0], x[1], y[1])))
    return out


def _sitecov_plain_queries(rng, boxes, m, kind='frac'):
    den = 1009
    if kind == 'int':
        g = lambda: rng.randint(-10 ** 6, 10 ** 6)                      # noqa: E731
    elif kind == 'float':
        g = lambda: rng.uniform(-1000, 1000)                            # noqa: E731
    else:
        g = lambda: Fraction(rng.randint(-22 * den, 22 * den), den)      # noqa: E731
    qs = []
    for _ in range(m):
        x, y = sorted([g(), g()]), sorted([g(), g()])
        qs.append((x[0], y[0], x[1], y[1]))
    return qs


def _sitecov_domain(a):
    boxes, q = a
    ok = lambda b: len(b) == 4 and all(type(v) in (int, Fraction) and abs(v) <= 10 ** 6 for v in b) and b[0] <= b[2] and b[1] <= b[3]   # noqa: E731
    return ok(q) and all(type(i) is int and ok(b) for (i, b) in boxes)


def _sitecov_adjust(args, path):
    """keep min <= max: when one edge of a box / of the query is moved past the opposite edge, drag that edge along"""
    boxes, q = args

    def fix(b, m):
        b = list(b)
        if m < 2 and b[m] > b[m + 2]:
            b[m + 2] = b[m]
        elif m >= 2 and b[m] < b[m - 2]:
            b[m - 2] = b[m]
        return tuple(b)
    if path[0] == 1:
        return (boxes, fix(q, path[1]))
    if len(path) == 4 and path[2] == 1:
        boxes = list(boxes)
        i, b = boxes[path[1]]
        boxes[path[1]] = (i, fix(b, path[3]))
    return (boxes, q)


class _NoGrids:
    """stands in for `itertools` during a nested pass: the exhaustive grid multisets are not rebuilt"""
    @staticmethod
    def combinations_with_replacement(*_a):
        return []


def _sitecov_rerun(ctx, cases):
    from . import sitecov
    payload = {'violations': [{'input': {'kind': 'frac', 'boxes': [[i, [str(Fraction(v)) for v in b]] for (i, b) in boxes],
                                         'query': [str(Fraction(v)) for v in q]}} for (boxes, q) in cases]}
    sitecov.rerun_patched(ctx, globals(), over={'scale': 0, 'tie_broken': True}, replay=payload,
                          patches={'itertools': _NoGrids, 'pair_lists': lambda rng: []})


def _sitecov_tail(ctx):
    if getattr(ctx, '_in_sitecov', False) or getattr(ctx, '_only_main', False) or getattr(ctx, 'replay', None) \
            or os.environ.get('SITECOV_OFF'):
        return
    from . import sitecov
    from plotink import rtree
    rng = ctx.rng
    only = bool(os.environ.get('SITECOV_ONLY'))
    seeds = []
    while len(seeds) < 120:
        if only:
            bs = _sitecov_plain_boxes(rng)
            q = _sitecov_plain_queries(rng, bs, 1)[0]
        else:
            bs = (gen_boxes(rng, 'frac', 5) if rng.random() < 0.6 else gen_on_center(rng, 4))[:5]
            q = queries_for(rng, bs, 1, 'frac')[0]
        seeds.append(([(i, tuple(Fraction(v) for v in b)) for (i, b) in bs], tuple(Fraction(v) for v in q)))
    ids_fixed = lambda path, v: 'fixed' if (len(path) == 3 and path[0] == 0 and path[2] == 0) else None   # noqa: E731
    sitecov.stream(ctx, 'rtree.Index', rtree.Index, seeds, rerun=lambda cs: _sitecov_rerun(ctx, cs),
                   apply=lambda tw, a: tw.cls(list(a[0])).intersection(a[1]),
                   moves=sitecov.Moves(kinds=ids_fixed, domain=_sitecov_domain, adjust=_sitecov_adjust,
                                       groups=lambda path, v: 'xy'[path[-1] % 2]), budget=1400,
                   max_inputs=250)


if os.environ.get('SITECOV_ONLY'):
    # EXPERIMENT ONLY (measures what the sitecov stream finds on its own): corpus, exhaustive grids, instance pairs,
    # the structured box / on-centre / query generators and the huge-float range stream are disabled
    import types as _types
    from . import sitecov as _sc
    _sc.only_mode(globals(), tail=_sitecov_tail, over={'tie_broken': True},
                  patches={'itertools': _NoGrids, 'pair_lists': lambda rng: [], 'gen_boxes': _sitecov_plain_boxes,
                           'gen_on_center': lambda rng, nmax: _sitecov_plain_boxes(rng, 'frac', nmax),
                           'queries_for': _sitecov_plain_queries,
                           'gen_huge': lambda rng: (lambda bs: (bs, _sitecov_plain_queries(rng, bs, 4, 'float')))(_sitecov_plain_boxes(rng, 'float')),
                           'common': _types.SimpleNamespace(**{**vars(common), 'VERIF': '/nonexistent'})},
                  note='corpus, exhaustive grid multisets, instance pairs and the structured box / on-centre / touching-query '
                       'generators are disabled; inputs = unbiased random rational boxes and queries + the sitecov stream')
