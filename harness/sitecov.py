"""sitecov - implementation comparison-site coverage, adaptive to the CURRENT source (DESIGN 3c).

    twin = instrument(func)                       an instrumented in-memory copy of `func` (and of the module-level
                                                  functions of the same module that it calls); /repo is not touched
    inputs, report = explore(twin, seeds, ...)    hill-climb every comparison site towards lhs == rhs, +-1, both outcomes
    stream(ctx, ...)                              glue used by the per-property modules: seeds -> explore -> domain filter
                                                  -> the module's own pipeline (path 'sitecov') -> one note in the evidence

A *site* is one link of an `ast.Compare` (every link of a chained comparison is its own site) or a truthiness test
(`if`/`elif`/`while`/ternary/comprehension-`if` test - or an operand of `and`/`or`/`not` inside such a test - that is
not a comparison).  Site id: "<function>:<line>:<col>:<op>" with the line number of the real source file.

For numeric operands (int, float, Fraction, mpmath.mpf - converted to exact rationals; bool is not numeric) the probe
records the signed difference lhs - rhs (value - 0 for a truthiness test) and the outcome, otherwise the outcome only.

This is search.  It is used only to *find* inputs; whatever it finds is judged by the module's own correspondence and
oracle.  Nothing here ever decides a verdict, and everything random comes from the `rng` that is passed in.
"""
import ast, inspect, textwrap, types, math, operator, random, time
from fractions import Fraction

__all__ = ['instrument', 'explore', 'Moves', 'Twin', 'exact', 'stream', 'compact']

_OPS = {ast.Eq: ('==', operator.eq), ast.NotEq: ('!=', operator.ne), ast.Lt: ('<', operator.lt),
        ast.LtE: ('<=', operator.le), ast.Gt: ('>', operator.gt), ast.GtE: ('>=', operator.ge),
        ast.Is: ('is', operator.is_), ast.IsNot: ('is not', operator.is_not),
        ast.In: ('in', lambda a, b: a in b), ast.NotIn: ('not in', lambda a, b: a not in b)}
_CMP, _TRUTH = '__sc_cmp', '__sc_truth'
_INF = float('inf')
TRACE_CAP = 4096          # probe records kept per call (loops)


# ----------------------------------------------------------------------------------------------
# exact values
# ----------------------------------------------------------------------------------------------
def exact(x):
    """the exact rational value of a numeric operand (int when integral), or None when `x` is not a finite number"""
    t = type(x)
    if t is int:
        return x
    if t is bool:
        return None
    if t is float:
        if x != x or x == _INF or x == -_INF:
            return None
        n, d = x.as_integer_ratio()
        return n if d == 1 else Fraction(n, d)
    if t is Fraction:
        return x.numerator if x.denominator == 1 else x
    m = getattr(x, '_mpf_', None)
    if type(m) is tuple and len(m) == 4:                  # mpmath.mpf: (sign, mantissa, exponent, bitcount)
        sign, man, exp = m[0], int(m[1]), int(m[2])
        if man == 0:
            return 0 if exp == 0 else None                # zero / inf, nan
        v = -man if sign else man
        return v << exp if exp >= 0 else Fraction(v, 1 << -exp)
    if isinstance(x, bool):
        return None
    if isinstance(x, int):
        return int(x)
    if isinstance(x, float):
        return exact(float(x))
    if isinstance(x, Fraction):
        return exact(Fraction(x.numerator, x.denominator))
    return None


# ----------------------------------------------------------------------------------------------
# instrumentation
# ----------------------------------------------------------------------------------------------
class Site:
    __slots__ = ('idx', 'id', 'func', 'line', 'col', 'op', 'kind', 'text')

    def __init__(self, idx, func, line, col, op, kind, text):
        self.idx, self.func, self.line, self.col, self.op, self.kind, self.text = idx, func, line, col, op, kind, text
        self.id = f'{func}:{line}:{col}:{op}'

    def __repr__(self):
        return f'<site {self.id} {self.text!r}>'


class Twin:
    """callable instrumented copy of a function.  `twin(*args)` behaves like the original; afterwards `twin.trace`
    holds the probe records of that call: (site index, lhs - rhs | None, outcome | None, both operands integral,
    max(|lhs|, |rhs|))."""

    def __init__(self, func):
        self.original = func
        self.__wrapped__ = func
        self.__name__ = getattr(func, '__name__', 'twin')
        self.sites = []           # index -> Site
        self.functions = []       # names of the instrumented functions (the anchored one first)
        self.trace = []
        self._ops = []
        self.fn = None

    # -- probes (must never change behaviour: the comparison itself runs first and may raise like the original) --
    def _cmp(self, i, lhs, rhs):
        res = self._ops[i](lhs, rhs)
        tr = self.trace
        if len(tr) < TRACE_CAP:
            try:
                a, b = exact(lhs), exact(rhs)
                out = res if type(res) is bool else None
                if a is None or b is None:
                    tr.append((i, None, out, False, 0))
                else:
                    d = a - b
                    if type(d) is Fraction and d.denominator == 1:
                        d = d.numerator
                    tr.append((i, d, out, type(a) is int and type(b) is int, max(abs(a), abs(b))))
            except Exception:      # noqa: recording is best effort
                pass
        return res

    def _truth(self, i, v):
        res = bool(v)              # exactly one __bool__/__len__ call, as the `if` itself would make
        tr = self.trace
        if len(tr) < TRACE_CAP:
            try:
                a = exact(v)
                if a is None:
                    tr.append((i, None, res, False, 0))
                else:
                    tr.append((i, a, res, type(a) is int, abs(a)))
            except Exception:      # noqa
                pass
        return res

    def __call__(self, *args, **kw):
        self.trace = []
        return self.fn(*args, **kw)

    def run(self, *args, **kw):
        """-> (('ok', value) | ('exc', exception), trace)"""
        self.trace = []
        try:
            r = ('ok', self.fn(*args, **kw))
        except Exception as ex:    # noqa
            r = ('exc', ex)
        return r, self.trace

    def same_as_original(self, *args, **kw):
        """run both; True when results (or exception types and messages) agree"""
        def one(f):
            try:
                return ('ok', f(*args, **kw))
            except Exception as ex:   # noqa
                return ('exc', type(ex), str(ex))
        a, b = one(self.original), one(self)
        if a[0] != b[0]:
            return False
        if a[0] == 'exc':
            return a[1:] == b[1:]
        try:
            return repr(a[1]) == repr(b[1]) and type(a[1]) is type(b[1])
        except Exception:             # noqa
            return True

    def site_ids(self):
        return [s.id for s in self.sites]


class _Instr(ast.NodeTransformer):
    def __init__(self, twin, fname, walrus=True):
        self.twin, self.fname, self.walrus = twin, fname, walrus
        self.ntmp = 0

    def _new_site(self, node, op, kind, fn):
        tw = self.twin
        s = Site(len(tw.sites), self.fname, getattr(node, 'lineno', 0), getattr(node, 'col_offset', 0), op, kind,
                 ast.unparse(node))
        tw.sites.append(s)
        tw._ops.append(fn)
        return s.idx

    @staticmethod
    def _done(node):
        return isinstance(node, ast.Call) and isinstance(node.func, ast.Name) and node.func.id in (_CMP, _TRUTH)

    def visit_Compare(self, node):
        if any(type(o) not in _OPS for o in node.ops):
            return self.generic_visit(node)
        if len(node.ops) > 1 and not self.walrus:
            return self.generic_visit(node)
        operands = [node.left] + list(node.comparators)
        # site records (text of the ORIGINAL link) before the operands are rewritten
        idxs = []
        for k, o in enumerate(node.ops):
            link = ast.Compare(left=operands[k], ops=[o], comparators=[operands[k + 1]])
            ast.copy_location(link, operands[k])
            name, fn = _OPS[type(o)]
            idxs.append(self._new_site(link, name, 'cmp', fn))
        operands = [self.visit(x) for x in operands]
        links, prev = [], operands[0]
        for k, i in enumerate(idxs):
            rhs = operands[k + 1]
            if k + 1 < len(idxs):      # this operand is needed again by the next link: evaluate it once
                self.ntmp += 1
                tmp = f'__sc_t{self.ntmp}'
                rhs_expr = ast.NamedExpr(target=ast.Name(id=tmp, ctx=ast.Store()), value=rhs)
                nxt = ast.Name(id=tmp, ctx=ast.Load())
            else:
                rhs_expr, nxt = rhs, None
            call = ast.Call(func=ast.Name(id=_CMP, ctx=ast.Load()), args=[ast.Constant(i), prev, rhs_expr], keywords=[])
            links.append(ast.copy_location(call, node))
            prev = nxt
        new = links[0] if len(links) == 1 else ast.BoolOp(op=ast.And(), values=links)
        return ast.copy_location(new, node)

    def _test(self, e):
        """rewrite an expression that is used for its truth value only"""
        if self._done(e):
            return e
        if isinstance(e, ast.BoolOp):
            e.values = [self._test(v) for v in e.values]
            return e
        if isinstance(e, ast.UnaryOp) and isinstance(e.op, ast.Not):
            e.operand = self._test(e.operand)
            return e
        if isinstance(e, ast.Compare):
            new = self.visit(e)
            if isinstance(new, ast.Compare):          # an operator we do not wrap: treat as truthiness
                i = self._new_site(e, 'truth', 'truth', None)
                new = ast.copy_location(ast.Call(func=ast.Name(id=_TRUTH, ctx=ast.Load()), args=[ast.Constant(i), new],
                                                 keywords=[]), e)
            return new
        i = self._new_site(e, 'truth', 'truth', None)
        inner = self.visit(e)
        return ast.copy_location(ast.Call(func=ast.Name(id=_TRUTH, ctx=ast.Load()), args=[ast.Constant(i), inner],
                                          keywords=[]), e)

    def visit_If(self, node):
        node.test = self._test(node.test)
        return self.generic_visit(node)

    visit_While = visit_If
    visit_IfExp = visit_If

    def visit_comprehension(self, node):
        node.ifs = [self._test(x) for x in node.ifs]
        return self.generic_visit(node)


def _called_functions(tree, module, seen):
    """module-level Python functions of `module` referenced by name inside `tree` (alias -> function)"""
    out = {}
    for n in ast.walk(tree):
        if isinstance(n, ast.Name) and isinstance(n.ctx, ast.Load):
            obj = module.__dict__.get(n.id)
            if isinstance(obj, types.FunctionType) and obj.__globals__ is module.__dict__ and obj not in seen \
                    and not obj.__closure__:
                out[n.id] = obj
    return out


def _parse(func):
    lines, lnum = inspect.getsourcelines(func)
    tree = ast.parse(textwrap.dedent(''.join(lines)))
    ast.increment_lineno(tree, lnum - 1)
    fdefs = [n for n in tree.body if isinstance(n, (ast.FunctionDef, ast.AsyncFunctionDef))]
    if len(fdefs) != 1:
        raise ValueError(f'sitecov: cannot isolate the definition of {func!r}')
    return tree, fdefs[0]


def instrument(func, follow=True, walrus=True):
    """instrumented twin of `func`, compiled in memory from the current source.  Module-level functions of the same
    module that `func` references by name are instrumented too (`follow`).  Raises on functions without retrievable
    source, closures and bound methods."""
    func = inspect.unwrap(func)
    if not isinstance(func, types.FunctionType):
        raise TypeError(f'sitecov: not a plain Python function: {func!r}')
    if func.__closure__:
        raise TypeError('sitecov: closures are not supported')
    module = inspect.getmodule(func)
    if module is None or func.__globals__ is not module.__dict__:
        raise TypeError('sitecov: cannot find the defining module')
    twin = Twin(func)
    todo, seen, defs, aliases = [(func.__name__, func)], [func], [], {}
    while todo:
        alias, f = todo.pop(0)
        tree, fdef = _parse(f)
        if follow:
            for a, g in _called_functions(tree, module, seen).items():
                seen.append(g)
                todo.append((a, g))
        if alias != f.__name__:
            aliases[alias] = f.__name__
        twin.functions.append(f.__name__)
        tr = _Instr(twin, f.__name__, walrus)
        fdef = tr.visit(fdef)
        defs.append(fdef)
    mod = ast.Module(body=defs, type_ignores=[])
    ast.fix_missing_locations(mod)
    env = dict(vars(module))
    env[_CMP], env[_TRUTH] = twin._cmp, twin._truth
    try:
        code = compile(mod, inspect.getsourcefile(func) or f'<sitecov {func.__name__}>', 'exec')
    except SyntaxError:
        if walrus:                 # a chained comparison in a place where := is not allowed: leave chains alone
            return instrument(func, follow, walrus=False)
        raise
    exec(code, env)
    for a, n in aliases.items():
        env[a] = env[n]
    twin.fn = env[func.__name__]
    return twin


# ----------------------------------------------------------------------------------------------
# exploration
# ----------------------------------------------------------------------------------------------
class Moves:
    """restrictions on the moves of `explore`.

    kinds   per argument index: 'int' (stays an int), 'float' (stays a float), 'num' (int when integral, else float),
            'fixed' (never changed).  Default: from the type of the seed's value; non-numeric values are fixed.
    lo, hi  per argument index: inclusive bounds (candidates are clamped)
    domain  callback(args tuple) -> bool; candidates outside are neither evaluated nor returned
    adjust  callback(list of args) -> tuple | None applied to every candidate (may repair or reject it)
    """

    def __init__(self, kinds=None, lo=None, hi=None, domain=None, adjust=None):
        self.kinds, self.lo, self.hi, self.domain, self.adjust = dict(kinds or {}), dict(lo or {}), dict(hi or {}), domain, adjust

    def kind(self, j, v):
        k = self.kinds.get(j)
        if k:
            return k
        if type(v) is int:
            return 'int'
        if type(v) is float:
            return 'float'
        return 'fixed'


class _Obs:
    __slots__ = ('args', 'hits', 'path', 'exc')


def _absf(d):
    return d if d >= 0 else -d


class _Explorer:
    INT_STEPS = [1, 2, 16, 256, 4096, 65536, 1 << 20, 1 << 24, 1 << 28, 1 << 32, 1 << 40]

    def __init__(self, twin, moves, budget, rng, apply, keep):
        self.twin, self.mv, self.budget, self.rng = twin, moves or Moves(), budget, rng
        self.apply = apply or (lambda tw, a: tw(*a))
        self.keep = keep
        self.evals = 0
        self.rejects = 0
        self.cache = {}
        self.cov = {}            # site idx -> dict
        self.pool = {}           # site idx -> list of (absdiff, order, args): inputs that reached the site
        self.noinf = {}          # (site, coordinate) -> number of fruitless line searches
        self.spent = {}
        self.flat = {}           # (site, coordinate) -> line searches in which no step changed the distance
        self.limit = budget
        self.vused = {}          # (site, goal, coordinate) -> valley searches spent
        self.order = 0
        self.seedset = set()

    # ---- evaluation --------------------------------------------------------------------------
    def _key(self, args):
        return tuple((type(a).__name__, a) for a in args)

    def ev(self, args):
        """observe one input (cached).  None when rejected (domain, budget)"""
        args = tuple(args)
        k = self._key(args)
        if k in self.cache:
            return self.cache[k]
        if self.mv.domain is not None:
            ok = False
            if self.rejects <= 4 * self.budget + 1000:
                try:
                    ok = bool(self.mv.domain(args))
                except Exception:          # noqa: a domain predicate that cannot judge the input rejects it
                    ok = False
            if not ok:
                self.rejects += 1
                self.cache[k] = None
                return None
        if self.evals >= self.limit:
            return None
        self.evals += 1
        tw = self.twin
        tw.trace = []
        exc = None
        try:
            self.apply(tw, args)
        except Exception as ex:            # noqa: the pipeline will judge it
            exc = ex
        ob = _Obs()
        ob.args, ob.exc = args, exc
        hits, path = {}, []
        for (i, d, out, intv, mag) in tw.trace:
            if len(path) < 256:
                path.append((i, out))
            c = self.cov.get(i)
            if c is None:
                c = self.cov[i] = {'hit_true': 0, 'hit_false': 0, 'hit_equal': 0, 'best_abs_diff': None, 'numeric': False,
                                   'int_valued': True, 'pos': None, 'neg': None, 'in_eq': [], 'in_pos': [], 'in_neg': [],
                                   'in_true': None, 'in_false': None, 'mag': 0, 'hits': 0}
                self.pool[i] = []
            c['hits'] += 1
            if out is True:
                c['hit_true'] += 1
                if c['in_true'] is None:
                    c['in_true'] = args
            elif out is False:
                c['hit_false'] += 1
                if c['in_false'] is None:
                    c['in_false'] = args
            if d is not None:
                c['numeric'] = True
                if not intv:
                    c['int_valued'] = False
                ad = _absf(d)
                if c['best_abs_diff'] is None or ad < c['best_abs_diff']:
                    c['best_abs_diff'] = ad
                if d == 0:
                    c['hit_equal'] += 1
                    if len(c['in_eq']) < self.keep and args not in c['in_eq']:
                        c['in_eq'].append(args)
                elif d > 0:
                    if c['pos'] is None or d < c['pos']:
                        c['pos'], c['in_pos'], c['mag'] = d, [args], mag
                    elif d == c['pos'] and len(c['in_pos']) < self.keep and args not in c['in_pos']:
                        c['in_pos'].append(args)
                else:
                    if c['neg'] is None or d > c['neg']:
                        c['neg'], c['in_neg'], c['mag'] = d, [args], mag
                    elif d == c['neg'] and len(c['in_neg']) < self.keep and args not in c['in_neg']:
                        c['in_neg'].append(args)
                h = hits.get(i)
                if h is None or ad < _absf(h[0]):
                    hits[i] = (d, out, intv, mag)
            elif i not in hits:
                hits[i] = (None, out, False, 0)
        ob.hits, ob.path = hits, tuple(path)
        for i, h in hits.items():
            if h[0] is not None:
                self.order += 1
                p = self.pool[i]
                p.append((_absf(h[0]), self.order, args))
                if len(p) > 400:
                    p.sort()
                    rest = p[100:]
                    del p[100:]
                    p.extend(self.rng.sample(rest, 100))
        self.cache[k] = ob
        return ob

    # ---- candidate construction --------------------------------------------------------------
    def coords(self, args):
        return [j for j, v in enumerate(args) if self.mv.kind(j, v) != 'fixed']

    def with_value(self, args, j, val):
        """args with coordinate j set to the rational `val` (respecting kind and bounds) - list of candidate tuples"""
        kind = self.mv.kind(j, args[j])
        lo, hi = self.mv.lo.get(j), self.mv.hi.get(j)
        vals = []
        if kind == 'int' or (kind == 'num' and Fraction(val).denominator == 1):
            f = math.floor(val)
            vals = [f] if f == val else [f, f + 1]
        else:
            try:
                x = float(val)
            except OverflowError:
                return []
            if x != x or x in (_INF, -_INF):
                return []
            vals = [x]
            if Fraction(x) != val:
                vals += [math.nextafter(x, _INF) if Fraction(x) < val else math.nextafter(x, -_INF)]
        out = []
        for v in vals:
            if lo is not None and v < lo:
                v = lo
            if hi is not None and v > hi:
                v = hi
            if v == args[j] and type(v) is type(args[j]):
                continue
            c = list(args)
            c[j] = v
            if self.mv.adjust is not None:
                c = self.mv.adjust(c)
                if c is None:
                    continue
            c = tuple(c)
            if c not in out:
                out.append(c)
        return out

    def steps(self, args, j):
        """exploratory step sizes for coordinate j (rationals), small first"""
        v = args[j]
        kind = self.mv.kind(j, v)
        if kind == 'int' or (kind == 'num' and type(v) is int):
            out = []
            for s in self.INT_STEPS:
                out += [s, -s]
                if s > 4 * abs(v) + 4096:
                    break
            return out
        x = float(v)
        u = Fraction(math.ulp(x)) if x != 0 else Fraction(1, 1 << 60)
        base = [u, 2 * u, 1024 * u, Fraction(1 << 20) * u, Fraction(1 << 36) * u, Fraction(1, 10 ** 9), Fraction(1, 1000),
                Fraction(abs(Fraction(x))) / 2, Fraction(1), Fraction(1000)]
        out = []
        for s in base:
            if s > 0:
                out += [s, -s]
        return out

    # ---- search ------------------------------------------------------------------------------
    def value(self, ob, s, goal):
        """signed distance of site s from `goal` in observation `ob`; None when the site was not reached numerically"""
        if ob is None:
            return None
        h = ob.hits.get(s)
        if h is None or h[0] is None:
            return None
        return h[0] - goal

    def first_divergence(self, ref, ob):
        """first site at which `ob` takes another outcome than the reference run -> (site, reference diff) | None"""
        for (a, b) in zip(ref.path, ob.path):
            if a[0] != b[0]:
                return None
            if a[1] != b[1]:
                h = ref.hits.get(a[0])
                return a[0], (h[0] if h else None)
        return None

    def repair(self, ref, cand, s, used):
        """`cand` no longer reaches site s (a guard on the way flipped): restore the guard(s) with other coordinates"""
        used = set(used)
        for _ in range(3):
            ob = self.ev(cand)
            if ob is None:
                return None
            if s in ob.hits and ob.hits[s][0] is not None:
                return cand
            dv = self.first_divergence(ref, ob)
            if dv is None or dv[1] is None:
                return None
            g, want = dv
            if self.value(ob, g, want) is None:
                return None
            cs = [j for j in self.coords(cand) if j not in used and not self.flat.get((g, j))]
            self.rng.shuffle(cs)
            fixed = None
            for k in cs[:3]:
                x = self.line(g, want, cand, k, allow_repair=False, iters=4, valley=False)
                if x is not None:
                    ob2 = self.ev(x)
                    if ob2 is not None and self.value(ob2, g, want) == 0:
                        fixed, used = x, used | {k}
                        break
            if fixed is None:
                return None
            cand = fixed
        ob = self.ev(cand)
        return cand if ob is not None and s in ob.hits and ob.hits[s][0] is not None else None

    def line(self, s, goal, args, j, allow_repair=True, iters=8, valley=True):
        """line search along coordinate j for |diff_s - goal| -> better args or None"""
        ob0 = self.ev(args)
        d0 = self.value(ob0, s, goal)
        if d0 is None or d0 == 0:
            return None
        best, bestd = None, _absf(d0)
        x0 = Fraction(args[j])
        pts = {x0: d0}             # coordinate value -> signed distance (site reached)
        lost = []

        def probe(val, rep):
            nonlocal best, bestd
            got = None
            for c in self.with_value(args, j, val):
                ob = self.ev(c)
                d = self.value(ob, s, goal)
                if d is None and ob is not None and rep and allow_repair:
                    c2 = self.repair(ob0, c, s, {j})
                    if c2 is not None:
                        ob = self.ev(c2)
                        d = self.value(ob, s, goal)
                        if d is not None and _absf(d) < bestd:     # a repaired point changed other coordinates too:
                            best, bestd = c2, _absf(d)             # usable as a result, not as a point on this line
                        continue
                if d is None:
                    if ob is not None:
                        lost.append(c)
                    continue
                pts[Fraction(c[j])] = d
                got = d
                if _absf(d) < bestd:
                    best, bestd = c, _absf(d)
            return got

        # 1. exploratory steps until the distance changes
        slope_pt = None
        tried = 0
        for st in self.steps(args, j):
            d1 = probe(x0 + st, False)
            tried += 1
            if d1 is not None and d1 != d0:
                slope_pt = x0 + st
                break
            if bestd == 0 or tried >= 14:
                break
        if bestd == 0:
            return best
        if slope_pt is None:
            # every small move loses the site (an equality guard on the way) or changes nothing: aim straight at the
            # goal assuming slope +-1 and let `repair` restore the guards
            if allow_repair and lost and type(d0) is int:
                for val in (x0 - d0, x0 + d0):
                    probe(val, True)
                    if bestd == 0:
                        break
            if not lost:
                self.flat[(s, j)] = self.flat.get((s, j), 0) + 1      # this coordinate does not move the site at all
            return best
        # 2. secant / bisection
        for _ in range(iters):
            if bestd == 0:
                break
            xs = sorted(pts)
            # a sign change between two neighbouring evaluated points: bisect there
            br = None
            for a, b in zip(xs, xs[1:]):
                if (pts[a] > 0) != (pts[b] > 0) and pts[a] != 0 and pts[b] != 0:
                    if br is None or (b - a) < (br[1] - br[0]):
                        br = (a, b)
            if br is not None:
                a, b = br
                kind = self.mv.kind(j, args[j])
                if kind == 'int' or (kind == 'num' and type(args[j]) is int):
                    if b - a <= 1:
                        break
                else:
                    if float(b) == math.nextafter(float(a), _INF) or float(a) == float(b):
                        break
                # secant inside the bracket, falling back to the midpoint
                t = a - pts[a] * (b - a) / (pts[b] - pts[a])
                mid = (a + b) / 2
                cand = t if (a < t < b and self.rng.random() < 0.5) else mid
                n_before = len(pts)
                probe(cand, True)
                if len(pts) == n_before:
                    probe(mid, False)
                    if len(pts) == n_before:
                        break
                continue
            # no bracket: secant through the two points closest to the goal
            two = sorted(pts, key=lambda x: (_absf(pts[x]), x))[:2]
            if len(two) < 2:
                break
            a, b = two
            if pts[a] == pts[b]:
                break
            t = a - pts[a] * (b - a) / (pts[b] - pts[a])
            n_before = len(pts)
            probe(t, True)
            if len(pts) == n_before:      # nothing new (rejected, lost, or already known): try a damped step
                probe(a + (t - a) / 2, False)
                if len(pts) == n_before:
                    break
        # 3. valley search.  Integer-valued sites built from floor/ceil have distances like ... -3 -2 -1 [0] <jump>:
        #    the goal sits in a narrow window next to a discontinuity (or next to a guard that flips), where neither a
        #    secant nor a sign-change bisection gets.  Bisect between the best point and a worse / lost point next
        #    to it, always keeping the side that is still at least as good.
        if bestd != 0 and valley and type(d0) is int and min(_absf(v) for v in pts.values()) <= 8 \
                and self.vused.get((s, goal, j), 0) < 8:
            self.vused[(s, goal, j)] = self.vused.get((s, goal, j), 0) + 1
            is_int = self.mv.kind(j, args[j]) == 'int' or (self.mv.kind(j, args[j]) == 'num' and type(args[j]) is int)
            a0 = min(pts, key=lambda x: (_absf(pts[x]), _absf(x - x0)))
            lostx = sorted({Fraction(c[j]) for c in lost})
            for direction in (1, -1):
                a, fa = a0, _absf(pts[a0])
                # the nearest known point beyond `a` that is worse or lost
                beyond = [x for x in list(pts) + lostx if (x - a) * direction > 0 and (x not in pts or _absf(pts[x]) > fa)]
                inside = [x for x in pts if (x - a) * direction > 0 and _absf(pts[x]) <= fa]
                b = min(beyond, key=lambda x: _absf(x - a)) if beyond else None
                if inside:                      # walk to the farthest point that is still as good
                    far = max(inside, key=lambda x: _absf(x - a))
                    if b is None or _absf(far - a) < _absf(b - a):
                        a, fa = far, _absf(pts[far])
                    else:
                        keep_in = [x for x in inside if _absf(x - a0) < _absf(b - a0)]
                        if keep_in:
                            a = max(keep_in, key=lambda x: _absf(x - a0))
                            fa = _absf(pts[a])
                if b is None:                   # find a worse point by doubling
                    st = 1 if is_int else max(Fraction(math.ulp(float(a))), _absf(a) / (1 << 40))
                    for _ in range(40):
                        st *= 4
                        n_lost = len(lost)
                        d = probe(a + direction * st, False)
                        if bestd == 0:
                            return best
                        if d is None:
                            if len(lost) > n_lost:
                                b = Fraction(lost[-1][j])
                            break
                        if _absf(d) > fa:
                            b = a + direction * st
                            break
                        a, fa = a + direction * st, _absf(d)
                    if b is None:
                        continue
                for _ in range(64):
                    if bestd == 0:
                        return best
                    if is_int:
                        if _absf(b - a) <= 1:
                            break
                        mid = Fraction(math.floor((a + b) / 2))
                    else:
                        mid = Fraction(float((a + b) / 2))
                        if mid == a or mid == b:
                            break
                    if self.evals >= self.limit:
                        break
                    d = probe(mid, False)       # lost or rejected by the domain counts as worse
                    if d is not None and _absf(d) <= fa:
                        a, fa = mid, _absf(d)
                    else:
                        b = mid
        return best

    def climb(self, s, goal, start, pairs=True):
        cur = start
        ob = self.ev(cur)
        d = self.value(ob, s, goal)
        if d is None:
            return
        self.noinf = {}            # fruitless line searches, this climb only
        for _sweep in range(3):
            improved = False
            cs = self.coords(cur)
            self.rng.shuffle(cs)
            for j in cs:
                if self.noinf.get((s, j), 0) >= 2 or self.flat.get((s, j), 0) >= 3:
                    continue
                if self.evals >= self.limit:
                    return
                nxt = self.line(s, goal, cur, j)
                if nxt is None:
                    self.noinf[(s, j)] = self.noinf.get((s, j), 0) + 1
                    continue
                nd = self.value(self.ev(nxt), s, goal)
                if nd is not None and _absf(nd) < _absf(d):
                    cur, d, improved = nxt, nd, True
                    if d == 0:
                        return
            if not improved:
                break
        if d == 0 or self.evals >= self.limit or not pairs:
            return
        # stuck next to the goal: pair moves - shift one coordinate a little, re-solve with another one
        cs = self.coords(cur)
        self.rng.shuffle(cs)
        npairs, stop_at = 0, self.evals + 60
        live = [k for k in cs if not self.flat.get((s, k))]
        for j in cs:
            for st in (1, -1, 2, -2, 3, -3):
                for c in self.with_value(cur, j, Fraction(cur[j]) + st):
                    if self.evals >= min(self.limit, stop_at) or npairs >= 40:
                        return
                    ob = self.ev(c)
                    if ob is None:
                        continue
                    if self.value(ob, s, goal) is None:
                        c = self.repair(self.ev(cur), c, s, {j})
                        if c is None:
                            continue
                    npairs += 1
                    for k in live:
                        if k == j:
                            continue
                        nxt = self.line(s, goal, c, k, allow_repair=False, iters=4, valley=False)
                        if nxt is not None and self.value(self.ev(nxt), s, goal) == 0:
                            return

    # ---- schedule ----------------------------------------------------------------------------
    def goals(self, i):
        c = self.cov[i]
        if not c['numeric']:
            return []
        g = []
        if not c['hit_equal']:
            g.append(0)
        if c['int_valued']:
            if c['pos'] != 1:
                g.append(1)
            if c['neg'] != -1:
                g.append(-1)
        return g

    def neighbours(self, i):
        """both sides next to an equality / closest input: +-1 (ints) or +-1 ulp (floats) on every coordinate"""
        c = self.cov[i]
        for a in (c['in_eq'][:1] + c['in_pos'][:1] + c['in_neg'][:1]):
            for j in self.coords(a):
                v = a[j]
                kind = self.mv.kind(j, v)
                if kind == 'int':
                    vals = [v + 1, v - 1]
                elif kind == 'num' and type(v) is int:
                    vals = [v + 1, v - 1, math.nextafter(float(v), _INF), math.nextafter(float(v), -_INF)]
                else:
                    vals = [math.nextafter(float(v), _INF), math.nextafter(float(v), -_INF)]
                for x in vals:
                    if self.evals >= self.budget:
                        return
                    for cnd in self.with_value(a, j, Fraction(x)):
                        self.ev(cnd)

    def done_sides(self, i):
        c = self.cov[i]
        if not c['numeric']:
            return True
        if c['int_valued']:
            return c['pos'] == 1 and c['neg'] == -1
        tiny = Fraction(c['mag']) / (1 << 50) if c['mag'] else 0
        return c['pos'] is not None and c['neg'] is not None and c['pos'] <= tiny and -c['neg'] <= tiny

    def run(self, seeds):
        for a in seeds:
            a = tuple(a)
            self.seedset.add(self._key(a))
            if self.evals >= max(1, self.budget // 3):
                break
            self.ev(a)
        attempts, fails, bestg = {}, {}, {}
        cap = max(80, self.budget // 25)           # evaluations one (site, goal) may consume in one attempt
        rounds, level = 0, 2
        while self.evals < self.budget and rounds < 60:
            rounds += 1
            progress = False
            for i in sorted(self.cov):
                for goal in self.goals(i):
                    if self.evals >= self.budget:
                        break
                    key = (i, goal)
                    # a goal that may be unreachable (guarded by an earlier return, a floor/ceil gap ...) is given up
                    # after two attempts without getting closer; its budget goes to the others
                    if fails.get(key, 0) >= level or self.spent.get(key, 0) >= 2 * level * cap:
                        continue
                    n = attempts.get(key, 0)
                    attempts[key] = n + 1
                    p = self.pool.get(i, [])
                    if not p:
                        continue
                    if n % 3 == 0:      # the closest known inputs, one after the other
                        q = sorted(p, key=lambda t: (_absf(t[0] - _absf(goal)), t[1]))
                        pick = q[min(len(q) - 1, n // 3)]
                    elif n % 3 == 1:    # a small input: exact coincidences (b*b == 2*a*c ...) are likelier among small numbers
                        q = sorted(p, key=lambda t: (self.size(t[2]), t[1]))
                        pick = q[min(len(q) - 1, n // 3)]
                    else:               # anywhere: different starts reach different basins
                        pick = p[self.rng.randrange(len(p))]
                    before = self.evals
                    self.limit = min(self.budget, before + (cap if not fails.get(key) else cap // 2))
                    try:
                        self.climb(i, goal, pick[2], pairs=(goal == 0 and n < 3))
                    finally:
                        self.limit = self.budget
                    self.spent[key] = self.spent.get(key, 0) + self.evals - before
                    c = self.cov[i]
                    now = 0 if (goal == 0 and c['hit_equal']) else min(
                        [_absf(x - goal) for x in (c['pos'], c['neg']) if x is not None] or [None])
                    if key in bestg and (now is None or (bestg[key] is not None and now >= bestg[key])):
                        fails[key] = fails.get(key, 0) + 1
                    else:
                        fails[key] = 0
                        progress = progress or key in bestg
                    if key not in bestg:
                        progress = True
                    bestg[key] = now
            for i in sorted(self.cov):
                if self.evals >= self.budget:
                    break
                if not self.done_sides(i) and attempts.get((i, 'nb'), 0) < 2:
                    attempts[(i, 'nb')] = attempts.get((i, 'nb'), 0) + 1
                    self.neighbours(i)
            if not progress:
                # budget left over: the goals given up so far get further, cheaper attempts from other starts
                level += 2
                if level > 16:
                    break

    @staticmethod
    def size(args):
        n = 0
        for v in args:
            if type(v) is int:
                n += v.bit_length()
            elif type(v) is float:
                n += 53 if v != int(v) else int(abs(v)).bit_length()
        return n

    def results(self):
        out, seen = [], set()

        def add(a):
            if a is None:
                return
            k = self._key(a)
            if k in seen or k in self.seedset:
                return
            seen.add(k)
            out.append(a)
        for i in sorted(self.cov):
            c = self.cov[i]
            for a in c['in_eq'] + c['in_pos'] + c['in_neg']:
                add(a)
            add(c['in_true'])
            add(c['in_false'])
        report = {}
        for s in self.twin.sites:
            c = self.cov.get(s.idx)
            if c is None:
                report[s.id] = {'hit_true': 0, 'hit_false': 0, 'hit_equal': 0, 'best_abs_diff': None, 'text': s.text,
                                'reached': False, 'numeric': False, 'int_valued': False}
            else:
                report[s.id] = {'hit_true': c['hit_true'], 'hit_false': c['hit_false'], 'hit_equal': c['hit_equal'],
                                'best_abs_diff': c['best_abs_diff'], 'text': s.text, 'reached': True,
                                'numeric': c['numeric'], 'int_valued': c['numeric'] and c['int_valued'],
                                'best_pos': c['pos'], 'best_neg': c['neg']}
        return out, report


def explore(twin, seeds, mutate=None, budget=3000, rng=None, apply=None, keep=3):
    """hill-climb every numeric comparison site of `twin` towards lhs - rhs = 0, +1, -1 (integer-valued sites) or to
    the closest value on either side (other sites), starting from the `seeds` (argument tuples).

    mutate  a `Moves` object (or None): argument kinds, bounds, domain filter, adjust callback
    budget  maximal number of evaluations of the twin (seeds included; at most a third is spent on seeds)
    rng     random.Random - the only source of randomness
    apply   callback(twin, args) when the argument tuple is not the positional argument list
    keep    equality inputs kept per site

    -> (inputs, report): `inputs` are the argument tuples that reached equality, the closest ones on either side and
    the first ones for either outcome of every site (seeds themselves excluded);
    report = {site id: {hit_true, hit_false, hit_equal, best_abs_diff, text, reached, numeric, int_valued, ...}}"""
    ex = _Explorer(twin, mutate, budget, rng or random.Random(0), apply, keep)
    ex.run(list(seeds))
    inputs, report = ex.results()
    report_meta = {'evaluations': ex.evals, 'rejected_by_domain': ex.rejects}
    explore.last = report_meta
    return inputs, report


def compact(report):
    """one short line for the evidence: counts, and the numeric sites that never reached equality"""
    n = len(report)
    reached = [r for r in report.values() if r['reached']]
    num = [r for r in reached if r['numeric']]
    eq = [r for r in num if r['hit_equal']]
    both = [r for r in reached if r['hit_true'] and r['hit_false']]
    noeq = [f"{k.split(':', 1)[1]} `{r['text']}` min|d|={_short(r['best_abs_diff'])}" for k, r in report.items()
            if r['reached'] and r['numeric'] and not r['hit_equal']]
    unre = [f"{k.split(':', 1)[1]} `{r['text']}`" for k, r in report.items() if not r['reached']]
    s = f'{n} sites, {len(reached)} reached, {len(both)} both outcomes, {len(eq)}/{len(num)} numeric sites hit lhs==rhs'
    if noeq:
        s += '; no equality: ' + ', '.join(noeq)
    if unre:
        s += '; not reached: ' + ', '.join(unre)
    return s


def _short(d):
    if d is None:
        return 'n/a'
    if type(d) is int:
        return str(d) if abs(d) < 10 ** 6 else f'{float(d):.3g}'
    return f'{float(d):.3g}'


# ----------------------------------------------------------------------------------------------
# glue for the per-property modules
# ----------------------------------------------------------------------------------------------
def stream(ctx, label, func, seeds, rerun, moves=None, apply=None, budget=2500, to_case=None, max_inputs=400,
           in_domain=None):
    """the 'sitecov' input stream of one anchored function.

    func      the function object of the CURRENT source
    seeds     in-domain argument tuples (a sample of the module's own generated inputs)
    moves     `Moves` (its `domain` is the module's domain predicate on argument tuples)
    rerun     callback(list of cases) that pushes cases through the module's own pipeline (real code, driver/model
              comparison, oracle, ctx.count); it is called once, with ctx.count wrapped so that every case is also
              counted under the path 'sitecov'
    to_case   argument tuple -> the module's case tuple (default: identity)
    Never raises and never reports anything itself: an instrumenter problem becomes a note."""
    t0 = time.time()
    try:
        twin = instrument(func)
    except Exception as ex:        # noqa: never let the instrumenter decide a verdict
        ctx.notes.append(f'sitecov[{label}]: instrumenter unavailable: {ex!r}')
        return []
    seeds = [tuple(s) for s in seeds]
    try:
        for s in seeds[:25]:
            ok = twin.same_as_original(*s) if apply is None else True
            if not ok:
                ctx.notes.append(f'sitecov[{label}]: twin differs from the function on {s}; stream skipped')
                return []
        inputs, report = explore(twin, seeds, moves, min(ctx.n(budget), 20 * budget), ctx.rng, apply)
    except Exception as ex:        # noqa
        ctx.notes.append(f'sitecov[{label}]: exploration failed: {ex!r}')
        return []
    dom = in_domain or (moves.domain if moves is not None else None)
    if dom is not None:
        inputs = [a for a in inputs if dom(a)]
    inputs = inputs[:max_inputs]
    cases = [to_case(a) if to_case else a for a in inputs]
    t1 = time.time()
    n_before = ctx.evaluations
    calls = {'v': 0, 'd': 0}
    if cases:
        orig_count, orig_violate, orig_disagree = ctx.count, ctx.violate, ctx.disagree

        def count(key, path=None, nontrivial=True):
            orig_count(key, path, nontrivial)
            ctx.paths['sitecov'] = ctx.paths.get('sitecov', 0) + 1

        def violate(*a, **k):        # counted here because ctx keeps at most 200 violations
            calls['v'] += 1
            return orig_violate(*a, **k)

        def disagree(*a, **k):
            calls['d'] += 1
            return orig_disagree(*a, **k)
        ctx.count, ctx.violate, ctx.disagree = count, violate, disagree
        try:
            rerun(cases)
        finally:
            del ctx.count, ctx.violate, ctx.disagree          # back to the class methods
    ctx.notes.append(f'sitecov[{label}]: {compact(report)}; {explore.last["evaluations"]} twin evaluations from {len(seeds)} seeds, '
                     f'{len(cases)} inputs through the pipeline ({ctx.evaluations - n_before} counted, '
                     f'{calls["v"]} violations and {calls["d"]} disagreements '
                     f'reported on them by the module\'s oracle / correspondence); '
                     f'{t1 - t0:.1f}s search + {time.time() - t1:.1f}s pipeline')
    return cases
