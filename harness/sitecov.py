"""sitecov - implementation comparison-site coverage, adaptive to the CURRENT source (DESIGN 3c).

    twin = instrument(func)                       an instrumented in-memory copy of `func` (and of the module-level
                                                  functions of the same module that it calls); /repo is not touched
    inputs, report = explore(twin, seeds, ...)    hill-climb every comparison site towards lhs == rhs, +-1, both outcomes
    stream(ctx, ...)                              glue used by the per-property modules: seeds -> explore -> domain filter
                                                  -> the module's own pipeline (path 'sitecov') -> one note in the evidence

`instrument` also takes a class (every function of the class body is instrumented; the twin class lives in a copy of
the module namespace, so recursive construction `Index(...)` builds twins) or a method (`rtree.Index.intersection`).
`explore` also takes argument tuples whose numbers are nested in lists / tuples of any (per seed different) shape:
every numeric leaf is a coordinate of the search; bounds and kinds are then keyed by the leaf's path, e.g. (1, 0, 1) =
args[1][0][1]; `domain`, `adjust` and `apply` receive freshly built nested arguments.  fractions.Fraction leaves stay
Fractions (kind 'frac': exact rational moves).

A *site* is one link of an `ast.Compare` (every link of a chained comparison is its own site) or a truthiness test
(`if`/`elif`/`while`/ternary/comprehension-`if` test - or an operand of `and`/`or`/`not` inside such a test - that is
not a comparison).  Site id: "<function>:<line>:<col>:<op>" with the line number of the real source file.

For numeric operands (int, float, Fraction, mpmath.mpf - converted to exact rationals; bool is not numeric) the probe
records the signed difference lhs - rhs (value - 0 for a truthiness test) and the outcome, otherwise the outcome only.

This is search.  It is used only to *find* inputs; whatever it finds is judged by the module's own correspondence and
oracle.  Nothing here ever decides a verdict, and everything random comes from the `rng` that is passed in.
"""
import ast, inspect, textwrap, types, math, operator, random, time
from fractions import Fraction

__all__ = ['instrument', 'explore', 'Moves', 'Twin', 'exact', 'stream', 'compact']

_OPS = {ast.Eq: ('==', operator.eq), ast.NotEq: ('!=', operator.ne), ast.Lt: ('<', operator.lt),
        ast.LtE: ('<=', operator.le), ast.Gt: ('>', operator.gt), ast.GtE: ('>=', operator.ge),
        ast.Is: ('is', operator.is_), ast.IsNot: ('is not', operator.is_not),
        ast.In: ('in', lambda a, b: a in b), ast.NotIn: ('not in', lambda a, b: a not in b)}
_CMP, _TRUTH = '_sc_cmp_', '_sc_truth_'      # no leading double underscore: class bodies would mangle it
_INF = float('inf')
TRACE_CAP = 4096          # probe records kept per call (loops)


# ----------------------------------------------------------------------------------------------
# exact values
# ----------------------------------------------------------------------------------------------
def exact(x):
    """the exact rational value of a numeric operand (int when integral), or None when `x` is not a finite number"""
    t = type(x)
    if t is int:
        return x
    if t is bool:
        return None
    if t is float:
        if x != x or x == _INF or x == -_INF:
            return None
        n, d = x.as_integer_ratio()
        return n if d == 1 else Fraction(n, d)
    if t is Fraction:
        return x.numerator if x.denominator == 1 else x
    m = getattr(x, '_mpf_', None)
    if type(m) is tuple and len(m) == 4:                  # mpmath.mpf: (sign, mantissa, exponent, bitcount)
        sign, man, exp = m[0], int(m[1]), int(m[2])
        if man == 0:
            return 0 if exp == 0 else None                # zero / inf, nan
        v = -man if sign else man
        return v << exp if exp >= 0 else Fraction(v, 1 << -exp)
    if isinstance(x, bool):
        return None
    if isinstance(x, int):
        return int(x)
    if isinstance(x, float):
        return exact(float(x))
    if isinstance(x, Fraction):
        return exact(Fraction(x.numerator, x.denominator))
    return None


# ----------------------------------------------------------------------------------------------
# instrumentation
# ----------------------------------------------------------------------------------------------
class Site:
    __slots__ = ('idx', 'id', 'func', 'line', 'col', 'op', 'kind', 'text')

    def __init__(self, idx, func, line, col, op, kind, text):
        self.idx, self.func, self.line, self.col, self.op, self.kind, self.text = idx, func, line, col, op, kind, text
        self.id = f'{func}:{line}:{col}:{op}'

    def __repr__(self):
        return f'<site {self.id} {self.text!r}>'


class Twin:
    """callable instrumented copy of a function.  `twin(*args)` behaves like the original; afterwards `twin.trace`
    holds the probe records of that call: (site index, lhs - rhs | None, outcome | None, both operands integral,
    max(|lhs|, |rhs|))."""

    def __init__(self, func):
        self.original = func
        self.__wrapped__ = func
        self.__name__ = getattr(func, '__name__', 'twin')
        self.sites = []           # index -> Site
        self.functions = []       # names of the instrumented functions (the anchored one first)
        self.trace = []
        self._ops = []
        self.fn = None
        self.cls = None           # the twin class when a class or a method was instrumented
        self.env = None

    # -- probes (must never change behaviour: the comparison itself runs first and may raise like the original) --
    def _cmp(self, i, lhs, rhs):
        res = self._ops[i](lhs, rhs)
        tr = self.trace
        if len(tr) < TRACE_CAP:
            try:
                a, b = exact(lhs), exact(rhs)
                out = res if type(res) is bool else None
                if a is None or b is None:
                    tr.append((i, None, out, False, 0))
                else:
                    d = a - b
                    if type(d) is Fraction and d.denominator == 1:
                        d = d.numerator
                    tr.append((i, d, out, type(a) is int and type(b) is int, max(abs(a), abs(b))))
            except Exception:      # noqa: recording is best effort
                pass
        return res

    def _truth(self, i, v):
        res = bool(v)              # exactly one __bool__/__len__ call, as the `if` itself would make
        tr = self.trace
        if len(tr) < TRACE_CAP:
            try:
                a = exact(v)
                if a is None:
                    tr.append((i, None, res, False, 0))
                else:
                    tr.append((i, a, res, type(a) is int, abs(a)))
            except Exception:      # noqa
                pass
        return res

    def __call__(self, *args, **kw):
        self.trace = []
        return self.fn(*args, **kw)

    def run(self, *args, **kw):
        """-> (('ok', value) | ('exc', exception), trace)"""
        self.trace = []
        try:
            r = ('ok', self.fn(*args, **kw))
        except Exception as ex:    # noqa
            r = ('exc', ex)
        return r, self.trace

    def same_as_original(self, *args, **kw):
        """run both; True when results (or exception types and messages) agree"""
        import copy

        def one(f):
            try:
                a, k = copy.deepcopy((args, kw))          # the function may reduce its arguments in place
                return ('ok', f(*a, **k))
            except Exception as ex:   # noqa
                return ('exc', type(ex), str(ex))
        a, b = one(self.original), one(self)
        if a[0] != b[0]:
            return False
        if a[0] == 'exc':
            return a[1:] == b[1:]
        try:
            return repr(a[1]) == repr(b[1]) and type(a[1]) is type(b[1])
        except Exception:             # noqa
            return True

    def site_ids(self):
        return [s.id for s in self.sites]


class _Instr(ast.NodeTransformer):
    def __init__(self, twin, fname, walrus=True):
        self.twin, self.fname, self.walrus = twin, fname, walrus
        self.ntmp = 0

    def _new_site(self, node, op, kind, fn):
        tw = self.twin
        s = Site(len(tw.sites), self.fname, getattr(node, 'lineno', 0), getattr(node, 'col_offset', 0), op, kind,
                 ast.unparse(node))
        tw.sites.append(s)
        tw._ops.append(fn)
        return s.idx

    @staticmethod
    def _done(node):
        return isinstance(node, ast.Call) and isinstance(node.func, ast.Name) and node.func.id in (_CMP, _TRUTH)

    def visit_Compare(self, node):
        if any(type(o) not in _OPS for o in node.ops):
            return self.generic_visit(node)
        if len(node.ops) > 1 and not self.walrus:
            return self.generic_visit(node)
        operands = [node.left] + list(node.comparators)
        # site records (text of the ORIGINAL link) before the operands are rewritten
        idxs = []
        for k, o in enumerate(node.ops):
            link = ast.Compare(left=operands[k], ops=[o], comparators=[operands[k + 1]])
            ast.copy_location(link, operands[k])
            name, fn = _OPS[type(o)]
            idxs.append(self._new_site(link, name, 'cmp', fn))
        operands = [self.visit(x) for x in operands]
        links, prev = [], operands[0]
        for k, i in enumerate(idxs):
            rhs = operands[k + 1]
            if k + 1 < len(idxs):      # this operand is needed again by the next link: evaluate it once
                self.ntmp += 1
                tmp = f'_sc_t{self.ntmp}_'
                rhs_expr = ast.NamedExpr(target=ast.Name(id=tmp, ctx=ast.Store()), value=rhs)
                nxt = ast.Name(id=tmp, ctx=ast.Load())
            else:
                rhs_expr, nxt = rhs, None
            call = ast.Call(func=ast.Name(id=_CMP, ctx=ast.Load()), args=[ast.Constant(i), prev, rhs_expr], keywords=[])
            links.append(ast.copy_location(call, node))
            prev = nxt
        new = links[0] if len(links) == 1 else ast.BoolOp(op=ast.And(), values=links)
        return ast.copy_location(new, node)

    def _test(self, e):
        """rewrite an expression that is used for its truth value only"""
        if self._done(e) or isinstance(e, ast.Constant):
            return e
        if isinstance(e, ast.BoolOp):
            e.values = [self._test(v) for v in e.values]
            return e
        if isinstance(e, ast.UnaryOp) and isinstance(e.op, ast.Not):
            e.operand = self._test(e.operand)
            return e
        if isinstance(e, ast.Compare):
            new = self.visit(e)
            if isinstance(new, ast.Compare):          # an operator we do not wrap: treat as truthiness
                i = self._new_site(e, 'truth', 'truth', None)
                new = ast.copy_location(ast.Call(func=ast.Name(id=_TRUTH, ctx=ast.Load()), args=[ast.Constant(i), new],
                                                 keywords=[]), e)
            return new
        i = self._new_site(e, 'truth', 'truth', None)
        inner = self.visit(e)
        return ast.copy_location(ast.Call(func=ast.Name(id=_TRUTH, ctx=ast.Load()), args=[ast.Constant(i), inner],
                                          keywords=[]), e)

    def visit_If(self, node):
        node.test = self._test(node.test)
        return self.generic_visit(node)

    visit_While = visit_If
    visit_IfExp = visit_If

    def visit_comprehension(self, node):
        node.ifs = [self._test(x) for x in node.ifs]
        return self.generic_visit(node)


def _called_functions(tree, module, seen):
    """module-level Python functions and classes of `module` referenced by name inside `tree` (alias -> object)"""
    out = {}
    for n in ast.walk(tree):
        if isinstance(n, ast.Name) and isinstance(n.ctx, ast.Load):
            obj = module.__dict__.get(n.id)
            if isinstance(obj, types.FunctionType) and obj.__globals__ is module.__dict__ and obj not in seen \
                    and not obj.__closure__:
                out[n.id] = obj
            elif inspect.isclass(obj) and getattr(obj, '__module__', None) == module.__name__ and obj not in seen:
                out[n.id] = obj
    return out


def _parse(obj):
    lines, lnum = inspect.getsourcelines(obj)
    tree = ast.parse(textwrap.dedent(''.join(lines)))
    ast.increment_lineno(tree, lnum - 1)
    want = ast.ClassDef if inspect.isclass(obj) else (ast.FunctionDef, ast.AsyncFunctionDef)
    defs = [n for n in tree.body if isinstance(n, want)]
    if len(defs) != 1:
        raise ValueError(f'sitecov: cannot isolate the definition of {obj!r}')
    return tree, defs[0]


def _owner_class(func, module):
    """the class of `module` in whose body the plain function `func` is defined (a method), or None"""
    parts = func.__qualname__.split('.')
    if len(parts) < 2 or '<locals>' in parts:
        return None
    obj = module
    for name in parts[:-1]:
        obj = getattr(obj, name, None)
        if obj is None:
            return None
    return obj if inspect.isclass(obj) and obj.__dict__.get(parts[-1]) is func else None


def instrument(func, follow=True, walrus=True):
    """instrumented twin of `func`, compiled in memory from the current source.

    func    a module-level function, a class (all functions of its body are instrumented; `twin.cls` is the twin class
            and calling the twin constructs an instance) or a method given as `Class.method` (`twin(self, ...)` calls
            the instrumented function; `twin.cls` is the twin class, so `twin.cls(...)` builds an object whose methods
            are all instrumented)
    follow  module-level functions and classes of the same module that the code references by name are instrumented
            too (so recursion through the class name and helper calls stay inside the twin)
    Raises on objects without retrievable source and on closures."""
    target_attr = None
    if not inspect.isclass(func):
        func = inspect.unwrap(func)
        if not isinstance(func, types.FunctionType):
            raise TypeError(f'sitecov: not a plain Python function or class: {func!r}')
        if func.__closure__:
            raise TypeError('sitecov: closures are not supported')
    module = inspect.getmodule(func)
    if module is None or (not inspect.isclass(func) and func.__globals__ is not module.__dict__):
        raise TypeError('sitecov: cannot find the defining module')
    root = func
    if not inspect.isclass(func):
        owner = _owner_class(func, module)
        if owner is not None:
            target_attr, root = func.__name__, owner
    twin = Twin(func)
    todo, seen, defs, aliases = [(root.__name__, root)], [root], [], {}
    while todo:
        alias, f = todo.pop(0)
        tree, node = _parse(f)
        if follow:
            for a_, g in _called_functions(tree, module, seen).items():
                seen.append(g)
                todo.append((a_, g))
        if alias != f.__name__:
            aliases[alias] = f.__name__
        if isinstance(node, ast.ClassDef):
            for k, sub in enumerate(node.body):
                if isinstance(sub, (ast.FunctionDef, ast.AsyncFunctionDef)):
                    qn = f'{f.__name__}.{sub.name}'
                    twin.functions.append(qn)
                    node.body[k] = _Instr(twin, qn, walrus).visit(sub)
        else:
            twin.functions.append(f.__name__)
            node = _Instr(twin, f.__name__, walrus).visit(node)
        defs.append(node)
    defs.sort(key=lambda n: n.lineno)          # module order: base classes before the classes that name them
    mod = ast.Module(body=defs, type_ignores=[])
    ast.fix_missing_locations(mod)
    env = dict(vars(module))
    env[_CMP], env[_TRUTH] = twin._cmp, twin._truth
    try:
        code = compile(mod, inspect.getsourcefile(root) or f'<sitecov {root.__name__}>', 'exec')
    except SyntaxError:
        if walrus:                 # a chained comparison in a place where := is not allowed: leave chains alone
            return instrument(func, follow, walrus=False)
        raise
    exec(code, env)
    for a_, n in aliases.items():
        env[a_] = env[n]
    twin.env = env
    if inspect.isclass(root):
        twin.cls = env[root.__name__]
        twin.fn = twin.cls if target_attr is None else twin.cls.__dict__[target_attr]
    else:
        twin.cls = None
        twin.fn = env[root.__name__]
    return twin


# ----------------------------------------------------------------------------------------------
# exploration
# ----------------------------------------------------------------------------------------------
class Moves:
    """restrictions on the moves of `explore`.

    kinds   per argument index: 'int' (stays an int), 'float' (stays a float), 'num' (int when integral, else float),
            'frac' (stays a fractions.Fraction: exact rational moves), 'fixed' (never changed).  Default: from the type
            of the seed's value; non-numeric values are fixed.
    lo, hi  per argument index: inclusive bounds (candidates are clamped)
            With nested arguments (lists / tuples of numbers) the keys of kinds / lo / hi are leaf paths, e.g. (1,) for
            args[1] and (0, 2, 1) for args[0][2][1]; `kinds` may also be a callable(path, value) -> kind | None.
    domain  callback(args tuple) -> bool; candidates outside are neither evaluated nor returned
    adjust  callback(list of args, changed) -> args | None applied to every candidate; `changed` is the index (leaf path
            with nested arguments) of the coordinate that was just moved.  It may repair the candidate (e.g. drag x_max
            along when x_min was moved past it, so that min <= max survives the move) or reject it (None)
    groups  callback(index or leaf path, value) -> group id | None: all coordinates with the same id can also be shifted
            TOGETHER by one amount (a translation of all x coordinates keeps every relation between them, so an
            input can be carried to `x == 37` without tearing the figure apart)
    """

    def __init__(self, kinds=None, lo=None, hi=None, domain=None, adjust=None, groups=None):
        self.kinds = kinds if callable(kinds) else dict(kinds or {})
        self.lo, self.hi, self.domain, self.adjust, self.groups = dict(lo or {}), dict(hi or {}), domain, adjust, groups

    def kind(self, j, v):
        """j: argument index, or leaf path with nested arguments"""
        k = self.kinds(j, v) if callable(self.kinds) else self.kinds.get(j)
        if k:
            return k
        if type(v) is int:
            return 'int'
        if type(v) is float:
            return 'float'
        if type(v) is Fraction:
            return 'frac'
        return 'fixed'


class Shape:
    """the nesting of one argument tuple: lists ('L') and tuples ('T') down to the leaves (None)"""
    __slots__ = ('tree', 'paths', '_h')

    def __init__(self, tree):
        self.tree = tree
        self.paths = []
        self._walk(tree, ())
        self._h = hash(tree)

    def _walk(self, t, path):
        if t is None:
            self.paths.append(path)
        else:
            for k, sub in enumerate(t[1]):
                self._walk(sub, path + (k,))

    def __eq__(self, other):
        return isinstance(other, Shape) and self.tree == other.tree

    def __hash__(self):
        return self._h

    def __repr__(self):
        return f'<shape {len(self.paths)} leaves>'


def flatten(args):
    """(Shape, leaf, leaf, ...) of a nested argument tuple"""
    leaves = []

    def walk(o):
        if isinstance(o, (list, tuple)):
            return ('L' if isinstance(o, list) else 'T', tuple(walk(x) for x in o))
        leaves.append(o)
        return None
    tree = walk(tuple(args))
    return (Shape(tree),) + tuple(leaves)


def build(flat):
    """fresh nested argument tuple from (Shape, leaves...)"""
    it = iter(flat[1:])

    def mk(t):
        if t is None:
            return next(it)
        seq = [mk(x) for x in t[1]]
        return seq if t[0] == 'L' else tuple(seq)
    return mk(flat[0].tree)


class _Obs:
    __slots__ = ('args', 'hits', 'path', 'exc')


def _absf(d):
    return d if d >= 0 else -d


class _Explorer:
    INT_STEPS = [1, 2, 16, 256, 4096, 65536, 1 << 20, 1 << 24, 1 << 28, 1 << 32, 1 << 40]
    MAXMAG = 1 << 160        # candidates of larger magnitude are not proposed
    OCC = 3                  # executions of one site per call that are targets of their own (further ones are lumped)

    def __init__(self, twin, moves, budget, rng, apply, keep, nested=False):
        self.twin, self.mv, self.budget, self.rng = twin, moves or Moves(), budget, rng
        self.nested = nested
        call = apply or (lambda tw, a: tw(*a))
        self.apply = (lambda tw, flat: call(tw, build(flat))) if nested else call
        self.keep = keep
        self.evals = 0
        self.rejects = 0
        self.cache = {}
        self.cov = {}            # site idx -> dict
        self.pool = {}           # site idx -> list of (absdiff, order, args): inputs that reached the site
        self.noinf = {}          # (site, coordinate) -> number of fruitless line searches
        self.spent = {}
        self.flat = {}           # (site, coordinate) -> line searches in which no step changed the distance
        self.gcache = {}         # shape -> {group pseudo-coordinate: member indices}
        self.limit = budget
        self.vused = {}          # (site, goal, coordinate) -> valley searches spent
        self.order = 0
        self.seedset = set()

    # ---- evaluation --------------------------------------------------------------------------
    def _key(self, args):
        return tuple((type(a).__name__, a) for a in args)

    def pkey(self, args, j):
        """the key of coordinate j in Moves.kinds / lo / hi: the index, or the leaf path with nested arguments"""
        if type(j) is tuple:
            return j
        return args[0].paths[j - 1] if self.nested and j > 0 else j

    def kind(self, args, j):
        if type(j) is tuple:
            return j[2]
        if self.nested and j == 0:
            return 'fixed'
        return self.mv.kind(self.pkey(args, j), args[j])

    def is_int(self, args, j):
        k = self.kind(args, j)
        return k == 'int' or (k == 'num' and type(self.getv(args, j)) is int)

    def members(self, args, j):
        """the coordinates moved by the (pseudo-)coordinate j: itself, or every member of the group ('G', id, kind)"""
        if type(j) is not tuple:
            return [j]
        key = args[0] if self.nested else None
        gs = self.gcache.get(key)
        if gs is None:
            gs = {}
            if self.mv.groups is not None:
                for m in range(1 if self.nested else 0, len(args)):
                    k = self.mv.kind(self.pkey(args, m), args[m])
                    if k == 'fixed':
                        continue
                    gid = self.mv.groups(self.pkey(args, m), args[m])
                    if gid is not None:
                        gs.setdefault(('G', gid, k), []).append(m)
            gs = {g: ms for g, ms in gs.items() if len(ms) >= 2}
            self.gcache[key] = gs
        return gs.get(j, [])

    def getv(self, args, j):
        return args[self.members(args, j)[0]] if type(j) is tuple else args[j]

    def ev(self, args):
        """observe one input (cached).  None when rejected (domain, budget)"""
        args = tuple(args)
        k = self._key(args)
        if k in self.cache:
            return self.cache[k]
        if self.mv.domain is not None:
            ok = False
            if self.rejects <= 4 * self.budget + 1000:
                try:
                    ok = bool(self.mv.domain(build(args) if self.nested else args))
                except Exception:          # noqa: a domain predicate that cannot judge the input rejects it
                    ok = False
            if not ok:
                self.rejects += 1
                self.cache[k] = None
                return None
        if self.evals >= self.limit:
            return None
        self.evals += 1
        tw = self.twin
        tw.trace = []
        exc = None
        try:
            self.apply(tw, args)
        except Exception as ex:            # noqa: the pipeline will judge it
            exc = ex
        ob = _Obs()
        ob.args, ob.exc = args, exc
        hits, path, occ = {}, [], {}
        for (si, d, out, intv, mag) in tw.trace:
            # dynamic site = (static site, k-th execution in this call) for the first OCC executions, the rest lumped:
            # in a loop (or a helper called for several points) each early execution is a target of its own - otherwise
            # e.g. "the clipped point lies on the edge" in pass 2 would hide "the INPUT point lies on the edge"
            k = occ.get(si, 0)
            occ[si] = k + 1
            i = (si, k if k < self.OCC else self.OCC)
            if len(path) < 256:
                path.append((i, out))
            c = self.cov.get(i)
            if c is None:
                c = self.cov[i] = {'hit_true': 0, 'hit_false': 0, 'hit_equal': 0, 'best_abs_diff': None, 'numeric': False,
                                   'int_valued': True, 'pos': None, 'neg': None, 'in_eq': [], 'in_pos': [], 'in_neg': [],
                                   'in_true': None, 'in_false': None, 'mag': 0, 'hits': 0}
                self.pool[i] = []
            c['hits'] += 1
            if out is True:
                c['hit_true'] += 1
                if c['in_true'] is None:
                    c['in_true'] = args
            elif out is False:
                c['hit_false'] += 1
                if c['in_false'] is None:
                    c['in_false'] = args
            if d is not None:
                c['numeric'] = True
                if not intv:
                    c['int_valued'] = False
                ad = _absf(d)
                if c['best_abs_diff'] is None or ad < c['best_abs_diff']:
                    c['best_abs_diff'] = ad
                if d == 0:
                    c['hit_equal'] += 1
                    if len(c['in_eq']) < self.keep and args not in c['in_eq']:
                        c['in_eq'].append(args)
                elif d > 0:
                    if c['pos'] is None or d < c['pos']:
                        c['pos'], c['in_pos'], c['mag'] = d, [args], mag
                    elif d == c['pos'] and len(c['in_pos']) < self.keep and args not in c['in_pos']:
                        c['in_pos'].append(args)
                else:
                    if c['neg'] is None or d > c['neg']:
                        c['neg'], c['in_neg'], c['mag'] = d, [args], mag
                    elif d == c['neg'] and len(c['in_neg']) < self.keep and args not in c['in_neg']:
                        c['in_neg'].append(args)
                h = hits.get(i)
                if h is None or h[0] is None or ad < _absf(h[0]):
                    hits[i] = (d, out, intv, mag)
            elif i not in hits:
                hits[i] = (None, out, False, 0)
        ob.hits, ob.path = hits, tuple(path)
        for i, h in hits.items():
            if h[0] is not None:
                self.order += 1
                p = self.pool[i]
                p.append((_absf(h[0]), self.order, args))
                if len(p) > 400:
                    p.sort()
                    rest = p[100:]
                    del p[100:]
                    p.extend(self.rng.sample(rest, 100))
        self.cache[k] = ob
        return ob

    # ---- candidate construction --------------------------------------------------------------
    def coords(self, args):
        cs = [j for j in range(len(args)) if self.kind(args, j) != 'fixed']
        if self.mv.groups is not None:
            self.members(args, ('G', None, None))         # fills the cache for this shape
            cs += sorted(self.gcache[args[0] if self.nested else None], key=repr)
        return cs

    def with_value(self, args, j, val):
        """args with coordinate j set to the rational `val` (respecting kind and bounds) - list of candidate tuples"""
        kind = self.kind(args, j)
        pk = self.pkey(args, j)
        lo, hi = self.mv.lo.get(pk), self.mv.hi.get(pk)
        if _absf(val) > self.MAXMAG:       # a secant through two nearly equal distances: do not follow it to astronomical values
            return []
        vals = []
        if kind == 'int' or (kind == 'num' and Fraction(val).denominator == 1):
            f = math.floor(val)
            vals = [f] if f == val else [f, f + 1]
        elif kind == 'frac':
            v = Fraction(val)
            if v.denominator.bit_length() > 80:       # secant / bisection on a non-linear relation: keep rationals readable
                v = v.limit_denominator(1 << 64)      # (and bounded: denominators would square with every step)
            vals = [v]
        else:
            try:
                x = float(val)
            except OverflowError:
                return []
            if x != x or x in (_INF, -_INF):
                return []
            vals = [x]
            if Fraction(x) != val:
                vals += [math.nextafter(x, _INF) if Fraction(x) < val else math.nextafter(x, -_INF)]
        out = []
        for v in vals:
            if lo is not None and v < lo:
                v = type(v)(lo) if kind == 'frac' else lo
            if hi is not None and v > hi:
                v = type(v)(hi) if kind == 'frac' else hi
            cur_v = self.getv(args, j)
            if v == cur_v and type(v) is type(cur_v):
                continue
            c = list(args)
            if type(j) is tuple:
                for m in self.members(args, j):            # the whole group moves by the same amount
                    c[m] = args[m] + (v - cur_v)
            else:
                c[j] = v
            if self.mv.adjust is not None:
                c = self.mv.adjust(list(build(c)) if self.nested else c, pk)
                if c is None:
                    continue
                if self.nested:
                    c = flatten(c)
            c = tuple(c)
            if c not in out:
                out.append(c)
        return out

    def steps(self, args, j):
        """exploratory step sizes for coordinate j (rationals), small first"""
        v = self.getv(args, j)
        kind = self.kind(args, j)
        if kind == 'int' or (kind == 'num' and type(v) is int):
            out = []
            for s in self.INT_STEPS:
                out += [s, -s]
                if s > 4 * abs(v) + 4096:
                    break
            return out
        if kind == 'frac':
            out = []
            for s in (Fraction(1), Fraction(1, 2), Fraction(1, 16), Fraction(1, 1024), Fraction(1, 1 << 20), Fraction(2),
                      Fraction(16), Fraction(256), Fraction(4096), Fraction(1 << 20)):
                out += [s, -s]
            return out
        x = float(v)
        u = Fraction(math.ulp(x)) if x != 0 else Fraction(1, 1 << 60)
        base = [u, 2 * u, 1024 * u, Fraction(1 << 20) * u, Fraction(1 << 36) * u, Fraction(1, 10 ** 9), Fraction(1, 1000),
                Fraction(abs(Fraction(x))) / 2, Fraction(1), Fraction(1000)]
        out = []
        for s in base:
            if s > 0:
                out += [s, -s]
        return out

    # ---- search ------------------------------------------------------------------------------
    def value(self, ob, s, goal):
        """signed distance of site s from `goal` in observation `ob`; None when the site was not reached numerically"""
        if ob is None:
            return None
        h = ob.hits.get(s)
        if h is None or h[0] is None:
            return None
        return h[0] - goal

    def first_divergence(self, ref, ob):
        """first site at which `ob` takes another outcome than the reference run -> (site, reference diff) | None"""
        for (a, b) in zip(ref.path, ob.path):
            if a[0] != b[0]:
                return None
            if a[1] != b[1]:
                h = ref.hits.get(a[0])
                return a[0], (h[0] if h else None)
        return None

    def repair(self, ref, cand, s, used):
        """`cand` no longer reaches site s (a guard on the way flipped): restore the guard(s) with other coordinates"""
        used = set(used)
        for _ in range(3):
            ob = self.ev(cand)
            if ob is None:
                return None
            if s in ob.hits and ob.hits[s][0] is not None:
                return cand
            dv = self.first_divergence(ref, ob)
            if dv is None or dv[1] is None:
                return None
            g, want = dv
            if self.value(ob, g, want) is None:
                return None
            cs = [j for j in self.coords(cand) if j not in used and not self.flat.get((g, j))]
            self.rng.shuffle(cs)
            fixed = None
            for k in cs[:3]:
                x = self.line(g, want, cand, k, allow_repair=False, iters=4, valley=False)
                if x is not None:
                    ob2 = self.ev(x)
                    if ob2 is not None and self.value(ob2, g, want) == 0:
                        fixed, used = x, used | {k}
                        break
            if fixed is None:
                return None
            cand = fixed
        ob = self.ev(cand)
        return cand if ob is not None and s in ob.hits and ob.hits[s][0] is not None else None

    def line(self, s, goal, args, j, allow_repair=True, iters=8, valley=True):
        """line search along coordinate j for |diff_s - goal| -> better args or None"""
        ob0 = self.ev(args)
        d0 = self.value(ob0, s, goal)
        if d0 is None or d0 == 0:
            return None
        best, bestd = None, _absf(d0)
        x0 = Fraction(self.getv(args, j))
        pts = {x0: d0}             # coordinate value -> signed distance (site reached)
        lost = []

        def probe(val, rep):
            nonlocal best, bestd
            got = None
            for c in self.with_value(args, j, val):
                ob = self.ev(c)
                d = self.value(ob, s, goal)
                if d is None and ob is not None and rep and allow_repair:
                    c2 = self.repair(ob0, c, s, {j})
                    if c2 is not None:
                        ob = self.ev(c2)
                        d = self.value(ob, s, goal)
                        if d is not None and _absf(d) < bestd:     # a repaired point changed other coordinates too:
                            best, bestd = c2, _absf(d)             # usable as a result, not as a point on this line
                        continue
                if d is None:
                    if ob is not None:
                        lost.append(c)
                    continue
                pts[Fraction(self.getv(c, j))] = d
                got = d
                if _absf(d) < bestd:
                    best, bestd = c, _absf(d)
            return got

        # 1. exploratory steps until the distance changes
        slope_pt = None
        tried = 0
        for st in self.steps(args, j):
            d1 = probe(x0 + st, False)
            tried += 1
            if d1 is not None and d1 != d0:
                slope_pt = x0 + st
                break
            if bestd == 0 or tried >= 10:
                break
        if bestd == 0:
            return best
        if slope_pt is None:
            # every small move loses the site (an equality guard on the way) or changes nothing: aim straight at the
            # goal assuming slope +-1 and let `repair` restore the guards
            if allow_repair and lost:
                for val in (x0 - d0, x0 + d0):
                    probe(val, True)
                    if bestd == 0:
                        break
            if not lost:
                self.flat[(s, j)] = self.flat.get((s, j), 0) + 1      # this coordinate does not move the site at all
            return best
        # 2. secant / bisection
        tried_sec = set()
        for _ in range(iters):
            if bestd == 0:
                break
            xs = sorted(pts)
            # a sign change between two neighbouring evaluated points: bisect there
            br = None
            for a, b in zip(xs, xs[1:]):
                if (pts[a] > 0) != (pts[b] > 0) and pts[a] != 0 and pts[b] != 0:
                    if br is None or (b - a) < (br[1] - br[0]):
                        br = (a, b)
            if br is not None:
                a, b = br
                kind = self.kind(args, j)
                if kind == 'int' or (kind == 'num' and type(self.getv(args, j)) is int):
                    if b - a <= 1:
                        break
                elif kind == 'frac':
                    if (b - a) * (1 << 60) <= max(1, abs(a), abs(b)):
                        break
                else:
                    if float(b) == math.nextafter(float(a), _INF) or float(a) == float(b):
                        break
                # secant inside the bracket, falling back to the midpoint
                t = a - pts[a] * (b - a) / (pts[b] - pts[a])
                mid = (a + b) / 2
                cand = t if (a < t < b and (kind == 'frac' and t not in tried_sec or self.rng.random() < 0.5)) else mid
                tried_sec.add(t)
                n_before = len(pts)
                probe(cand, True)
                if len(pts) == n_before:
                    probe(mid, False)
                    if len(pts) == n_before:
                        break
                continue
            # no bracket: secant through the two points closest to the goal
            two = sorted(pts, key=lambda x: (_absf(pts[x]), x))[:2]
            if len(two) < 2:
                break
            a, b = two
            if pts[a] == pts[b]:
                break
            t = a - pts[a] * (b - a) / (pts[b] - pts[a])
            n_before = len(pts)
            probe(t, True)
            if len(pts) == n_before:      # nothing new (rejected, lost, or already known): try a damped step
                probe(a + (t - a) / 2, False)
                if len(pts) == n_before:
                    break
        # 3. valley search.  Integer-valued sites built from floor/ceil have distances like ... -3 -2 -1 [0] <jump>:
        #    the goal sits in a narrow window next to a discontinuity (or next to a guard that flips), where neither a
        #    secant nor a sign-change bisection gets.  Bisect between the best point and a worse / lost point next
        #    to it, always keeping the side that is still at least as good.
        if bestd != 0 and valley and type(d0) is int and min(_absf(v) for v in pts.values()) <= 8 \
                and self.vused.get((s, goal, j), 0) < 8:
            self.vused[(s, goal, j)] = self.vused.get((s, goal, j), 0) + 1
            is_int = self.is_int(args, j)
            is_frac = self.kind(args, j) == 'frac'
            a0 = min(pts, key=lambda x: (_absf(pts[x]), _absf(x - x0)))
            lostx = sorted({Fraction(self.getv(c, j)) for c in lost})
            for direction in (1, -1):
                a, fa = a0, _absf(pts[a0])
                # the nearest known point beyond `a` that is worse or lost
                beyond = [x for x in list(pts) + lostx if (x - a) * direction > 0 and (x not in pts or _absf(pts[x]) > fa)]
                inside = [x for x in pts if (x - a) * direction > 0 and _absf(pts[x]) <= fa]
                b = min(beyond, key=lambda x: _absf(x - a)) if beyond else None
                if inside:                      # walk to the farthest point that is still as good
                    far = max(inside, key=lambda x: _absf(x - a))
                    if b is None or _absf(far - a) < _absf(b - a):
                        a, fa = far, _absf(pts[far])
                    else:
                        keep_in = [x for x in inside if _absf(x - a0) < _absf(b - a0)]
                        if keep_in:
                            a = max(keep_in, key=lambda x: _absf(x - a0))
                            fa = _absf(pts[a])
                if b is None:                   # find a worse point by doubling
                    st = 1 if is_int else Fraction(1, 1 << 20) if is_frac else \
                        max(Fraction(math.ulp(float(a))), _absf(a) / (1 << 40))
                    for _ in range(40):
                        st *= 4
                        n_lost = len(lost)
                        d = probe(a + direction * st, False)
                        if bestd == 0:
                            return best
                        if d is None:
                            if len(lost) > n_lost:
                                b = Fraction(self.getv(lost[-1], j))
                            break
                        if _absf(d) > fa:
                            b = a + direction * st
                            break
                        a, fa = a + direction * st, _absf(d)
                    if b is None:
                        continue
                for _ in range(64):
                    if bestd == 0:
                        return best
                    if is_int:
                        if _absf(b - a) <= 1:
                            break
                        mid = Fraction(math.floor((a + b) / 2))
                    elif is_frac:
                        if _absf(b - a) * (1 << 60) <= max(1, _absf(a), _absf(b)):
                            break
                        mid = (a + b) / 2
                    else:
                        mid = Fraction(float((a + b) / 2))
                        if mid == a or mid == b:
                            break
                    if self.evals >= self.limit:
                        break
                    d = probe(mid, False)       # lost or rejected by the domain counts as worse
                    if d is not None and _absf(d) <= fa:
                        a, fa = mid, _absf(d)
                    else:
                        b = mid
        return best

    def climb(self, s, goal, start, pairs=True):
        cur = start
        ob = self.ev(cur)
        d = self.value(ob, s, goal)
        if d is None:
            return
        self.noinf = {}            # fruitless line searches, this climb only
        for _sweep in range(3):
            improved = False
            cs = self.coords(cur)
            self.rng.shuffle(cs)
            if len(cs) > 3:
                # sensitivity scan (one evaluation per coordinate): the coordinates that move this site come first, so
                # that a small per-attempt budget is not used up on the plateaus of the coordinates that do not
                live = []
                for j in cs:
                    if self.evals >= self.limit:
                        break
                    st = self.steps(cur, j)[0]
                    for c in self.with_value(cur, j, Fraction(self.getv(cur, j)) + st)[:1]:
                        d1 = self.value(self.ev(c), s, goal)
                        if d1 is None or d1 != d:
                            live.append(j)
                cs = live + [j for j in cs if j not in live]
            for j in cs:
                if self.noinf.get((s, j), 0) >= 2 or self.flat.get((s, j), 0) >= 3:
                    continue
                if self.evals >= self.limit:
                    return
                nxt = self.line(s, goal, cur, j)
                if nxt is None:
                    self.noinf[(s, j)] = self.noinf.get((s, j), 0) + 1
                    continue
                nd = self.value(self.ev(nxt), s, goal)
                if nd is not None and _absf(nd) < _absf(d):
                    prev, cur, d, improved = cur, nxt, nd, True
                    if d == 0:
                        # reached by moving one coordinate; reach it also by translating each group as a whole
                        # (the relations between the members survive): a second, differently shaped witness
                        for g in cs:
                            if type(g) is tuple and g != j and self.evals < self.limit:
                                self.line(s, goal, prev, g, allow_repair=False, iters=3, valley=False)
                        return
            if not improved:
                break
        if d == 0 or self.evals >= self.limit or not pairs:
            return
        # stuck next to the goal: pair moves - shift one coordinate a little, re-solve with another one
        cs = self.coords(cur)
        self.rng.shuffle(cs)
        npairs, stop_at = 0, self.evals + 60
        live = [k for k in cs if not self.flat.get((s, k))]
        for j in cs:
            for st in (1, -1, 2, -2, 3, -3):
                for c in self.with_value(cur, j, Fraction(self.getv(cur, j)) + st):
                    if self.evals >= min(self.limit, stop_at) or npairs >= 40:
                        return
                    ob = self.ev(c)
                    if ob is None:
                        continue
                    if self.value(ob, s, goal) is None:
                        c = self.repair(self.ev(cur), c, s, {j})
                        if c is None:
                            continue
                    npairs += 1
                    for k in live:
                        if k == j:
                            continue
                        nxt = self.line(s, goal, c, k, allow_repair=False, iters=4, valley=False)
                        if nxt is not None and self.value(self.ev(nxt), s, goal) == 0:
                            return

    # ---- schedule ----------------------------------------------------------------------------
    def goals(self, i):
        c = self.cov[i]
        if not c['numeric']:
            return []
        g = []
        if len(c['in_eq']) < min(self.keep, 4):       # equality from several different starts: differently shaped witnesses
            g.append(0)
        if c['int_valued'] and self.twin.sites[i[0]].kind != 'truth':
            if c['pos'] != 1:
                g.append(1)
            if c['neg'] != -1:
                g.append(-1)
        return g

    def neighbours(self, i):
        """both sides next to an equality / closest input: +-1 (ints) or +-1 ulp (floats) on every coordinate"""
        c = self.cov[i]
        for a in (c['in_eq'][:1] + c['in_pos'][:1] + c['in_neg'][:1]):
            for j in self.coords(a):
                if type(j) is tuple:
                    continue
                v = a[j]
                kind = self.kind(a, j)
                if kind == 'int':
                    vals = [v + 1, v - 1]
                elif kind == 'frac':
                    e = max(1, abs(v)) * Fraction(1, 1 << 51)
                    vals = [v + e, v - e, v + 1, v - 1]
                elif kind == 'num' and type(v) is int:
                    vals = [v + 1, v - 1, math.nextafter(float(v), _INF), math.nextafter(float(v), -_INF)]
                else:
                    vals = [math.nextafter(float(v), _INF), math.nextafter(float(v), -_INF)]
                for x in vals:
                    if self.evals >= self.budget:
                        return
                    for cnd in self.with_value(a, j, Fraction(x)):
                        self.ev(cnd)

    def done_sides(self, i):
        c = self.cov[i]
        if not c['numeric']:
            return True
        if c['int_valued']:
            if self.twin.sites[i[0]].kind == 'truth':
                return True
            return c['pos'] == 1 and c['neg'] == -1
        tiny = Fraction(c['mag']) / (1 << 50) if c['mag'] else 0
        return c['pos'] is not None and c['neg'] is not None and c['pos'] <= tiny and -c['neg'] <= tiny

    def run(self, seeds):
        for a in seeds:
            a = tuple(a)
            self.seedset.add(self._key(a))
            if self.evals >= max(1, self.budget // 3):
                break
            self.ev(a)
        attempts, fails, capk = {}, {}, {}
        cap0 = max(30, self.budget // 80)          # evaluations a first attempt at one (site, goal) may consume
        capmax = max(80, self.budget // 12)        # ... and an attempt at a goal that has been getting closer
        rounds, level = 0, 2

        def dist_now(i, goal):
            c = self.cov[i]
            if goal == 0 and c['hit_equal']:
                return -len(c['in_eq'])            # still improving while further witnesses are found
            ds = [_absf(x - goal) for x in (c['pos'], c['neg']) if x is not None]
            return min(ds) if ds else None
        while self.evals < self.budget and rounds < 60:
            rounds += 1
            progress = False
            # lhs == rhs first for every site, then the values next to it
            todo = [(i, g) for g in (0, 1, -1) for i in sorted(self.cov) if g in self.goals(i)]
            for (i, goal) in todo:
                if self.evals >= self.budget:
                    break
                if goal not in self.goals(i):
                    continue
                key = (i, goal)
                # a goal that may be unreachable (guarded by an earlier return, a floor/ceil gap, a value that is not
                # an input at all ...) is given up after `level` attempts that did not get closer
                if fails.get(key, 0) >= level or self.spent.get(key, 0) >= 2 * level * capmax:
                    continue
                n = attempts.get(key, 0)
                attempts[key] = n + 1
                p = self.pool.get(i, [])
                if not p:
                    continue
                if n % 3 == 0:      # the closest known inputs, one after the other
                    q = sorted(p, key=lambda t: (_absf(t[0] - _absf(goal)), t[1]))
                    pick = q[min(len(q) - 1, n // 3)]
                elif n % 3 == 1:    # a small input: exact coincidences (b*b == 2*a*c ...) are likelier among small numbers
                    q = sorted(p, key=lambda t: (self.size(t[2]), t[1]))
                    pick = q[min(len(q) - 1, n // 3)]
                else:               # anywhere: different starts reach different basins
                    pick = p[self.rng.randrange(len(p))]
                before, d_before = self.evals, dist_now(i, goal)
                self.limit = min(self.budget, before + capk.get(key, cap0))
                try:
                    self.climb(i, goal, pick[2], pairs=(goal == 0 and n < 3))
                finally:
                    self.limit = self.budget
                self.spent[key] = self.spent.get(key, 0) + self.evals - before
                d_after = dist_now(i, goal)
                if d_after is not None and (d_before is None or d_after < d_before):
                    fails[key] = 0
                    capk[key] = min(2 * capk.get(key, cap0), capmax)
                    progress = True
                else:
                    fails[key] = fails.get(key, 0) + 1
            for i in sorted(self.cov):
                if self.evals >= self.budget:
                    break
                if not self.done_sides(i) and attempts.get((i, 'nb'), 0) < 2:
                    attempts[(i, 'nb')] = attempts.get((i, 'nb'), 0) + 1
                    self.neighbours(i)
            if not progress:
                # budget left over: the goals given up so far get further, cheaper attempts from other starts
                level += 2
                if level > 16:
                    break

    @staticmethod
    def size(args):
        n = 0
        for v in args:
            if type(v) is int:
                n += v.bit_length()
            elif type(v) is float:
                n += 53 if v != int(v) else int(abs(v)).bit_length()
            elif type(v) is Fraction:
                n += abs(v.numerator).bit_length() + v.denominator.bit_length()
        return n

    def results(self):
        out, seen = [], set()

        def add(a):
            if a is None:
                return
            k = self._key(a)
            if k in seen or k in self.seedset:
                return
            seen.add(k)
            out.append(build(a) if self.nested else a)
        for i in sorted(self.cov):
            c = self.cov[i]
            for a in c['in_eq'] + c['in_pos'] + c['in_neg']:
                add(a)
            add(c['in_true'])
            add(c['in_false'])
        report = {}
        for st in self.twin.sites:
            cs = [self.cov[k] for k in sorted(self.cov) if k[0] == st.idx]
            if not cs:
                report[st.id] = {'hit_true': 0, 'hit_false': 0, 'hit_equal': 0, 'best_abs_diff': None, 'text': st.text,
                                 'reached': False, 'numeric': False, 'int_valued': False}
                continue
            num = [c for c in cs if c['numeric']]
            ps = [c['pos'] for c in num if c['pos'] is not None]
            ns = [c['neg'] for c in num if c['neg'] is not None]
            bs = [c['best_abs_diff'] for c in num if c['best_abs_diff'] is not None]
            report[st.id] = {'hit_true': sum(c['hit_true'] for c in cs), 'hit_false': sum(c['hit_false'] for c in cs),
                             'hit_equal': sum(c['hit_equal'] for c in cs), 'best_abs_diff': min(bs) if bs else None,
                             'text': st.text, 'reached': True, 'numeric': bool(num),
                             'int_valued': bool(num) and all(c['int_valued'] for c in num),
                             'best_pos': min(ps) if ps else None, 'best_neg': max(ns) if ns else None,
                             # per execution within one call (first, second, ..., lumped rest): equality reached?
                             'equal_by_occurrence': [bool(c['hit_equal']) for c in num]}
        return out, report


def explore(twin, seeds, mutate=None, budget=3000, rng=None, apply=None, keep=3, nested=None):
    """hill-climb every numeric comparison site of `twin` towards lhs - rhs = 0, +1, -1 (integer-valued sites) or to
    the closest value on either side (other sites), starting from the `seeds` (argument tuples).

    mutate  a `Moves` object (or None): argument kinds, bounds, domain filter, adjust callback
    budget  maximal number of evaluations of the twin (seeds included; at most a third is spent on seeds)
    rng     random.Random - the only source of randomness
    apply   callback(twin, args) when the argument tuple is not the positional argument list
    keep    equality inputs kept per site

    -> (inputs, report): `inputs` are the argument tuples that reached equality, the closest ones on either side and
    the first ones for either outcome of every site (seeds themselves excluded);
    report = {site id: {hit_true, hit_false, hit_equal, best_abs_diff, text, reached, numeric, int_valued, ...}}"""
    seeds = [tuple(s_) for s_ in seeds]
    if nested is None:
        nested = any(isinstance(a, (list, tuple)) for s_ in seeds for a in s_)
    ex = _Explorer(twin, mutate, budget, rng or random.Random(0), apply, keep, nested)
    ex.run([flatten(s_) for s_ in seeds] if nested else seeds)
    inputs, report = ex.results()
    report_meta = {'evaluations': ex.evals, 'rejected_by_domain': ex.rejects}
    explore.last = report_meta
    return inputs, report


def compact(report):
    """one short line for the evidence: counts, and the numeric sites that never reached equality"""
    n = len(report)
    reached = [r for r in report.values() if r['reached']]
    num = [r for r in reached if r['numeric']]
    eq = [r for r in num if r['hit_equal']]
    both = [r for r in reached if r['hit_true'] and r['hit_false']]
    noeq = [f"{k.split(':', 1)[1]} `{r['text']}` min|d|={_short(r['best_abs_diff'])}" for k, r in report.items()
            if r['reached'] and r['numeric'] and not r['hit_equal']]
    unre = [f"{k.split(':', 1)[1]} `{r['text']}`" for k, r in report.items() if not r['reached']]
    s = f'{n} sites, {len(reached)} reached, {len(both)} both outcomes, {len(eq)}/{len(num)} numeric sites hit lhs==rhs'
    if noeq:
        s += '; no equality: ' + ', '.join(noeq)
    if unre:
        s += '; not reached: ' + ', '.join(unre)
    return s


def _short(d):
    if d is None:
        return 'n/a'
    if type(d) is int:
        return str(d) if abs(d) < 10 ** 6 else f'{float(d):.3g}'
    return f'{float(d):.3g}'


# ----------------------------------------------------------------------------------------------
# glue for the per-property modules
# ----------------------------------------------------------------------------------------------
def stream(ctx, label, func, seeds, rerun, moves=None, apply=None, budget=2500, to_case=None, max_inputs=400,
           in_domain=None, keep=8):
    """the 'sitecov' input stream of one anchored function.

    func      the function object of the CURRENT source
    seeds     in-domain argument tuples (a sample of the module's own generated inputs)
    moves     `Moves` (its `domain` is the module's domain predicate on argument tuples)
    rerun     callback(list of cases) that pushes cases through the module's own pipeline (real code, driver/model
              comparison, oracle, ctx.count); it is called once, with ctx.count wrapped so that every case is also
              counted under the path 'sitecov'
    to_case   argument tuple -> the module's case tuple (default: identity)
    Never raises and never reports anything itself: an instrumenter problem becomes a note."""
    t0 = time.time()
    try:
        twin = instrument(func)
    except Exception as ex:        # noqa: never let the instrumenter decide a verdict
        ctx.notes.append(f'sitecov[{label}]: instrumenter unavailable: {ex!r}')
        return []
    seeds = [tuple(s) for s in seeds]
    try:
        for s in seeds[:25]:
            ok = twin.same_as_original(*s) if apply is None else True
            if not ok:
                ctx.notes.append(f'sitecov[{label}]: twin differs from the function on {s}; stream skipped')
                return []
        inputs, report = explore(twin, seeds, moves, min(ctx.n(budget), 4 * budget), ctx.rng, apply, keep=keep)
    except Exception as ex:        # noqa
        ctx.notes.append(f'sitecov[{label}]: exploration failed: {ex!r}')
        return []
    dom = in_domain or (moves.domain if moves is not None else None)
    if dom is not None:
        inputs = [a for a in inputs if dom(a)]
    inputs = inputs[:max_inputs]
    cases = [to_case(a) if to_case else a for a in inputs]
    t1 = time.time()
    n_before = ctx.evaluations
    calls = {'v': 0, 'd': 0}
    if cases:
        orig_count, orig_violate, orig_disagree = ctx.count, ctx.violate, ctx.disagree

        def count(key, path=None, nontrivial=True):
            orig_count(key, path, nontrivial)
            ctx.paths['sitecov'] = ctx.paths.get('sitecov', 0) + 1

        def violate(*a, **k):        # counted here because ctx keeps at most 200 violations
            calls['v'] += 1
            return orig_violate(*a, **k)

        def disagree(*a, **k):
            calls['d'] += 1
            return orig_disagree(*a, **k)
        ctx.count, ctx.violate, ctx.disagree = count, violate, disagree
        try:
            rerun(cases)
        finally:
            del ctx.count, ctx.violate, ctx.disagree          # back to the class methods
    ctx.notes.append(f'sitecov[{label}]: {compact(report)}; {explore.last["evaluations"]} twin evaluations from {len(seeds)} seeds, '
                     f'{len(cases)} inputs through the pipeline ({ctx.evaluations - n_before} counted, '
                     f'{calls["v"]} violations and {calls["d"]} disagreements '
                     f'reported on them by the module\'s oracle / correspondence); '
                     f'{t1 - t0:.1f}s search + {time.time() - t1:.1f}s pipeline')
    return cases


# ----------------------------------------------------------------------------------------------
# re-entering a module's run() with other inputs (for modules whose pipeline is the body of run itself)
# ----------------------------------------------------------------------------------------------
class CtxProxy:
    """a view of the harness context for a nested pass of run(): counters, reports, notes, driver and rng are those of
    the real context; the attributes given as keywords (scale, replay, tie_broken, ...) are overridden"""

    def __init__(self, ctx, **over):
        object.__setattr__(self, '_ctx', ctx)
        object.__setattr__(self, '_over', dict(over))

    def __getattr__(self, k):
        over = object.__getattribute__(self, '_over')
        if k in over:
            return over[k]
        return getattr(object.__getattribute__(self, '_ctx'), k)

    def __setattr__(self, k, v):
        over = object.__getattribute__(self, '_over')
        if k in over:
            over[k] = v
        else:
            setattr(object.__getattribute__(self, '_ctx'), k, v)

    def n(self, quick):
        return quick * self.scale


_MISSING = object()


def rerun_patched(ctx, g, patches=None, over=None, replay=None, tolerate=('without input', 'without any input')):
    """call g['run'] (the module's own run) once more on a CtxProxy, with the module globals in `patches` replaced for
    the duration of the call (generators emptied, so that only the injected inputs flow through the pipeline).

    replay    a JSON-serialisable replay payload: written to a temporary file whose name becomes ctx.replay of the
              nested pass (for modules whose run() reads failing inputs back from a replay file)
    tolerate  substrings of Infra messages that the nested pass may end with (its path-coverage requirement is
              about the main pass); anything else propagates
    The notes of the nested pass are dropped (they repeat the module's closing notes).  Returns True when the nested
    pass was cut short by a tolerated Infra (whatever run() does after that point has then not been done)."""
    import json, os, tempfile
    from .common import Infra
    patches, over = dict(patches or {}), dict(over or {})
    path = None
    if replay is not None:
        fd, path = tempfile.mkstemp(prefix='sitecov_replay_', suffix='.json')
        with os.fdopen(fd, 'w') as f:
            json.dump(replay, f, default=str)
        over['replay'] = path
    saved = {k: g.get(k, _MISSING) for k in patches}
    g.update(patches)
    n_notes, n_ood = len(ctx.notes), len(ctx.out_of_domain)
    known_ood = {repr(o) for o in ctx.out_of_domain}
    ctx._in_sitecov = True
    cut_short = False
    try:
        g['run'](CtxProxy(ctx, **over))
    except Infra as ex:
        if not any(t in str(ex) for t in tolerate):
            raise
        cut_short = True
    finally:
        for k, v in saved.items():
            if v is _MISSING:
                g.pop(k, None)
            else:
                g[k] = v
        ctx._in_sitecov = False
        if path is not None:
            try:
                os.remove(path)
            except OSError:
                pass
    del ctx.notes[n_notes:]
    ctx.out_of_domain[n_ood:] = [o for o in ctx.out_of_domain[n_ood:] if repr(o) not in known_ood]   # fixed probes repeat
    return cut_short


def only_mode(g, patches=None, environ=None, tail=None, note='', tolerate=('without input', 'without any input'),
              scale_cap=1, over=None):
    """EXPERIMENT ONLY (SITECOV_ONLY=1): replace g['run'] by a version that runs the module with its hand-written
    boundary generators patched away (`patches`: module globals, `environ`: environment defaults), turns the
    path-coverage requirement into a note and then runs the sitecov tail."""
    import os
    from .common import Infra
    full = g['run']

    def run(ctx):
        if getattr(ctx, '_in_sitecov', False):
            return full(ctx)
        cap = 0 if os.environ.get('SITECOV_ONLY') == '2' else scale_cap     # '2': no random inputs at all, stream only
        saved = {k: g.get(k, _MISSING) for k in (patches or {})}
        saved_env = {k: os.environ.get(k) for k in (environ or {})}
        g.update(patches or {})
        os.environ.update(environ or {})
        ctx._only_main = True          # the tail is called explicitly below, once
        try:
            try:
                # the random part of the experiment runs at the plain quick budget even when the tie is broken (x10)
                full(CtxProxy(ctx, **dict(over or {}, scale=min(ctx.scale, cap))) if scale_cap else ctx)
            except Infra as ex:
                if not any(t in str(ex) for t in tolerate):
                    raise
                ctx.notes.append('SITECOV_ONLY: ' + str(ex)[:300])
        finally:
            ctx._only_main = False
            for k, v in saved.items():
                if v is _MISSING:
                    g.pop(k, None)
                else:
                    g[k] = v
            for k, v in saved_env.items():
                if v is None:
                    os.environ.pop(k, None)
                else:
                    os.environ[k] = v
        ctx.notes.append('SITECOV_ONLY: ' + note)
        if tail is not None:
            tail(ctx)
    g['run'] = run
