"""C20 — text helpers (plotink/text_utils.py): xml_escape round trip, format_hms.

Correspondence: Lean model `C20.escape` <-> `text_utils.xml_escape`; `C20.unescape` / `C20.parse place` <-> lxml
reading the escaped text back from element content, a "-attribute and a '-attribute; `C20.formatHms` (fed the exact
rational value of the argument) <-> `text_utils.format_hms`.

Property oracle (Python side, judged against the statement, independent of the Lean model):
  * the escaped text has none of < > " ' and every & begins one of the five predefined entities (or a numeric
    character reference);
  * lxml reads the original text back at the three places;
  * a duration q < 10 s is printed as d+.ddd within half a millisecond of q; a duration q >= 10 s is printed as
    ss / m:ss / h:mm:ss (two-digit mm, ss in 00..59) whose value R satisfies |R - q| <= 1/2, the form being chosen by R;
  * a millisecond input prints the same text as the equivalent seconds (the float `ms / 1000.0`).
"""
import ast, json, math, os, re, inspect
from fractions import Fraction
from . import common
from .common import enc_str, dec_str, frac_str

NEED_DRIVER = True
RULE = ('xml: exhaustive strings of length <= 3 over {& < > " \' a ; #}, every XML-legal BMP code point (chunks of 64) and '
        'sampled astral ones, random strings <= 40 chars mixing the five specials, entity-like fragments (&amp; &#38; &lt '
        'pre-escaped text), markup fragments, BMP/astral characters, and TAB/LF/CR witnesses; the boundaries of the Char production and '
        'the first/last code points + a sample of every plane 1..16 (alone and next to specials); call sequences of related '
        'strings (same length / prefix / case variants / repeats, order kept) and fresh-module single calls; non-trivial = contains a '
        'special or white-space-control character. format_hms: all integers 0..4000 s, boundaries (9.9995, 10, 59.5, 60, '
        '3599.5, 3600, 10^7) with +-1 ulp neighbours, halves k+1/2 (even and odd k), k +- 2^-20, exact millisecond ties '
        '(odd/16), every j/1000+0.0005 (j<10^4) with +-1 ulp for a sample, k+1/2 +-1 ulp around the branch points and sampled to 10^7, '
        'constants of the current source +- {0, 1/2, ulp}, random floats per branch, call sequences (same number with either '
        'unit flag, int/float twins, neighbours sharing the rounded value, repeats), each in seconds and in '
        'milliseconds, ints and floats; non-trivial = within 1 s of a branch boundary or a rounding tie, or sub-10 s; '
        'distinct by input')
TRUSTED = ['hand-written model Model/C20.lean (validated by this correspondence run)',
           'lxml/libxml2 as "a standard XML parser"; modelled as entity decoding (C20.unescape / C20.parse)',
           "modelled not verified: float.__format__('.3f') and round() = half-to-even on the exact value; "
           'str(int) / {:02} rendering; Ieee.roundBits 53 as the binary64 quotient ms/1000.0',
           'harness/c20.py oracle and canonicalisation; CPython']
ASSUMPTIONS = ['strings: every character is XML-legal (#x9 #xA #xD, #x20-#xD7FF, #xE000-#xFFFD, #x10000-#x10FFFF)',
               'durations: int or finite float, 0 <= seconds <= 10^7 (milliseconds: 0 <= ms <= 10^10); -0.0 and bool excluded',
               'the model is over the exact rational value of the float argument',
               'KNOWN LIMIT F9: parser white-space normalisation (CR in content; TAB/LF/CR in attribute values) is not in the '
               'Lean model; the harness reports it as the known finding xml-whitespace-normalisation']
STAGED = []

KNOWN_KEY = 'xml-whitespace-normalisation'
ENT_TAILS = ('amp;', 'lt;', 'gt;', 'quot;', 'apos;')
SPECIALS = '&<>"\''
WS = '\t\n\r'


def legal_cp(cp):
    return cp in (9, 10, 13) or 0x20 <= cp <= 0xD7FF or 0xE000 <= cp <= 0xFFFD or 0x10000 <= cp <= 0x10FFFF


# ------------------------------------------------------------------------------------------------
# generators
# ------------------------------------------------------------------------------------------------
FRAGS = ['&amp;', '&lt;', '&gt;', '&quot;', '&apos;', '&#38;', '&#x26;', '&#60;', '&#13;', '&#10;', '&#9;', '&lt', '&amp', '&;', '&&',
         'amp;', 'lt;', ';', '#', '&#', '&a', '&am', '&amp;amp;', '&amp;lt;', '&apos', '&quot', ']]>', '<!--', '-->',
         '<![CDATA[', '<?x ?>', '</a>', '<a>', '<a x="1">', "<a x='1'/>", '"\'', '\'"', '""', "''", '"', "'", '<', '>', '&',
         '="', "='", '&apos;s', 'it\'s', '"q"', '%', '\\', ' ', '\u0085', '\u00a0', '\u2028', '\ud7ff', '\ue000', '\ufffd',
         '\U00010000', '\U0001f600', '\U0010ffff', '\u00e9', '\u65e5\u672c', '  ', 'x', 'Hello']


def rand_char(rng):
    k = rng.random()
    if k < 0.30:
        return rng.choice(SPECIALS)
    if k < 0.55:
        return rng.choice('abcxyz ;#0123456789ALPQTUlpqtu')
    if k < 0.70:
        return chr(rng.randint(0x20, 0x7e))
    if k < 0.85:
        while True:
            cp = rng.randint(0x80, 0xFFFD)
            if legal_cp(cp):
                return chr(cp)
    return chr(rng.randint(0x10000, 0x10FFFF))


def rand_string(rng, ws_rate):
    n = rng.choice([0, 1, 1, 2, 3, 4, 5, 8, 12, 20, 40])
    out = []
    while len(out) < n:
        k = rng.random()
        if k < ws_rate:
            out.append(rng.choice(['\r', '\n', '\t', '\r\n']))
        elif k < 0.45:
            out.append(rng.choice(FRAGS))
        else:
            out.append(rand_char(rng))
    return ''.join(out)


CHAR_BOUNDS = [0x9, 0xA, 0xD, 0x20, 0x21, 0x7E, 0x7F, 0x80, 0x84, 0x85, 0x86, 0x9F, 0xA0, 0xFF, 0x100, 0x7FF, 0x800, 0x2027, 0x2028,
               0x2029, 0xD7FE, 0xD7FF, 0xE000, 0xE001, 0xF8FF, 0xFDCF, 0xFDD0, 0xFDEF, 0xFDF0, 0xFEFF, 0xFFF0, 0xFFFC, 0xFFFD]


def plane_points(rng):
    """the boundaries of the Char production; for every supplementary plane its first two and last three code points
    (xxFFFE / xxFFFF are noncharacters but XML-legal) and a random sample; U+FFFFF / U+100000 / U+10FFFD..U+10FFFF included"""
    pts = list(CHAR_BOUNDS)
    for plane in range(1, 17):
        base = plane << 16
        pts += [base, base + 1, base + 0x7FFF, base + 0x8000, base + 0xFFFD, base + 0xFFFE, base + 0xFFFF]
        pts += [base + rng.randint(2, 0xFFFC) for _ in range(6)]
    pts += [0x10ABCD, 0xFFFFF, 0x100000, 0x10FFFD, 0x10FFFE, 0x10FFFF, 0x1F600, 0x2A6DF, 0xE0001, 0xE01EF]
    out = []
    for cp in pts:
        if legal_cp(cp) and cp not in out:
            out.append(cp)
    return out


def xml_sequences(ctx):
    """call SEQUENCES: the same function called again and again with related strings (same length, same prefix, same
    text up to case / surrounding blanks / one character, the text repeated, then the first text again).  Order matters
    and repeats are kept: state carried from one call to the next (a memo keyed on too little) shows up as a wrong answer
    for some call of the sequence; every call is judged."""
    rng = ctx.rng
    seqs = []
    swap = {'<': '>', '>': '<', '"': "'", "'": '"', '&': '<', 'a': '&', ';': '&', 'x': "'"}
    bases = ['a<b', "it's", '&amp;', '"q"', 'x&y', '<a x="1">', 'A&B', 'Tom & Jerry', '\U00100000&', 'a\U0010ffffb', '']
    for _ in range(ctx.n(150)):
        bases.append(rand_string(rng, 0.0))
    for s in bases:
        t = ''.join(swap.get(c, c) for c in s)                       # same length, specials exchanged
        k = rng.randint(0, len(s))
        u = s[:k] + rng.choice(SPECIALS) + s[k + 1:]                 # same prefix (and usually same length)
        v = s[:k] + rng.choice(['\U00100000', '\U0010fffd', '\ud7ff', '\ue000', 'z']) + s[k + 1:]
        seq = [s, t, s, u, v, s.swapcase(), s.upper(), s.lower(), ' ' + s, s + ' ', s.strip(), s + s, s[::-1], s[:len(s) // 2],
               s, t]
        seqs.append([x for x in seq if all(legal_cp(ord(c)) for c in x)])
    return seqs


def xml_cases(ctx, corpus):
    rng = ctx.rng
    cases = [c['s'] for c in corpus if c['kind'] == 'xml']
    # always-present witnesses of the known finding and of the "different failure on CR input" situation
    cases += ['a\rb', 'a\tb', 'a\nb', 'a\r\nb', "it's\r", '<\r>', '\r', 'x\t"y"\n']
    small = '&<>"\'a;#'
    for a in small:
        cases.append(a)
        for b in small:
            cases.append(a + b)
            for c in small:
                cases.append(a + b + c)
    cases += FRAGS
    for a in FRAGS[:30]:
        for b in FRAGS[:30]:
            cases.append(a + b)
    # boundaries of the XML 1.0 Char production and of every plane, each alone, between letters and next to specials
    # (single-character strings first, so that a dropped / altered character gives a minimal witness)
    for cp in plane_points(rng):
        c = chr(cp)
        cases += [c, 'a' + c + 'b', c + '&' + c, '<' + c + '>', '"' + c + "'"]
    # every legal BMP code point, in chunks; astral: plane starts/ends and a random sample
    bmp = [cp for cp in range(0x20, 0x10000) if legal_cp(cp)]
    for i in range(0, len(bmp), 64):
        cases.append(''.join(chr(cp) for cp in bmp[i:i + 64]))
    astral = [0x10000, 0x10001, 0x1FFFD, 0x1FFFE, 0x1FFFF, 0x20000, 0xEFFFF, 0xF0000, 0x10FFFD, 0x10FFFE, 0x10FFFF]
    astral += [rng.randint(0x10000, 0x10FFFF) for _ in range(200)]
    for i in range(0, len(astral), 16):
        cases.append('&'.join(chr(cp) for cp in astral[i:i + 16]))
    for _ in range(ctx.n(20000)):
        cases.append(rand_string(rng, 0.0))
    for _ in range(ctx.n(2000)):
        cases.append(rand_string(rng, 0.15))
    seen, out = set(), []
    for s in cases:
        if s not in seen:
            seen.add(s)
            out.append(s)
    return out


def ulps(x):
    x = float(x)
    return [math.nextafter(x, math.inf), math.nextafter(x, -math.inf)]


def source_constants():
    """numeric literals of the *current* source of format_hms (adaptive boundary inputs)"""
    try:
        from plotink import text_utils as tu
        tree = ast.parse(inspect.getsource(tu.format_hms).lstrip())
    except Exception:
        return []
    out = set()
    for node in ast.walk(tree):
        if isinstance(node, ast.Constant) and isinstance(node.value, (int, float)) and not isinstance(node.value, bool):
            if 0 < node.value <= 10 ** 7:
                out.add(node.value)
    return sorted(out)


def in_domain(v, ms):
    if isinstance(v, bool) or not isinstance(v, (int, float)):
        return False
    if isinstance(v, float) and (v != v or v in (math.inf, -math.inf) or (v == 0 and math.copysign(1.0, v) < 0)):
        return False
    return 0 <= v <= (10 ** 10 if ms else 10 ** 7)


def hms_cases(ctx, corpus):
    rng = ctx.rng
    secs = []                                   # candidate durations in seconds
    secs += list(range(0, 4001))
    secs += [float(k) for k in range(0, 130)]
    marks = [9.9995, 10, 59.5, 60, 3599.5, 3600, 10 ** 7, 9.999, 9.9994999, 59.4999, 60.5, 61.5, 119.5, 120.5, 599.5, 600,
             3540, 3599, 3599.4999, 3600.5, 3601.5, 35999.5, 36000, 86399.5, 86400, 359999.5, 360000, 9999999.5, 9999999,
             0.0005, 0.0015, 0.0025, 0.9995, 1.0005, 5.5, 9.5, 10.5, 11.5, 12.5, 0.001, 0.0004999, 1e-9, 1e-300, 5e-324]
    marks += source_constants()
    for c in list(marks):
        for d in (0, 0.5, -0.5, 1, -1):
            x = c + d
            secs.append(x)
            if isinstance(x, float) or True:
                secs += ulps(x)
    for j in range(80):                          # exact millisecond ties: odd/16 has 1000*x = ....5
        secs.append((2 * j + 1) / 16.0)
    for j in range(40):
        secs.append((2 * j + 1) / 32.0 + rng.randint(0, 9))
    for _ in range(ctx.n(300)):                  # halves, even and odd
        k = rng.choice([rng.randint(10, 70), rng.randint(3590, 3610), rng.randint(10, 10 ** 4), rng.randint(10, 10 ** 7 - 1)])
        secs.append(k + 0.5)
    for _ in range(ctx.n(300)):                  # k +- 2^-20 and k+1/2 +- 2^-20
        k = rng.choice([rng.randint(0, 70), rng.randint(3590, 3610), rng.randint(0, 10 ** 5)])
        e = rng.choice([2.0 ** -20, -2.0 ** -20])
        secs += [k + e, k + 0.5 + e]
    for _ in range(ctx.n(8000)):
        kind = rng.random()
        if kind < 0.2:
            secs.append(rng.uniform(0, 10))
        elif kind < 0.3:
            secs.append(round(rng.uniform(0, 10), 4))
        elif kind < 0.4:
            secs.append(rng.uniform(9.99, 10.01))
        elif kind < 0.55:
            secs.append(rng.uniform(59, 61))
        elif kind < 0.7:
            secs.append(rng.uniform(3598, 3602))
        elif kind < 0.8:
            secs.append(rng.uniform(10, 3600))
        elif kind < 0.9:
            secs.append(10 ** rng.uniform(-6, 7))
        else:
            secs.append(rng.uniform(0, 1e7))
    # sub-10 s branch: every k + 0.0005 * odd, i.e. j/1000 + 0.0005 for every j in 0..9999, as the decimal literal (the
    # nearest double, which lies just above or just below the tie) -- and its two neighbours for a sample; the same in
    # milliseconds, where j + 0.5 is exact
    half_ms = [float(f'{j}.5e-3') for j in range(10000)]
    secs += half_ms
    for j in sorted(set(rng.sample(range(10000), min(10000, ctx.n(1200))) + list(range(0, 40)) + list(range(9960, 10000)))):
        secs += ulps(half_ms[j])
    # long branch: k + 0.5 and its two neighbours, every k around the branch points, a sample elsewhere (even and odd k)
    ks = list(range(10, 131)) + list(range(3540, 3661)) + [rng.randint(10, 10 ** 7 - 1) for _ in range(ctx.n(400))]
    for k in ks:
        secs += [k + 0.5] + ulps(k + 0.5)
    cases = []
    for c in corpus:
        if c['kind'] == 'hms':
            cases.append((c['v'], c['ms']))
    for x in secs:
        cases.append((x, False))
    for j in sorted(set(rng.sample(range(10000), min(10000, ctx.n(1500))) + list(range(0, 30)) + list(range(9970, 10000)))):
        cases += [(j + 0.5, True)] + [(u, True) for u in ulps(j + 0.5)]
    for k in ks[::3]:
        m = 1000 * k + 500
        cases += [(m, True), (float(m), True)] + [(u, True) for u in ulps(float(m))]
    # the same durations given in milliseconds: ints where exact, floats otherwise, plus near-by ints
    for x in secs[::2] + marks:
        m = x * 1000
        cases.append((m, True))
        if isinstance(m, float):
            cases.append((int(round(m)), True))
            cases.append((float(int(round(m))), True))
            cases += [(u, True) for u in ulps(m)]
    for _ in range(ctx.n(500)):
        cases.append((rng.randint(0, 10 ** rng.randint(1, 10)), True))
    seen, out = set(), []
    for v, ms in cases:
        key = (type(v).__name__, v, ms)
        if key in seen:
            continue
        seen.add(key)
        if in_domain(v, ms):
            out.append((v, ms))
    return out


def hms_sequences(ctx):
    """call SEQUENCES for format_hms: the same number with the other unit flag, the int and the float of the same value
    (equal and hash-equal in Python), neighbours that share the rounded value / the printed text / the integer part, then
    the first call again.  Order and repeats are kept; every call is judged."""
    rng = ctx.rng
    seqs = []
    bases = [5, 10, 59.5, 60, 3599.5, 3600, 9999, 9999.5, 12345.6789, 65, 9.9995, 1, 0, 62.5, 1000, 10000, 59500, 3600000]
    for _ in range(ctx.n(150)):
        bases.append(rng.choice([rng.randint(0, 12000), round(rng.uniform(0, 12000), rng.choice([0, 1, 3, 4])),
                                 rng.uniform(0, 70), rng.randint(0, 10 ** 7), rng.randint(0, 70) + 0.5]))
    for v in bases:
        fv, iv = float(v), int(v)
        seq = [(v, False), (v, True), (v, False), (fv, False), (iv, False), (fv, True), (iv, True),
               (math.nextafter(fv, math.inf), False), (fv + 0.25, False), (iv + 0.5, False), (iv + 0.5, True),
               (v * 1000, True), (v * 1000, False) if v * 1000 <= 10 ** 7 else (v, False), (v / 1000.0, False),
               (round(fv, 3), False), (round(fv), False), (v, True), (v, False)]
        seqs.append([c for c in seq if in_domain(*c)])
    return seqs


# ------------------------------------------------------------------------------------------------
# oracles
# ------------------------------------------------------------------------------------------------
CHARREF_RE = re.compile(r'#(?:[0-9]+|x[0-9a-fA-F]+);')


def no_special_problem(e):
    """None if `e` has none of < > " ' and every & begins one of the five entities.  A well-formed numeric character
    reference is tolerated too (the current code never emits one; a variant that does is a model difference, not a
    violation of the statement)."""
    for ch in '<>"\'':
        if ch in e:
            return f'raw {ch!r} in the escaped text'
    i = e.find('&')
    while i >= 0:
        if not any(e.startswith(t, i + 1) for t in ENT_TAILS) and not CHARREF_RE.match(e, i + 1):
            return f'& at offset {i} does not begin one of the five entities (nor a character reference)'
        i = e.find('&', i + 1)
    return None


def read_back(e):
    """what lxml reads from element content, a "-attribute, a '-attribute; ('ERR', msg) on a parse error"""
    from lxml import etree
    out = []
    for doc, get in ((f'<a>{e}</a>', lambda el: el.text or ''),
                     (f'<a x="{e}"/>', lambda el: el.get('x')),
                     (f"<a x='{e}'/>", lambda el: el.get('x'))):
        try:
            el = etree.fromstring(doc.encode('utf-8'))
            if len(el):
                out.append(('ERR', 'the text was read as markup (child elements)'))
            else:
                out.append(get(el))
        except Exception as ex:  # XMLSyntaxError, UnicodeEncodeError, ...
            out.append(('ERR', f'{type(ex).__name__}: {ex}'[:120]))
    return out


def normalised(s, place):
    t = s.replace('\r\n', '\n').replace('\r', '\n')
    if place != 'content':
        t = t.replace('\n', ' ').replace('\t', ' ')
    return t


PLACES = ('content', 'attr-dq', 'attr-sq')
SHORT_RE = re.compile(r'^(\d+)\.(\d{3})$')
LONG_RES = (('ss', re.compile(r'^(\d{2})$')), ('m:ss', re.compile(r'^(\d+):(\d{2})$')),
            ('h:mm:ss', re.compile(r'^(\d+):(\d{2}):(\d{2})$')))


def hms_problem(text, q):
    """judge the text printed for the exact duration q (a Fraction, seconds) against the statement"""
    if not isinstance(text, str):
        return f'not a string: {text!r}', None
    tok = text.split(' ', 1)[0]
    if q < 10:
        m = SHORT_RE.match(tok)
        if not m:
            return 'a time under 10 s is not printed as seconds with three decimals', 'short'
        val = Fraction(int(m.group(1)) * 1000 + int(m.group(2)), 1000)
        if abs(val - q) > Fraction(1, 2000):
            return f'printed value {tok} is not the duration to the nearest millisecond', 'short'
        return None, 'short'
    for form, rx in LONG_RES:
        m = rx.match(tok)
        if m:
            f = [int(g) for g in m.groups()]
            break
    else:
        return 'a time of 10 s or more is not printed as ss, m:ss or h:mm:ss (two-digit fields)', None
    if form == 'ss':
        R = f[0]
    elif form == 'm:ss':
        R = f[0] * 60 + f[1]
        if f[1] > 59:
            return 'seconds field outside 00..59', form
    else:
        R = f[0] * 3600 + f[1] * 60 + f[2]
        if f[1] > 59 or f[2] > 59:
            return 'minutes or seconds field outside 00..59', form
    if abs(R - q) > Fraction(1, 2):
        return f'encodes {R} s, which is not the duration rounded to the nearest second', form
    want = 'ss' if R < 60 else 'm:ss' if R < 3600 else 'h:mm:ss'
    if form != want:
        return f'form {form} used for a rounded value of {R} s (should be {want})', form
    return None, form


def near_boundary(q):
    if q < 10:
        return True
    fr = q - math.floor(q)
    if abs(fr - Fraction(1, 2)) < Fraction(1, 1000):
        return True
    return any(abs(q - b) <= 1 for b in (10, 60, 3600))


# ------------------------------------------------------------------------------------------------
def load_corpus(ctx):
    items = []
    d = os.path.join(common.VERIF, 'corpus', 'C20')
    files = sorted(os.path.join(d, f) for f in os.listdir(d)) if os.path.isdir(d) else []
    for path in files:
        if not path.endswith('.jsonl'):
            continue
        for line in open(path):
            line = line.strip()
            if line and not line.startswith('#'):
                items.append(json.loads(line))
    if getattr(ctx, 'replay', None):
        try:
            rep = json.load(open(ctx.replay))
            for v in rep.get('violations', []) + rep.get('model_vs_implementation', []):
                if isinstance(v.get('input'), dict):
                    items.append(v['input'])
        except Exception as ex:
            ctx.notes.append(f'replay file not usable: {ex}')
    out = []
    for it in items:
        try:
            if it.get('kind') == 'xml':
                out.append({'kind': 'xml', 's': dec_str(it['s'])})
            elif it.get('kind') == 'hms':
                v = it['v']
                v = float.fromhex(v[1:]) if isinstance(v, str) and v.startswith('x') else int(v)
                out.append({'kind': 'hms', 'v': v, 'ms': bool(it['ms'])})
        except Exception as ex:
            ctx.notes.append(f'corpus item skipped: {it!r}: {ex}')
    return out


def show_num(v):
    return 'x' + v.hex() if isinstance(v, float) else str(v)


def run(ctx):
    from plotink import text_utils as tu
    corpus = load_corpus(ctx)
    run_fresh(ctx, tu, corpus)
    run_xml(ctx, tu, corpus)
    run_hms(ctx, tu, corpus)
    # ---- the SOURCE-REGENERATED code (translator, string subset): see gen_stream at the end of this file
    gen_stream(ctx, tu, corpus)


def run_fresh(ctx, tu, corpus):
    """single calls on a freshly (re)loaded module: the first call after import, with no history behind it, judged by
    the same oracles (the streams below judge calls that have thousands of earlier calls behind them)"""
    import importlib
    items = [c for c in corpus][:60] + [{'kind': 'xml', 's': "\U00100000<&>\"'"}, {'kind': 'hms', 'v': 9.9995, 'ms': False},
                                        {'kind': 'hms', 'v': 59500, 'ms': True}]
    for it in items:
        try:
            importlib.reload(tu)
        except Exception as ex:
            ctx.notes.append(f'fresh-module stream skipped: reload failed: {ex!r}')
            return
        if it['kind'] == 'xml':
            s = it['s']
            if not all(legal_cp(ord(c)) for c in s):
                continue
            inp = {'kind': 'xml', 's': enc_str(s), 'text': s[:60], 'fresh_module': True}
            ctx.count(('fresh-xml', s), 'xml:fresh')
            try:
                e = tu.xml_escape(s)
            except Exception as ex:
                ctx.violate('xml_escape raised', inp, repr(ex), 'the escaped text', key='xml-raised')
                continue
            prob = no_special_problem(e)
            if prob:
                ctx.violate('xml_escape: special character outside an entity', inp, e[:120], prob, key='xml-special-outside-entity')
            for place, b in zip(PLACES, read_back(e)):
                if b == s or (not isinstance(b, tuple) and any(c in WS for c in s) and b == normalised(s, place)):
                    continue      # the white-space class (F9) is reported by the main stream
                obs = b[1] if isinstance(b, tuple) else repr(b)[:120]
                ctx.violate(f'xml_escape: text not read back from {place}', inp, obs, repr(s)[:120], key=f'xml-roundtrip-{place}')
        else:
            v, ms = it['v'], it['ms']
            if not in_domain(v, ms):
                continue
            inp = {'kind': 'hms', 'v': show_num(v), 'ms': ms, 'value': repr(v), 'fresh_module': True}
            ctx.count(('fresh-hms', show_num(v), ms), 'hms:fresh')
            q = Fraction(v / 1000.0 if ms else v)
            try:
                text = tu.format_hms(v, True) if ms else tu.format_hms(v)
            except Exception as ex:
                ctx.violate('format_hms raised', inp, repr(ex), 'a text', key='hms-raised')
                continue
            prob, _ = hms_problem(text, q)
            if prob:
                ctx.violate('format_hms: ' + prob, inp, text, f'duration = {float(q)!r} s (exactly {frac_str(q)})',
                            key='hms-' + ('short' if q < 10 else 'long'))


def run_xml(ctx, tu, corpus):
    cases = xml_cases(ctx, corpus)
    bad = [s for s in cases if not all(legal_cp(ord(c)) for c in s)]
    for s in bad:
        ctx.out_of_domain.append({'xml: not XML-legal, skipped': enc_str(s)})
    cases = [s for s in cases if all(legal_cp(ord(c)) for c in s)]
    n_single = len(cases)
    for seq in xml_sequences(ctx):               # order kept, repeats kept
        cases += seq
    impl = []
    for s in cases:
        try:
            e = tu.xml_escape(s)
            if not isinstance(e, str):
                raise TypeError(f'returned {type(e).__name__}')
        except Exception as ex:
            e = None
            ctx.count(('xml', s), 'xml:raised')
            ctx.violate('xml_escape raised', {'kind': 'xml', 's': enc_str(s), 'text': s[:60]}, repr(ex), 'the escaped text',
                        key='xml-raised')
        impl.append(e)
    outs_esc = outs_read = None
    if ctx.driver:
        outs_esc = ctx.driver.batch(['c20 esc ' + enc_str(s) for s in cases])
        outs_read = ctx.driver.batch(['c20 read ' + enc_str(e if e is not None else '') for e in impl])
    known_reported = 0
    for i, (s, e) in enumerate(zip(cases, impl)):
        if e is None:
            continue
        has_ws = any(c in WS for c in s)
        has_sp = any(c in SPECIALS for c in s)
        path = 'xml:ws' if has_ws else 'xml:entity-like' if ('&' in s and any(t in s for t in ENT_TAILS + ('#',))) \
            else 'xml:special' if has_sp else 'xml:plain'
        if i >= n_single:
            path += ':seq'
        ctx.count(('xml', s), path, has_ws or has_sp)
        inp = {'kind': 'xml', 's': enc_str(s), 'text': s[:60]}
        back = read_back(e)
        if i % 97 == 0 or has_ws:
            ctx.sample({'xml_escape': s[:40], 'escaped': e[:80], 'read_back': [b if isinstance(b, str) else 'ERR' for b in back]}, cap=6)
        # ---- correspondence ----
        if outs_esc is not None:
            m_esc, m_map = outs_esc[i].split(' ')
            if m_esc != enc_str(e):
                ctx.disagree('escape model vs xml_escape', inp, enc_str(e), m_esc)
            if m_map != m_esc:
                ctx.disagree('escape model vs one-pass spec (escapeMap)', inp, m_esc, m_map)
            e_ws = any(c in WS for c in e)
            if not e_ws:          # the parser model has no white-space normalisation (F9): compare without those characters
                r = outs_read[i].split(' ')
                lx = [('!' if isinstance(b, tuple) else enc_str(b)) for b in back]
                if not isinstance(back[0], tuple) and r[0] != lx[0]:
                    ctx.disagree('unescape model vs lxml (element content)', inp, lx[0], r[0])
                for k, place in enumerate(PLACES):
                    if r[1 + k] != lx[k]:
                        ctx.disagree(f'parse model vs lxml ({place})', inp, lx[k], r[1 + k])
        # ---- property oracle ----
        prob = no_special_problem(e)
        if prob:
            ctx.violate('xml_escape: special character outside an entity', inp, e[:120], prob, key='xml-special-outside-entity')
        for place, b in zip(PLACES, back):
            if b == s:
                continue
            if not isinstance(b, tuple) and has_ws and b == normalised(s, place):
                # the five specials came back intact; only CR / TAB / LF were normalised by the parser: finding F9
                if known_reported < 3:
                    known_reported += 1
                    ctx.violate(f'xml_escape: white space changed by the parser on read-back ({place})', inp,
                                repr(b)[:120], repr(s)[:120], key=KNOWN_KEY)
                continue
            obs = b[1] if isinstance(b, tuple) else repr(b)[:120]
            ctx.violate(f'xml_escape: text not read back from {place}', inp, obs, repr(s)[:120], key=f'xml-roundtrip-{place}')


def run_hms(ctx, tu, corpus):
    cases = hms_cases(ctx, corpus)
    n_single = len(cases)
    for seq in hms_sequences(ctx):                # order kept, repeats kept
        cases += seq
    outs = None
    if ctx.driver:
        outs = ctx.driver.batch([f'c20 hms {frac_str(Fraction(v))} {1 if ms else 0}' for v, ms in cases])
    paths_seen = set()
    for i, (v, ms) in enumerate(cases):
        inp = {'kind': 'hms', 'v': show_num(v), 'ms': ms, 'value': repr(v)}
        secs = v / 1000.0 if ms else v            # "the equivalent seconds"
        q = Fraction(secs)
        try:
            text = tu.format_hms(v, True) if ms else tu.format_hms(v)
        except Exception as ex:
            ctx.count(('hms', show_num(v), ms), 'hms:raised')
            ctx.violate('format_hms raised', inp, repr(ex), 'a text', key='hms-raised')
            continue
        prob, form = hms_problem(text, q)
        if outs is not None:
            mpath, mtext, mback = outs[i].split(' ')
            path = mpath
            paths_seen.add((mpath, ms))
            if mtext != enc_str(text):
                ctx.disagree('formatHms model vs format_hms', inp, text, dec_str(mtext))
        else:
            path = form or 'unparsed'
        ctx.count(('hms', show_num(v), ms), f"hms:{path}{':ms' if ms else ''}{':seq' if i >= n_single else ''}", near_boundary(q))
        if i % 401 == 0:
            ctx.sample({'format_hms': repr(v), 'milliseconds': ms, 'text': text}, cap=12)
        # ---- property oracle ----
        if prob:
            ctx.violate('format_hms: ' + prob, inp, text, f'duration = {float(q)!r} s (exactly {frac_str(q)})',
                        key='hms-' + ('short' if q < 10 else 'long'))
        if ms:
            try:
                same = tu.format_hms(secs)
            except Exception as ex:
                same = repr(ex)
            if same != text:
                ctx.violate('format_hms: millisecond input prints a different text than the equivalent seconds', inp,
                            text, f'format_hms({secs!r}) = {same!r}', key='hms-ms')
        # the same duration as an exact rational (fractions.Fraction: a number the unchanged code rounds and formats like a
        # float); judged by the same statement-level oracle on the exact value
        if not ms and i % 7 == 3 and q >= 0:
            inpf = dict(inp, value=f'Fraction({q.numerator}, {q.denominator})', type='Fraction')
            try:
                textf = tu.format_hms(q)
            except Exception as ex:
                ctx.violate('format_hms raised (Fraction duration)', inpf, repr(ex), 'a text', key='hms-raised')
                continue
            probf, _ = hms_problem(textf, q)
            ctx.count(('hms-frac', show_num(v)), 'hms:Fraction', near_boundary(q))
            if probf:
                ctx.violate('format_hms: ' + probf + ' (Fraction duration)', inpf, textf, f'duration = exactly {frac_str(q)} s',
                            key='hms-' + ('short' if q < 10 else 'long'))
    # out-of-domain probe, made LAST so that no in-domain call has an out-of-domain call in its history
    try:
        neg0 = tu.format_hms(-0.0)
        if neg0 != tu.format_hms(0.0):
            ctx.out_of_domain.append({'format_hms(-0.0)': neg0, 'format_hms(0.0)': tu.format_hms(0.0),
                                      'why': 'negative zero is not a rational number; excluded from the domain'})
    except Exception as ex:
        ctx.out_of_domain.append({'format_hms(-0.0) raised': repr(ex)})
    if outs is not None:
        missing = [(p, m) for p in ('short', 'ss', 'm:ss', 'h:mm:ss') for m in (False, True) if (p, m) not in paths_seen]
        if missing:
            raise common.Infra(f'C20: model paths without input: {missing}')


# =================================================================================================
# Generated-code stream: Gen.xml_escape / Gen.format_hms (lean/Plotink/Gen/*.lean, regenerated from text_utils.py on
# every run - the definitions the C20_gen_* theorems are about) against the real functions, on this module's own
# inputs.  xml_escape: identical strings (no arithmetic).  format_hms: Rounding.ieee for the one float operation
# (ms / 1000.0) - identical strings, i.e. the binary64 quotient, round(), '.3f' and '{:02}' rendering all agree.
# =================================================================================================
GEN_FUNCTIONS = ['xml_escape', 'format_hms']
TRUSTED = TRUSTED + ['Gen.xml_escape / Gen.format_hms are regenerated from text_utils.py on every run and proved equal to the hand '
                     'models (C20_gen_bridge_xml, C20_gen_bridge_hms); not verified, validated by the generated-code stream of '
                     'this run: the translator (string subset) and the string/format library of Py.lean']


def gen_stream(ctx, tu, corpus):
    if not ctx.driver:
        ctx.notes.append('generated-code stream skipped: no driver')
        return
    import time
    t0 = time.time()
    xs = [s for s in xml_cases(ctx, corpus) if all(legal_cp(ord(c)) for c in s)]
    hs = [(v, ms) for v, ms in hms_cases(ctx, corpus) if in_domain(v, ms)]
    cap = ctx.n(15000)
    if len(xs) > cap:
        xs = xs[:500] + ctx.rng.sample(xs[500:], max(0, min(len(xs) - 500, cap - 500))) if len(xs) > 500 else xs[:max(cap, 0)]
    if len(hs) > cap:
        hs = hs[:500] + ctx.rng.sample(hs[500:], max(0, min(len(hs) - 500, cap - 500))) if len(hs) > 500 else hs[:max(cap, 0)]
    lines = ['gen xml_escape 15 s' + enc_str(s) for s in xs]
    lines += [f"gen format_hms 15 {common.pyval(v)} {'True' if ms else 'False'}" for v, ms in hs]
    outs = ctx.driver.batch(lines)
    bad = [0, 0]
    for s, g in zip(xs, outs):
        try:
            want = 's' + enc_str(tu.xml_escape(s))
        except Exception as ex:
            want = 'RAISE ' + type(ex).__name__
        ctx.count(('gen-xml', s), 'gen:xml_escape', False)
        if g != want and not (want.startswith('RAISE') and g == 'ERR'):
            bad[0] += 1
            ctx.disagree('Gen.xml_escape vs text_utils.xml_escape', {'kind': 'xml', 'gen': True, 's': enc_str(s), 'text': s[:60]},
                         want, g)
    for (v, ms), g in zip(hs, outs[len(xs):]):
        try:
            want = 's' + enc_str(tu.format_hms(v, True) if ms else tu.format_hms(v))
        except Exception as ex:
            want = 'RAISE ' + type(ex).__name__
        ctx.count(('gen-hms', show_num(v), ms), 'gen:format_hms', False)
        if g != want and not (want.startswith('RAISE') and g == 'ERR'):
            bad[1] += 1
            ctx.disagree('Gen.format_hms (Rounding.ieee) vs text_utils.format_hms',
                         {'kind': 'hms', 'gen': True, 'v': show_num(v), 'ms': ms, 'value': repr(v)},
                         dec_str(want[1:]) if want.startswith('s') else want, dec_str(g[1:]) if g.startswith('s') else g)
    ctx.notes.append(f'generated-code stream: Gen.xml_escape on {len(xs)} strings ({bad[0]} differ), Gen.format_hms (Rounding.ieee) on '
                     f'{len(hs)} durations ({bad[1]} differ), identical texts required; {time.time() - t0:.1f}s')
