"""C17 — Reported peak T3 rate brackets the true peak within one jerk increment.

Correspondence: Gen.max_rate_t3 (which calls Gen.rate_t3; Rounding.ieee, through the Lean driver) against the
real `ebb_calc.max_rate_t3`. Oracle (Python, from the property statement): the true peak max |r_k|, k = 1..T,
of the firmware recurrence by brute force for T <= 20000, and by the exact closed form (ends and the integers
next to the vertex of the rate parabola) beyond — the closed form is validated against brute force in the
same run. The reported value must be <= peak, >= |r_1|, >= |r_T| and >= peak - |jerk|.
"""
from fractions import Fraction
import mpmath
from .common import pyval, Infra
from .c02 import (M31, BRUTE_MAX_T, brute, rate_at, peak_closed, firmware_valid, gen_random, gen_extreme, gen_vertex, gen_bound,
                  small_box, tdiv, load_first)

GEN_FUNCTIONS = ['max_rate_t3', 'rate_t3']
RULE = ('one case per input tuple (T, rate, accel, jerk) inside the firmware-valid domain; generators place the vertex '
        't* = 1/2 - accel/jerk of the rate parabola at 1, 1.5, 2, 2.5, T/2, T-2.5, T-2, T-1.5, T-1, T (and one or two '
        'accel units to either side), before and after the move; jerk = 0; T in {1,2,3,4}; magnitudes at the edge of '
        'firmware validity; exhaustive small box; random. Non-trivial = jerk != 0 and T >= 3; distinct by input tuple')
TRUSTED = ['translator/pynum2lean.py (validated by this correspondence run)',
           'Rounding.ieee as model of binary64 division / subtraction (validated by this run)',
           'T3.Contract (round-to-nearest: exact on representable values, relative error 2^-53) as hypothesis on R; '
           'instance proved for Rounding.exact only',
           'math.ceil of a float = exact ceiling of its rational value']
ASSUMPTIONS = ['integer arguments; 1 <= T <= 2^32; every per-tick rate in the signed 32-bit range [-2^31, 2^31-1] and |accel| <= 2^31 '
               '(T3.ValidT3, spelled out by theorem C02_valid_iff)']
STAGED = ['nothing staged: C17_peak_spec, C17_attained, C17_ends, C17_shortfall, C17_limit are proved about Gen.max_rate_t3 '
          'for every R with T3.Contract R (binary64 t_mid, float window test and math.ceil included, not only exact '
          'arithmetic) on the whole firmware-valid domain',
          'Contract Rounding.ieee is not proved; validated differentially by this run']

SPOTS = ['end-only(T<=2)', 'jerk=0', 'vertex<=1', 'vertex in (1,1.5]', 'vertex in (1.5,2]', 'interior', 'vertex in [T-2,T-1.5)',
         'vertex in [T-1.5,T-1)', 'vertex in [T-1,T)', 'vertex>=T']


def spot(T, accel, jerk):
    if jerk == 0:
        return 'jerk=0'
    if T <= 2:
        return 'end-only(T<=2)'
    v = Fraction(1, 2) - Fraction(accel, jerk)
    if v <= 1:
        return 'vertex<=1'
    if v >= T:
        return 'vertex>=T'
    if v <= Fraction(3, 2):
        return 'vertex in (1,1.5]'
    if v >= T - 1:
        return 'vertex in [T-1,T)'
    if v >= T - Fraction(3, 2):
        return 'vertex in [T-1.5,T-1)'
    if v <= 2:
        return 'vertex in (1.5,2]'
    if v >= T - 2:
        return 'vertex in [T-2,T-1.5)'
    return 'interior'


def gen_cases(ctx):
    rng = ctx.rng
    cases = load_first(ctx, 'C17', 4)
    lim = 3 if ctx.tier == 'quick' and not ctx.tie_broken else 4
    cases += list(small_box(lim, 7))
    for _ in range(ctx.n(20000)):
        cases.append(gen_vertex(rng))
    for _ in range(ctx.n(5000)):
        cases.append(gen_random(rng))
    for _ in range(ctx.n(4000)):
        cases.append(gen_extreme(rng))
    for _ in range(ctx.n(3000)):     # a rate exactly on a bound of the signed 32-bit range
        cases.append(gen_bound(rng))
    for _ in range(ctx.n(1500)):
        T = rng.choice([1, 2, 3, rng.randint(1, 1000), rng.randint(1, 2 ** 20), rng.randint(1, 2 ** 32)])
        accel = rng.randint(-(2 * M31) // T - 1, (2 * M31) // T + 1)
        cases.append((T, rng.randint(-(M31 - 1), M31 - 1), accel, 0))
    return cases


def run(ctx):
    from plotink import ebb_calc
    rng = ctx.rng
    cases = gen_cases(ctx)
    lines = []
    for (T, rate, accel, jerk) in cases:
        lines.append(f'gen max_rate_t3 15 {T} {rate} {accel} {jerk}')
        lines.append(f'c17 peak {T} {rate} {accel} {jerk}' if T <= 40 else 'c17 none')
    outs = ctx.driver.batch(lines) if ctx.driver else [None] * len(lines)
    closed_checked = 0
    for i, c in enumerate(cases):
        T, rate, accel, jerk = c
        m_max, s_peak = outs[2 * i:2 * i + 2]
        inp = {'T': T, 'rate': rate, 'accel': accel, 'jerk': jerk}
        valid = firmware_valid(T, rate, accel, jerk)
        try:
            mpmath.mp.dps = rng.choice([5, 15, 30, 50])
            got = ebb_calc.max_rate_t3(T, rate, accel, jerk)
        except Exception as ex:
            if valid:
                ctx.count(c, 'raised')
                ctx.violate(f'max_rate_t3 raised {type(ex).__name__}', inp, repr(ex), 'a rate')
            else:
                ctx.out_of_domain.append({'input': inp, 'impl': repr(ex)})
            continue
        impl = pyval(got)
        if m_max is not None and impl != m_max:
            if valid:
                ctx.disagree('max_rate_t3', inp, impl, m_max)
            else:
                ctx.out_of_domain.append({'input': inp, 'impl': impl, 'model': m_max})
        if not valid:
            continue
        # ---- oracle ----
        r1, rT = rate_at(rate, accel, jerk, 1), rate_at(rate, accel, jerk, T)
        if T <= BRUTE_MAX_T:
            rates, accs, _ = brute(T, rate, accel, jerk)
            peak = max(abs(x) for x in rates)
            if peak != peak_closed(T, rate, accel, jerk) or rates[0] != r1 or rates[-1] != rT:
                raise Infra(f'harness bug: closed-form peak disagrees with brute force on {inp}')
            closed_checked += 1
        else:
            peak = peak_closed(T, rate, accel, jerk)
        if s_peak not in (None, 'BAD') and s_peak != str(peak):
            raise Infra(f'Lean Spec Fw.t3Peak and the Python oracle differ on {inp}: {s_peak} vs {peak}')
        path = spot(T, accel, jerk) + ('|brute' if T <= BRUTE_MAX_T else '|closed')
        ctx.count(c, path, jerk != 0 and T >= 3)
        ctx.sample({'input': inp, 'impl': impl, 'true_peak': peak, 'ends': [abs(r1), abs(rT)]})
        if type(got) is not int:
            ctx.violate('max_rate_t3 does not return an integer rate', inp, impl, 'an int')
            continue
        if got > peak:
            ctx.violate('reported maximum exceeds the largest per-tick |rate|', inp, impl, f'<= {peak}')
        if got < abs(r1):
            ctx.violate('reported maximum below |rate| at the first tick', inp, impl, f'>= {abs(r1)}')
        if got < abs(rT):
            ctx.violate('reported maximum below |rate| at the last tick', inp, impl, f'>= {abs(rT)}')
        if peak - got > abs(jerk):
            ctx.violate('reported maximum falls short of the true peak by more than |jerk|', inp, impl,
                        f'>= {peak} - {abs(jerk)} = {peak - abs(jerk)}')
    ctx.notes.append(f'closed-form peak validated against brute-force recurrence on {closed_checked} cases in this run')
    missing = [p for p in SPOTS if ctx.paths.get(p + '|brute', 0) == 0]
    if missing:
        raise Infra(f'vertex placements without input: {missing}')
    # ======== "sitecov" input stream - self-contained, implemented at the end of this file; keep this call last ========
    _sitecov_tail(ctx)


# ================================================================================================
# "sitecov" input stream (harness/sitecov.py, DESIGN 3c): every comparison of the CURRENT source of max_rate_t3 (and of
# rate_t3, which it calls) is driven to lhs == rhs, +-1 and both outcomes; the inputs found are pushed through `run`
# itself (same real code, driver comparison, oracle and ctx.count - additionally counted under the path 'sitecov').
# Self-contained block at the end of the file on purpose (the body of `run` is untouched except for its last line).
# ================================================================================================
def _sitecov_rerun(ctx, cases):
    """push `cases` through run() itself: gen_cases is replaced for the duration of the nested call"""
    g = globals()
    orig = g['gen_cases']
    g['gen_cases'] = lambda _ctx: list(cases)
    n_notes = len(ctx.notes)
    ctx._in_sitecov = True
    try:
        g['run'](ctx)
    finally:
        g['gen_cases'] = orig
        ctx._in_sitecov = False
    del ctx.notes[n_notes:]                       # the nested pass repeats the closing note of the module


def _sitecov_tail(ctx):
    import os
    if getattr(ctx, '_in_sitecov', False) or getattr(ctx, 'replay', None) or os.environ.get('SITECOV_OFF'):
        return
    from . import sitecov
    from plotink import ebb_calc
    rng = ctx.rng
    # seeds: a sample of this module's own generated in-domain inputs
    pool = [gen_random(rng) for _ in range(400)]
    if not os.environ.get('SITECOV_ONLY'):
        pool += [gen_vertex(rng) for _ in range(300)] + [gen_extreme(rng) for _ in range(100)]
    pool = [c for c in pool if firmware_valid(*c)]
    seeds = rng.sample(pool, min(len(pool), 250))
    saved = mpmath.mp.dps
    sitecov.stream(ctx, 'max_rate_t3', ebb_calc.max_rate_t3, seeds, rerun=lambda cs: _sitecov_rerun(ctx, cs),
                   moves=sitecov.Moves(domain=lambda c: all(type(x) is int for x in c) and firmware_valid(*c),
                                       lo={0: 1}, hi={0: 2 ** 32}), budget=3000)
    mpmath.mp.dps = saved


def _sitecov_only_setup():
    # EXPERIMENT ONLY (measures what the sitecov stream finds on its own): the vertex-placement generators, the small box
    # and the corpus are disabled - inputs = the random family + the sitecov stream; the placement-coverage requirement,
    # which the random family alone does not meet, becomes a note.
    g = globals()
    full_run = g['run']

    def gen_cases_random(ctx):
        return [gen_random(ctx.rng) for _ in range(ctx.n(3000))]

    def run_tolerant(ctx):
        try:
            full_run(ctx)
        except Infra as ex:
            if 'placements without input' not in str(ex):
                raise
            if not getattr(ctx, '_in_sitecov', False):
                ctx.notes.append('SITECOV_ONLY: ' + str(ex))
                _sitecov_tail(ctx)
    g['gen_cases'], g['run'] = gen_cases_random, run_tolerant


import os as _os   # noqa: E402
if _os.environ.get('SITECOV_ONLY'):
    _sitecov_only_setup()
