"""C03 - step-limited (LM) move duration is the first tick that exhausts the step budget.

  implementation : ebb_calc.calculate_lm, ebb_motion.moveTimeLM             (from PLOTINK_REPO)
  generated      : Gen.calculate_lm / Gen.moveTimeLM with Rounding.ieee      (driver: `gen ...`)
  model          : Plotink.C03.calculate_lm (exact integers, Nat.sqrt)        (driver: `c03 model ...`)
  spec           : Fw.lmSpec by simulation                                    (driver: `c03 spec ...`)
  oracle (Python, independent of the Lean side, written from the property statement):
      brute-force simulation of the firmware recurrence (first tick with taken >= |steps|), and for long
      moves the first tick found by bisection on the closed form of `taken` (monotone in t); the closed form
      is validated against the brute-force simulation in the same run.
"""
import json, os, math
from .common import Infra, VERIF
from . import sitecov

GEN_FUNCTIONS = ['calculate_lm', 'moveTimeLM', 'move_dist_lt']
RULE = ('structured generators per model path (constant rate; no reversal; reversal at tau=0,1,2,>=3 with first-tick '
        'rate zero / non-zero; budget reached before, at and after the reversal; steps before the reversal 0,1,k,=budget; '
        'exact boundary hits: accumulator solved so that the total lands on/next to a multiple of 2^31 at a chosen tick; '
        'symmetric reversals returning to the start value; near-double roots; legacy negative steps; maximal magnitudes; '
        'very long moves (2^20..2^31 ticks, |accel| tiny, with and without reversal: accel*t^2, rate*t and the total beyond 2^53) '
        'whose exact total at the reversal / last / return tick is solved to lie on or within a few binary64 spacings of a '
        'multiple of 2^31; '
        'accumulator given/clear), an exhaustive small box, and random cases; a case is non-trivial when it is inside '
        'the property domain and not one of the (0,0,0) requests; distinct by input tuple; plus the "sitecov" stream: every '
        'comparison of the CURRENT calculate_lm source driven to lhs == rhs, +-1 and both outcomes (harness/sitecov.py)')
TRUSTED = ['translator/pynum2lean.py and Rounding.ieee (validated by this correspondence run: Gen(ieee) = CPython/mpmath on every case)',
           'exact integer model C03.calculate_lm tied to the regenerated source by the proved bridge C03_bridge (under Contract R) and, independently, by correspondence (model = Gen(ieee) = implementation on every case)',
           'EBB firmware behaviour = the recurrence of Model/Firmware.lean (taken from the property statement)',
           'modelled not verified: mpmath round-to-nearest arithmetic and sqrt, binary64 division in t_rev']
ASSUMPTIONS = ['domain ValidLM: |steps| <= 2^31, start accumulator in [0,2^31) (or "clear"), the budget is reached, '
               'every per-tick |rate| <= 2^31-1 up to the first tick',
               'C03_model and corollaries are about the exact integer model; C03_bridge/C03_main transfer them to the generated '
               'definitions under the rounding contract `Contract R` inside the 32-bit magnitude envelope BridgeDom',
               'envelope |rate|, |accel| <= 2^32 (the LM command fields are 32-bit; same envelope as C01): outside it - possible in '
               'the literal domain only for 1-tick moves with a huge odd acceleration, e.g. accel = 2^54+3 - the code computes '
               'int(accel/2) in binary64 and is not exact; such inputs are not generated and not claimed']
STAGED = []   # nothing staged: the numeric bridge (C03_bridge / C03_main / C03_main_moveTimeLM) is proved for every branch
# and the full rounding contract is proved for the concrete instance (C03_contract_ieee : Contract Rounding.ieee).

P = 2 ** 31
BF_CAP = 4000        # brute-force simulation on every case whose first tick is at most this
BF_LONG = 200000     # ... and on a sample of longer ones up to this
BF_HUGE = 6 * 10 ** 6  # ... and on one (quick) / three very long ones up to this (about 0.45 s per million ticks)


# ----------------------------------------------------------------------------------------------
# oracle: the firmware recurrence, from the property statement
# ----------------------------------------------------------------------------------------------
def tdiv2(a):
    return a // 2 if a >= 0 else -((-a) // 2)


def clear_start(rate, accel):
    """2^31-1 when the first non-zero motion is backward, else 0 (ticks 1, 2 decide for an arithmetic progression)"""
    r = rate - tdiv2(accel)
    for _ in (1, 2):
        r += accel
        if r < 0:
            return P - 1
        if r > 0:
            return 0
    return 0


def brute_first_tick(n, rate, accel, a0, max_t):
    """simulate tick by tick: -> ('ok', t, pos, acc) | ('range', k) | ('unreached',)"""
    r = rate - tdiv2(accel)
    tot = a0
    p_prev = tot // P
    p0 = p_prev
    taken = 0
    for k in range(1, max_t + 1):
        r += accel
        if r > P - 1 or r < -(P - 1):
            return ('range', k)
        tot += r
        p = tot // P
        taken += abs(p - p_prev)
        p_prev = p
        if taken >= n:
            return ('ok', k, p - p0, tot % P)
    return ('unreached',)


class Move:
    """closed forms for a move with positive budget (after the legacy mirroring)"""

    def __init__(self, n, rate, accel, a0):
        self.n, self.rate, self.accel, self.a0 = n, rate, accel, a0
        self.r0 = rate - tdiv2(accel)
        # reversal tick: last tick k >= 1 whose rate still has the sign of the first motion (or is zero)
        r1, r2 = self.r(1), self.r(2)
        s0 = (r1 > 0) - (r1 < 0) or (r2 > 0) - (r2 < 0)
        self.dir0 = s0
        sa = (accel > 0) - (accel < 0)
        if s0 == 0 or sa == 0 or sa == s0:
            self.tau = None
        else:
            tau = (-self.r0) // accel          # floor(-r0/accel)
            if not (tau >= 1 and self.r(tau) * s0 >= 0 and self.r(tau + 1) * s0 < 0):
                raise Infra(f'oracle: reversal tick wrong for {(n, rate, accel, a0)}: {tau}')
            self.tau = tau

    def r(self, k):
        return self.r0 + k * self.accel

    def tot(self, t):
        return self.a0 + t * self.r0 + self.accel * t * (t + 1) // 2

    def pos(self, t):
        return self.tot(t) // P

    def taken(self, t):
        if self.tau is None or t <= self.tau:
            return abs(self.pos(t) - self.pos(0))
        pt = self.pos(self.tau)
        return abs(pt - self.pos(0)) + abs(self.pos(t) - pt)

    def first_tick(self):
        if self.rate == 0 and self.accel == 0:
            return None
        hi = 1
        while self.taken(hi) < self.n:
            hi *= 2
            if hi > 2 ** 80:
                return None
        lo = hi // 2          # taken(lo) < n or lo == 0
        while hi - lo > 1:
            mid = (lo + hi) // 2
            if self.taken(mid) >= self.n:
                hi = mid
            else:
                lo = mid
        return hi

    def rates_ok(self, t):
        return max(abs(self.r(1)), abs(self.r(t))) <= P - 1


def required(steps, rate, accel, accum):
    """-> (status, triple, move, T): status in 'degenerate' | 'ok' | 'out-of-domain:<why>'"""
    if steps == 0 or (rate == 0 and accel == 0) or (steps < 0 and rate < 0):
        return 'degenerate', (0, 0, 0), None, 0
    if abs(steps) > P:
        return 'out-of-domain:steps', None, None, 0
    n = abs(steps)
    if steps < 0:
        rate, accel = -rate, -accel
    a0 = clear_start(rate, accel) if accum == 'clear' else accum
    if not 0 <= a0 < P:
        return 'out-of-domain:accumulator', None, None, 0
    mv = Move(n, rate, accel, a0)
    t = mv.first_tick()
    if t is None:
        return 'out-of-domain:unreached', None, mv, 0
    if not mv.rates_ok(t):
        return 'out-of-domain:rate-range', None, mv, t
    return 'ok', (t, mv.pos(t) - mv.pos(0), mv.tot(t) % P), mv, t


# ----------------------------------------------------------------------------------------------
# generators
# ----------------------------------------------------------------------------------------------
def rnd_mag(rng, hi_bits=31):
    b = rng.randint(0, hi_bits)
    return rng.randint(0, 2 ** b)


def pick_accel(rng):
    m = rng.random()
    if m < 0.2:
        a = rng.randint(1, 20)
    elif m < 0.4:
        a = rng.randint(1, 10 ** 5)
    elif m < 0.75:
        a = max(1, rnd_mag(rng, 31))
    else:
        a = rng.randint(2 ** 24, 2 ** 31)
    return a if rng.random() < 0.5 else -a


def rand_acc(rng):
    return rng.choice(['clear', 'clear', 'clear', 0, P - 1, 1, P - 2, rng.randint(0, P - 1), rng.randint(0, P - 1)])


def solve_acc(rate, accel, t, residue):
    """start accumulator in [0,2^31) making tot_t = residue (mod 2^31)"""
    mv = Move(1, rate, accel, 0)
    return (residue - mv.tot(t)) % P


def budget_choices(rng, mv):
    """budgets around the structural points of the move (steps before the reversal etc.)"""
    out = [1, 2, rng.randint(1, 9)]
    if mv.tau is not None:
        s = mv.taken(mv.tau)
        out += [s - 1, s, s + 1, s + 2, 2 * s - 1, 2 * s, 2 * s + 1, s + rng.randint(1, 50), max(1, s - rng.randint(0, 5))]
        if mv.tau > 1:
            out += [mv.taken(mv.tau - 1), mv.taken(mv.tau + 1), mv.taken(mv.tau + 1) + 1]
    return [b for b in out if 1 <= b <= P]


def gen_reversal(rng, out):
    """rate and accel of different sign: reversal at tau = 0, 1, 2, >= 3; first-tick rate zero; all budget positions"""
    accel = pick_accel(rng)
    A = abs(accel)
    tau = rng.choice([0, 0, 1, 1, 1, 2, 2, 3, 3, rng.randint(4, 12), rng.randint(4, 400), rng.randint(4, 2 ** 16)])
    tau = min(tau, (P - 1) // A)
    delta = rng.choice([0, 0, 1, A - 1, A // 2, rng.randint(0, A - 1)]) % A
    # r0 = -(tau*accel + sign*delta): floor(-r0/accel) = tau
    sg = 1 if accel > 0 else -1
    r0 = -(tau * accel + sg * delta)
    rate = r0 + tdiv2(accel)
    if abs(r0 + accel) > P - 1:
        return
    acc = rand_acc(rng)
    a0 = clear_start(rate, accel) if acc == 'clear' else acc
    mv = Move(1, rate, accel, a0)
    for n in rng.sample(budget_choices(rng, mv), 3):
        out.append((n, rate, accel, acc))


def gen_boundary(rng, out):
    """EXACT boundary hits: choose a tick T, solve for the accumulator that puts tot_T on / next to a multiple of 2^31,
    budget = steps taken at T (and one more / one fewer)"""
    accel = pick_accel(rng) if rng.random() < 0.85 else 0
    A = abs(accel)
    mode = rng.random()
    if accel == 0:
        rate = rng.choice([1, -1, 2, -3, rng.randint(-100, 100), rng.randint(-(P - 1), P - 1), P - 1, -(P - 1), 2 ** 30, -2 ** 30]) or 5
        T = rng.choice([1, 2, 3, rng.randint(1, 50), rng.randint(1, 10 ** 6)])
    elif mode < 0.6:
        # reversal; T before, at, or after it
        tau = rng.choice([1, 2, 3, rng.randint(2, 30), rng.randint(2, 3000), rng.randint(2, 2 ** 17)])
        tau = max(1, min(tau, (P - 1) // A - 1))
        delta = rng.choice([0, 1, A - 1, rng.randint(0, A - 1)]) % A
        sg = 1 if accel > 0 else -1
        r0 = -(tau * accel + sg * delta)
        rate = r0 + tdiv2(accel)
        T = rng.choice([tau, tau + 1, tau - 1, 2 * tau, 2 * tau + 1, 2 * tau - 1, rng.randint(1, 3 * tau + 3), 1, 2])
        T = max(1, T)
    else:
        rate = rng.choice([0, 1, -1, rng.randint(-1000, 1000), rng.randint(-(P - 1), P - 1)])
        T = rng.choice([1, 2, 3, rng.randint(1, 40), rng.randint(1, 5000)])
    if max(abs(rate - tdiv2(accel) + accel), abs(rate - tdiv2(accel) + T * accel)) > P - 1:
        return
    residue = rng.choice([0, 0, P - 1, P - 1, 1, P - 2, 2])
    a0 = solve_acc(rate, accel, T, residue)
    acc = a0
    mv = Move(1, rate, accel, a0)
    base = mv.taken(T)
    for n in {base, base + 1, max(1, base - 1)}:
        if 1 <= n <= P:
            out.append((n, rate, accel, acc))
    # the same move with "clear" when the solved accumulator happens to be the cleared one is rare; add the cleared twin
    if rng.random() < 0.3:
        out.append((max(1, base), rate, accel, 'clear'))


def gen_symmetric(rng, out):
    """symmetric reversal that returns exactly to the start value at tick T: sum_{k<=T} r_k = 0"""
    accel = pick_accel(rng)
    T = rng.choice([2, 3, 4, 5, rng.randint(2, 60), rng.randint(2, 4000), rng.randint(2, 2 ** 17)])
    if (accel * (T + 1)) % 2:
        T += 1
    r0 = -accel * (T + 1) // 2
    if abs(r0 + accel) > P - 1:
        return
    rate = r0 + tdiv2(accel)
    acc = rng.choice(['clear', 'clear', 0, P - 1, rng.randint(0, P - 1)])
    a0 = clear_start(rate, accel) if acc == 'clear' else acc
    mv = Move(1, rate, accel, a0)
    s = mv.taken(mv.tau) if mv.tau else 0
    for n in {max(1, s), s + 1, 2 * s + 1, max(1, 2 * s), 2 * s + 2, 1}:
        if 1 <= n <= P:
            out.append((n, rate, accel, acc))


def gen_double_root(rng, out):
    """near-double roots: the turning point of the total lands on / next to a step boundary"""
    accel = pick_accel(rng)
    A = abs(accel)
    tau = rng.choice([1, 2, 3, rng.randint(2, 100), rng.randint(2, 5000), rng.randint(2, 2 ** 17)])
    tau = max(1, min(tau, (P - 1) // A - 1))
    delta = rng.choice([0, 1, A - 1, A // 2, rng.randint(0, A - 1)]) % A
    sg = 1 if accel > 0 else -1
    r0 = -(tau * accel + sg * delta)
    rate = r0 + tdiv2(accel)
    if abs(r0 + accel) > P - 1:
        return
    residue = rng.choice([0, 1, 2, P - 1, P - 2, rng.randint(0, 40), P - 1 - rng.randint(0, 40)])
    a0 = solve_acc(rate, accel, tau, residue)
    mv = Move(1, rate, accel, a0)
    s = mv.taken(tau)
    for n in {max(1, s), s + 1, max(1, s - 1)}:
        if n <= P:
            out.append((n, rate, accel, a0))


def half_ulp(x):
    """half the spacing of binary64 numbers at magnitude |x|, rounded up to an integer (0 while every integer and half-integer is exact)"""
    x = abs(x)
    if x < 2 ** 52:
        return 0
    return 1 << max(0, x.bit_length() - 54)


def gen_long_reversal(rng, out):
    """VERY long reversing moves with a tiny |accel| (reversal after 2^20 .. 2^31 ticks, so accel*tau^2, rate*tau and the
    total itself exceed 2^53 - beyond exact binary64), with the start accumulator SOLVED so that the exact total at a
    structural tick (the reversal tick tau, tau+-1, the return tick ~2 tau, a random tick) lands on / within a few
    binary64 spacings of a multiple of 2^31. Budgets around the steps taken at that tick and at the reversal.
    Judged by the closed form + bisection (no tick-by-tick simulation is needed for millions of ticks)."""
    m = rng.random()
    if m < 0.45:
        A = rng.randint(1, 511)            # accel*tau^2 can exceed 2^53 only below 2^9 (|rate| <= 2^31-1)
    elif m < 0.6:
        A = rng.choice([1, 1, 2, 3, 255, 257, 511, 509, rng.randint(1, 15)])
    elif m < 0.85:
        A = rng.randint(1, 2 ** 12)        # neighbouring class: rate*tau / the total beyond 2^53
    else:
        A = rng.randint(1, 2 ** 16)
    if rng.random() < 0.6:
        A |= 1                             # odd: the half-acceleration term is a proper half-integer
    sg = rng.choice([1, -1])
    accel = sg * A
    tau_max = (P - 1) // A - 1
    if tau_max < 4:
        return
    lo = min(tau_max, max(4, math.isqrt(2 ** 53 // A)))         # accel*tau^2 >= 2^53 from here on
    mm = rng.random()
    if mm < 0.55:
        tau = rng.randint(lo, tau_max)
    elif mm < 0.75:
        tau = tau_max - rng.randint(0, 1000)
    elif mm < 0.9:
        tau = min(tau_max, lo + rng.randint(-1000, 1000))
    else:
        tau = rng.randint(min(tau_max, 2 ** 16), tau_max)
    tau = max(4, min(tau, tau_max))
    if rng.random() < 0.6:
        tau |= 1
        if tau > tau_max:
            tau -= 2
    delta = rng.choice([0, 0, 1, A - 1, A // 2, rng.randint(0, A - 1)]) % A
    r0 = -(tau * accel + sg * delta)       # floor(-r0/accel) = tau
    rate = r0 + tdiv2(accel)
    if abs(r0 + accel) > P - 1 or abs(rate) > P - 1:
        return
    T = rng.choice([tau, tau, tau, tau, tau + 1, tau - 1, 2 * tau, 2 * tau + 1, 2 * tau - 1, rng.randint(1, 3 * tau)])
    if abs(r0 + T * accel) > P - 1:
        T = tau
    base = Move(1, rate, accel, 0)
    # spacing of binary64 at the magnitudes involved at tick T (half-acceleration term, rate term, total)
    e = max(half_ulp(accel * T * T // 2), half_ulp(r0 * T), half_ulp(base.tot(T)))
    off = rng.choice([0, 0, 0, 1, -1, 2, -2, e, -e, e + 1, -(e + 1), max(0, e - 1), -max(0, e - 1), 2 * e, -2 * e,
                      rng.randint(-2 * e - 2, 2 * e + 2), rng.randint(-4 * e - 4, 4 * e + 4)])
    side = rng.choice([0, 0, P - 1, P - 1, rng.choice([1, P - 2])])   # "on the boundary" seen from either direction
    a0 = (side + off - base.tot(T)) % P
    mv = Move(1, rate, accel, a0)
    s = mv.taken(tau)
    sT = mv.taken(T)
    choices = [s, s, s + 1, s - 1, s + 2, s + rng.randint(1, 9), s + rng.randint(1, 200), s - rng.randint(1, 9), 2 * s, 2 * s + 1, 2 * s - 1,
               sT, sT + 1, sT - 1, s + rng.randint(1, max(1, s)), rng.randint(1, max(1, s))]
    choices = [b for b in choices if 1 <= b <= P]
    for n in rng.sample(choices, min(len(choices), 3)):
        out.append((n, rate, accel, a0))
    if rng.random() < 0.15:
        # the cleared twin (start value 0 / 2^31-1): no freedom to land on a boundary, kept for the magnitude class alone
        out.append((rng.choice(choices), rate, accel, 'clear'))


def gen_long_norev(rng, out):
    """VERY long moves WITHOUT a reversal and with a tiny |accel| (2^20 .. 2^31 ticks: accel*T^2, rate*T and the total
    exceed 2^53), the start accumulator solved so that the exact total at the chosen last tick T lands on / within a few
    binary64 spacings of a multiple of 2^31; budget = steps taken at T, one more, one fewer."""
    m = rng.random()
    A = rng.randint(1, 511) if m < 0.6 else rng.choice([1, 1, 2, 3, rng.randint(1, 15), rng.randint(1, 2 ** 12)])
    if rng.random() < 0.5:
        A |= 1
    sg = rng.choice([1, -1])
    accel = sg * A
    t_max = (P - 1) // A - 2
    if t_max < 4:
        return
    lo = min(t_max, max(4, math.isqrt(2 ** 53 // A)))
    T = rng.choice([rng.randint(lo, t_max), rng.randint(lo, t_max), t_max - rng.randint(0, 1000), rng.randint(min(t_max, 2 ** 16), t_max)])
    if rng.random() < 0.5:
        T |= 1
    T = max(4, min(T, t_max))
    # start rate of the same sign as accel (or zero), small enough for the rate at tick T to stay in range
    room = P - 1 - A * (T + 1)
    if room < 0:
        return
    rate = sg * rng.choice([0, 0, 1, rng.randint(0, min(room, 1000)), rng.randint(0, room), room])
    r0 = rate - tdiv2(accel)
    if max(abs(r0 + accel), abs(r0 + T * accel)) > P - 1:
        return
    base = Move(1, rate, accel, 0)
    if base.tau is not None:
        return
    e = max(half_ulp(accel * T * T // 2), half_ulp(r0 * T), half_ulp(base.tot(T)))
    off = rng.choice([0, 0, 0, 1, -1, 2, -2, e, -e, e + 1, -(e + 1), 2 * e, -2 * e, rng.randint(-2 * e - 2, 2 * e + 2),
                      rng.randint(-4 * e - 4, 4 * e + 4)])
    side = rng.choice([0, 0, P - 1, P - 1, rng.choice([1, P - 2])])
    a0 = (side + off - base.tot(T)) % P
    mv = Move(1, rate, accel, a0)
    sT = mv.taken(T)
    for n in {sT, sT + 1, max(1, sT - 1)}:
        if 1 <= n <= P:
            out.append((n, rate, accel, a0))
    if rng.random() < 0.2:
        out.append((max(1, sT), rate, accel, 'clear'))


def gen_const(rng, out):
    rate = rng.choice([1, -1, 2, -2, 3, rng.randint(-50, 50), rng.randint(-10 ** 6, 10 ** 6), rng.randint(-(P - 1), P - 1),
                       P - 1, -(P - 1), P, -P, 2 ** 30, -2 ** 30]) or 7
    n = rng.choice([1, 1, 2, 3, rng.randint(1, 1000), rnd_mag(rng, 31) or 1, P, P - 1])
    out.append((n, rate, 0, rand_acc(rng)))


def gen_norev(rng, out):
    """rate and accel of the same sign, or rate = 0: no reversal at all"""
    accel = pick_accel(rng)
    sg = 1 if accel > 0 else -1
    rate = sg * rng.choice([0, 0, 1, rng.randint(0, 1000), rnd_mag(rng, 30)])
    n = rng.choice([1, 1, 2, 3, rng.randint(1, 500), rnd_mag(rng, 20) or 1])
    out.append((n, rate, accel, rand_acc(rng)))


def gen_maximal(rng, out):
    """maximal magnitudes: rates at +-(2^31-1), |accel| up to 2^31 and beyond, budgets up to 2^31"""
    m = rng.random()
    if m < 0.3:
        accel = rng.choice([1, -1, 2, -2, 3, -3, rng.randint(-9, 9)])
        rate = rng.choice([P - 1, -(P - 1), P - 2, -(P - 2), P - 1 - abs(accel), -(P - 1) + abs(accel)])
        n = rng.choice([1, 2, rng.randint(1, 10 ** 5), rnd_mag(rng, 31) or 1, P])
    elif m < 0.6:
        accel = rng.choice([P, -P, P - 1, -(P - 1), 2 * P - 2, -(2 * P - 2), rng.randint(2 ** 30, 2 ** 31), -rng.randint(2 ** 30, 2 ** 31)])
        rate = rng.choice([0, tdiv2(accel) - accel, tdiv2(accel) - accel + rng.choice([-1, 1]), -accel, rng.randint(-(P - 1), P - 1),
                           tdiv2(accel) - 2 * accel, tdiv2(accel) - 3 * accel])
        n = rng.choice([1, 1, 2, 3])
    else:
        accel = pick_accel(rng)
        sg = 1 if accel > 0 else -1
        rate = -sg * (P - 1) + tdiv2(accel) - accel + rng.choice([0, 0, sg, 2 * sg])    # r_1 = -/+ (2^31-1): fastest start against accel
        n = rng.choice([1, 2, rng.randint(1, 2000), rnd_mag(rng, 31) or 1, P])
    out.append((n, rate, accel, rand_acc(rng)))


def gen_trev(rng, out):
    """binary64 `t_rev = floor(0.5 - rate/accel)` under stress: large |accel|, (accel - 2 rate)/(2 accel) on / next to an integer"""
    A = rng.randint(2 ** 20, 2 ** 32 - 2)
    sg = rng.choice([1, -1])
    accel = sg * A
    tau = rng.randint(0, min(40, (P - 1) // A + 1))
    N = 2 * A * tau + rng.choice([0, 1, 2, -1, -2, 2 * A - 1, 2 * A - 2, A, A - 1, A + 1])
    d = (A - N) if sg > 0 else (N - A)
    if d % 2:
        return
    rate = d // 2
    out.append((rng.choice([1, 2, 3, rng.randint(1, 50)]), rate, accel, rand_acc(rng)))


def gen_random(rng, out):
    mode = rng.random()
    if mode < 0.25:
        accel = rng.randint(-20, 20)
    elif mode < 0.5:
        accel = rng.randint(-10 ** 5, 10 ** 5)
    elif mode < 0.8:
        accel = rng.randint(-10 ** 8, 10 ** 8)
    else:
        accel = rng.randint(-2 ** 31, 2 ** 31)
    m2 = rng.random()
    h = tdiv2(accel)
    if m2 < 0.15:
        rate = h - accel + rng.choice([0, 0, 1, -1])
    elif m2 < 0.3:
        rate = rng.randint(-100, 100)
    elif m2 < 0.5 and accel != 0:
        k = rng.randint(1, 300)
        rate = h - k * accel + rng.choice([0, 0, 1, -1, rng.randint(-abs(accel), abs(accel))])
    else:
        rate = rng.randint(-(P - 1), P - 1)
    steps = rng.choice([1, 1, 2, 3, rng.randint(1, 20), rng.randint(1, 500)])
    out.append((steps, rate, accel, rand_acc(rng)))


def small_box():
    """exhaustive small box in 'step units': rates and accelerations are small multiples of 2^29 (+-1), so that every
    branch (reversal at tau = 0..3, steps in both directions, exact hits) occurs with first ticks below ~20"""
    out = []
    U = 2 ** 29
    for a in range(-3, 4):
        for ea in (0, 1):
            accel = a * U + ea
            for r in range(-7, 8):
                for er in (0, -1):
                    rate = r * U + er
                    if abs(rate) > P - 1:
                        continue
                    for n in (1, 2, 3, 5):
                        for acc in ('clear', 0, P - 1):
                            out.append((n, rate, accel, acc))
    # tiny integers, including the two pinned defect witnesses' neighbourhood
    for accel in range(-9, 10):
        for rate in range(-12, 13):
            out.append((1, rate, accel, 'clear'))
            out.append((-1, rate, accel, 'clear'))
    for steps in (0, -1, 1):
        for rate in (-1, 0, 1):
            for accel in (-1, 0, 1):
                for acc in ('clear', 0, 5):
                    out.append((steps, rate, accel, acc))
    return out


def legacy_twist(rng, case):
    """the legacy form of a case: negative steps with the mirrored rate/accel (rate must be >= 0 to be accepted)"""
    n, rate, accel, acc = case
    return (-n, -rate, -accel, acc)


def load_corpus():
    d = os.path.join(VERIF, 'corpus', 'C03')
    out = []
    if os.path.isdir(d):
        for fn in sorted(os.listdir(d)):
            if fn.endswith('.jsonl'):
                for line in open(os.path.join(d, fn)):
                    line = line.strip()
                    if line and not line.startswith('#'):
                        j = json.loads(line)
                        out.append((j['steps'], j['rate'], j['accel'], j['accum']))
    return out


def load_replay(path):
    out = []
    try:
        j = json.load(open(path))
        for v in j.get('violations', []) + j.get('model_vs_implementation', []):
            i = v.get('input', {})
            if 'steps' in i:
                out.append((i['steps'], i['rate'], i['accel'], i['accum']))
    except Exception as ex:
        raise Infra(f'cannot read replay {path}: {ex}')
    return out


SITECOV_ONLY = bool(os.environ.get('SITECOV_ONLY'))   # experiment: only the random family + the sitecov stream
SITECOV_OFF = bool(os.environ.get('SITECOV_OFF'))     # experiment control: no sitecov stream
ENV = 2 ** 32                                         # magnitude envelope of the command fields (see ASSUMPTIONS)


def in_domain(c):
    """the property's quantifier on (steps, rate, accel, accum), inside the claimed envelope"""
    steps, rate, accel, acc = c
    if not all(type(x) is int for x in (steps, rate, accel)) or not (acc == 'clear' or type(acc) is int):
        return False
    if abs(rate) > ENV or abs(accel) > ENV:
        return False
    return required(steps, rate, accel, acc)[0] in ('ok', 'degenerate')


def build_cases(ctx):
    rng = ctx.rng
    cases = []
    if SITECOV_ONLY:
        if getattr(ctx, 'replay', None):
            cases += load_replay(ctx.replay)
        tmp = []
        for _ in range(ctx.n(3000)):
            gen_random(rng, tmp)
        ctx.notes.append('SITECOV_ONLY: corpus, small box and the structured boundary generators are disabled; inputs = the '
                         'random family + the sitecov stream')
        return cases + tmp, len(cases)
    cases += load_corpus()
    if getattr(ctx, 'replay', None):
        cases += load_replay(ctx.replay)
    ncorp = len(cases)
    cases += small_box()
    fams = [(gen_reversal, 2700), (gen_boundary, 2700), (gen_symmetric, 1000), (gen_double_root, 1500), (gen_const, 900),
            (gen_norev, 900), (gen_maximal, 1200), (gen_trev, 1200), (gen_long_reversal, 700), (gen_long_norev, 300), (gen_random, 4500)]
    for g, q in fams:
        tmp = []
        for _ in range(ctx.n(q)):
            g(rng, tmp)
        for c in tmp:
            cases.append(c)
            if rng.random() < 0.12:
                cases.append(legacy_twist(rng, c))
    # a few requests that cannot move / legacy with negative rate
    for _ in range(ctx.n(40)):
        cases.append((rng.choice([0, -rng.randint(1, 9)]), -rng.randint(0, 10 ** 6), rng.randint(-10 ** 6, 10 ** 6), rand_acc(rng)))
    return cases, ncorp


# ----------------------------------------------------------------------------------------------
def inp(c):
    return {'steps': c[0], 'rate': c[1], 'accel': c[2], 'accum': c[3]}


def classify(mv, steps):
    """oracle-side class of a failing input (for the violation key)"""
    if mv is None:
        return 'degenerate'
    if mv.accel == 0:
        return 'constant-rate'
    if mv.tau is None:
        return 'no-reversal'
    if mv.tau == 1:
        return 'reversal-right-after-first-tick'
    return 'reversal'


def run(ctx):
    import mpmath
    from plotink import ebb_calc, ebb_motion
    rng = ctx.rng
    cases, ncorp = build_cases(ctx)
    # de-duplicate, keep order (corpus first)
    seen, uniq = set(), []
    for c in cases:
        if c not in seen:
            seen.add(c)
            uniq.append(c)
    cases = uniq
    st = {'bf_checked': 0, 'bf_long': 0, 'bf_huge': 0, 'n_feed': 0, 'n_skipfeed': 0, 'valid': []}

    def pipeline(cases, ncorp):
        """driver (Gen, model, Spec), oracle self-validation, real code, correspondence, oracle - for one list of cases"""
        dps_of = [rng.choice([5, 15, 30, 50]) for _ in cases]
        reqs = [required(*c) for c in cases]

        lines, slots = [], []
        if ctx.driver:
            for i, (c, dps, rq) in enumerate(zip(cases, dps_of, reqs)):
                s, r, a, acc = c
                lines.append(f'gen calculate_lm {dps} {s} {r} {a} {acc}'); slots.append((i, 'gen'))
                lines.append(f'c03 model {s} {r} {a} {acc}'); slots.append((i, 'model'))
                if acc == 'clear':
                    lines.append(f'gen moveTimeLM {dps} {r} {s} {a}'); slots.append((i, 'gentime'))
                if rq[0] == 'ok' and rq[3] <= 600:
                    lines.append(f'c03 spec {s} {r} {a} {acc} {rq[3] + 3}'); slots.append((i, 'spec'))
                if rq[0] == 'ok' and rq[3] <= 12 and i % 7 == 0:
                    lines.append(f'c03 specdef {s} {r} {a} {acc} {rq[3] + 2}'); slots.append((i, 'specdef'))
            answers = ctx.driver.batch(lines)
        else:
            answers = []
        drv = [dict() for _ in cases]
        for (i, k), ans in zip(slots, answers):
            drv[i][k] = ans

        for i, (c, dps, rq) in enumerate(zip(cases, dps_of, reqs)):
            steps, rate, accel, acc = c
            status, want, mv, T = rq
            I = inp(c)
            # ---- oracle self-validation: closed form + bisection against the tick-by-tick simulation ----
            if status == 'ok' and (T <= BF_CAP or (T <= BF_LONG and st['bf_long'] < (40 if ctx.tier == 'quick' else 400) and rng.random() < 0.02)):
                bf = brute_first_tick(mv.n, mv.rate, mv.accel, mv.a0, T + 5)
                if bf != ('ok',) + want:
                    raise Infra(f'oracle inconsistency (closed form vs simulation) on {c}: {bf} vs {want}')
                st['bf_checked'] += 1
                st['bf_long'] += T > BF_CAP
            elif (status == 'ok' and BF_LONG < T <= BF_HUGE and mv.tau is not None and T > mv.tau > BF_LONG
                  and st['bf_huge'] < (1 if ctx.scale == 1 else 3)):
                # the very long reversing class (millions of ticks, budget reached after the reversal): the closed form is checked against the simulation on a few of them too
                bf = brute_first_tick(mv.n, mv.rate, mv.accel, mv.a0, T + 5)
                if bf != ('ok',) + want:
                    raise Infra(f'oracle inconsistency (closed form vs simulation, long move) on {c}: {bf} vs {want}')
                st['bf_checked'] += 1
                st['bf_huge'] += 1
            elif status.startswith('out-of-domain:rate') and T <= BF_CAP:
                bf = brute_first_tick(mv.n, mv.rate, mv.accel, mv.a0, T + 5)
                if bf[0] != 'range':
                    raise Infra(f'oracle inconsistency (range) on {c}: {bf}')
            # ---- the implementation ----
            mpmath.mp.dps = dps
            try:
                acc_arg = acc
                if type(acc) is int and 0 <= acc < 2 ** 53 and i % 13 == 5:   # same integer held in a float: int() in the code
                    acc_arg = float(acc)
                    I['acc_passed_as'] = 'float'
                got = ebb_calc.calculate_lm(steps, rate, accel, acc_arg)
                got = tuple(int(x) for x in got)
                exc = None
            except Exception as ex:
                got, exc = None, ex
            impl_s = 'raised ' + repr(exc) if exc else ' '.join(str(x) for x in got)
            path = None
            d = drv[i]
            if 'model' in d:
                parts = d['model'].split(' ')
                path = parts[3] if len(parts) > 3 else None
                model_s = ' '.join(parts[:3])
            in_dom = status in ('ok', 'degenerate')
            ctx.count(c, path or status, nontrivial=(status == 'ok'))
            if in_dom and (i < 400 and i % 40 == 0 or (i >= ncorp and len(ctx.samples) < 6 and status == 'ok')):
                ctx.sample({'input': I, 'dps': dps, 'impl': impl_s, 'required': want, 'path': path})
            if not in_dom:
                # differences outside the property's domain are logged only
                if 'gen' in d and exc is None and d['gen'] != '(' + impl_s + ')':
                    ctx.out_of_domain.append({'what': 'gen != impl (' + status + ')', 'input': I, 'impl': impl_s, 'gen': d['gen']})
                continue
            if status == 'ok' and abs(rate) <= ENV and abs(accel) <= ENV:
                st['valid'].append(c)
            # ---- correspondence (in-domain): implementation = Gen(ieee) = Model ----
            if 'gen' in d and d['gen'] != '(' + impl_s + ')':
                ctx.disagree('Gen.calculate_lm(ieee) vs ebb_calc.calculate_lm', dict(I, dps=dps), impl_s, d['gen'])
            if 'model' in d and model_s != impl_s:
                ctx.disagree('C03.calculate_lm (model) vs ebb_calc.calculate_lm', I, impl_s, model_s)
            # the Lean Spec as a second opinion on the oracle
            for k in ('spec', 'specdef'):
                if k in d and d[k] != ' '.join(str(x) for x in want):
                    raise Infra(f'Lean {k} and Python oracle differ on {c}: {d[k]} vs {want}')
            # ---- property oracle ----
            if exc is not None:
                ctx.violate('calculate_lm raised on a valid move', I, impl_s, list(want), key='raised')
                continue
            if got != want:
                cls = classify(mv, steps)
                what = ('calculate_lm: reported (duration, position, accumulator) is not the first tick exhausting the budget '
                        f'[{cls}]' if status == 'ok' else 'calculate_lm: request that cannot move does not report (0,0,0)')
                ctx.violate(what, I, list(got), list(want), key='first-tick:' + cls)
                continue
            if status == 'degenerate':
                if acc == 'clear':
                    mpmath.mp.dps = dps
                    tm = ebb_motion.moveTimeLM(rate, steps, accel)
                    if tm != 0:
                        ctx.violate('moveTimeLM: not 0 for a request that cannot move', I, tm, 0, key='moveTimeLM')
                continue
            # consequence clauses
            t, pos, cf = got
            if not 0 <= cf < P:
                ctx.violate('calculate_lm: accumulator outside [0,2^31)', I, list(got), list(want), key='acc-range')
            if t <= 2 ** 32:
                mpmath.mp.dps = dps
                fed = ebb_calc.move_dist_lt(mv.rate, mv.accel, t, acc)
                st['n_feed'] += 1
                if tuple(int(x) for x in fed) != (pos, cf):
                    ctx.violate('feeding the reported duration to move_dist_lt does not reproduce (position, accumulator)',
                                I, [list(got), list(fed)], [pos, cf], key='feeds-lt')
            else:
                st['n_skipfeed'] += 1
            if acc == 'clear':
                mpmath.mp.dps = dps
                tm = ebb_motion.moveTimeLM(rate, steps, accel)
                if tm != want[0]:
                    ctx.violate('moveTimeLM: not the first tick exhausting the budget', I, tm, want[0], key='moveTimeLM')
                if 'gentime' in d and d['gentime'] != str(tm):
                    ctx.disagree('Gen.moveTimeLM(ieee) vs ebb_motion.moveTimeLM', dict(I, dps=dps), str(tm), d['gentime'])
        mpmath.mp.dps = 15

    if not ctx.driver:
        ctx.notes.append('driver unavailable: oracle runs on the implementation alone')
    pipeline(cases, ncorp)

    # ---- sitecov stream: boundary inputs for every comparison of the CURRENT source, through the same pipeline ----
    if not SITECOV_OFF:
        valid = st['valid']
        seeds = rng.sample(valid, min(len(valid), 300))
        sitecov.stream(ctx, 'calculate_lm', ebb_calc.calculate_lm, seeds, rerun=lambda cs: pipeline(cs, 0),
                       moves=sitecov.Moves(domain=in_domain, lo={0: -P, 1: -ENV, 2: -ENV, 3: 0}, hi={0: P, 1: ENV, 2: ENV, 3: P - 1}),
                       budget=8000)
        mpmath.mp.dps = 15

    # model-path coverage: every feasible branch of the model must have received in-domain inputs
    if ctx.driver and not SITECOV_ONLY:
        want = ['zero-steps', 'zero-rate-accel', 'legacy-neg-rate']
        for br in ['const', 'norev', 'rev0', 'rev1-r1zero'] + [f'{b}:{t}' for b in ('budget-before-rev', 'rev-before-first-step', 'both-directions')
                                                               for t in ('tau1', 'tau2', 'tau3+')]:
            for sg in ('neg', 'pos'):
                want.append(f'{br}:{sg}')
        for br in ('const', 'norev', 'rev0', 'rev-before-first-step:tau3+', 'both-directions:tau3+', 'budget-before-rev:tau3+'):
            want.append('legacy:' + br)
        have = set()
        for k in ctx.paths:
            parts = k.split(':')
            if parts[-1] in ('acc', 'clear'):
                have.add(':'.join(parts[:-1]))           # branch:sign
                have.add(':'.join(parts[:-2]))           # branch
            else:
                have.add(k)
        missing = [w for w in want if w not in have]
        if missing:
            raise Infra('model paths without any input: ' + ', '.join(missing))
    ctx.notes.append(f'oracle self-check: closed form/bisection = tick-by-tick simulation on {st["bf_checked"]} cases '
                     f'({st["bf_long"]} with first tick > {BF_CAP}, {st["bf_huge"]} with first tick > {BF_LONG}); move_dist_lt fed on {st["n_feed"]} cases ({st["n_skipfeed"]} skipped: duration > 2^32 is outside the domain of the timed-move predictor); corpus cases: {ncorp}')
