"""C07 — legacy serial primitives `ebb_serial.query` / `ebb_serial.command`.

A fake port plays a *script*: `readline()` consumes read outcomes (bytes line | b'' | raise), `write()`
consumes write outcomes (ok | raise); the board queues its reply when the request is written.  Per call
the run compares implementation and Lean model (bytes written, reads consumed, return value and its
Python type, exception type, device queue length afterwards) and judges the implementation against the
property statement (Python oracle below, independent of the Lean model).
"""
import ast, os, json, glob, logging, itertools
from . import common

RULE = ('corpus first; data lines include nicknames that begin with / equal / contain OK in any case, empty and blank '
        'payloads; every data line followed by every kind of next request; the same request repeated on the same port '
        'with a different answer; exhaustive: every sequence of <= 2 requests over {ordinary query, no-OK query, command} x '
        'delay {0,1,100,101} empty reads before every reply line x {no fault, one fault of every kind at every '
        'write / before, inside, instead of, after every reply line, error line}; every 3-request sequence without '
        'fault; random 3-request sequences with a fault; random longer histories (4-12 calls, several faults, junk '
        'already queued, missing port / text, verbose flag, out-of-alphabet bytes), half of them run pairwise interleaved on two port objects; '
        'request texts with unusual but valid ASCII (free text of ST and of query parameters, the name itself, no terminator: '
        'braces and str.format fields, % directives, backslashes, quotes, shell / regex characters), also in data lines, error '
        'lines and wrong replies: 14 edge payloads x kind x 2 templates x delay x {no fault, write fault, one fault of every '
        'kind at every position, 7 error lines and 8-9 wrong lines in place of every reply line, silence}, at 99/100/101 empty '
        'reads, random payloads in 1-3 call sequences at every position and inside the longer histories; long but valid requests '
        '(full-range legacy LM/LT/SM/XM/HM moves with 10-digit signed arguments, zero- and blank-padded arguments, long ST/QT/QU '
        'free text; command, no-OK query and ordinary query) with lengths on and around 64/128/256 (-2..+2, with and without '
        'terminator) and 16/32/192/512/1024/2048/4096 (-1..+1), multiples of 64, 40-300 and a few kB: single calls x {no fault, '
        'write fault, one fault of every kind at every reply position, error and wrong lines}, followed / preceded by every kind '
        'of request, the same long text repeated, random 1-4 call sequences and inside the longer histories; long reply lines '
        '(`A` with 1..16 channels, free text on/around 64/128/256 bytes).  "Written exactly once" = one write() call carrying '
        'all the bytes (calls are counted, not the concatenation); the verbose argument: every kind of request x every fault '
        '(write fault, one fault at every reply position, error / wrong lines, silence, 101 empty reads) x verbose in {True, False, '
        '1, 0, None, 2, "", "quiet", 0.0, []} (the real code gets the object, the regenerated functions its truth value), '
        'and non-bool verbose values in about a fifth of the calls of the random fault streams.  A case is one call of one '
        'history; non-trivial = the call had a port and a text; distinct by (history, position)')
TRUSTED = ['translator/pyio2lean.py + lean/Plotink/PyIO.lean (Python I/O subset -> Lean; validated on every run by executing '
           'the regenerated Gen.ebb_serial_query/command on all histories of this module against the real code: value, '
           'type, escaping exception class, bytes written, reads consumed must be identical)',
           'harness/c07.py fake port (pyserial API as used by the code: write, readline; readline(size) returns at most '
           'size bytes of the line and keeps the rest, as io.RawIOBase does) and its script player',
           'AST extraction of retry bounds / no-OK list / decode-in-retry-loop from plotink/ebb_serial.py',
           'modelled not verified: pyserial, str.encode/bytes.decode(ascii), str.split/strip/lower on ASCII text, '
           'the logging module (log records are not compared; only that nothing raises)']
ASSUMPTIONS = ['request texts are ASCII str (or None = "no text"); an empty string is a text (one write of b"")',
               'lines sent by the board are ASCII bytes; a read that times out returns b""',
               'serial I/O exceptions are serial.SerialException (and subclasses) and OSError/IOError',
               'the board queues the reply to a request when the request is written (request/response protocol)',
               'bridge domain (C07_gen_*): fuel >= 101; every scripted fault is SerialException (or a subclass), OSError/IOError '
               'or RuntimeError; the port object and a str text are passed',
               'conforming exchange: ordinary query = <=100 empties, data line, <=100 empties, OK line; no-OK query '
               '(a,i,mr,pi,qm,qg,v) = <=100 empties, one line; command = <=100 empties, OK line',
               'alignment oracle also requires that a conforming exchange consumes exactly its own reply (no read '
               'after the reply is complete): a primitive that waits for a line the board does not send disagrees '
               'with the board about where the reply ends']
STAGED = []
GEN_FUNCTIONS = ['ebb_serial_query', 'ebb_serial_command']

DOC_RETRY = 100
DOC_NO_OK = ['a', 'i', 'mr', 'pi', 'qm', 'qg', 'v']           # from the property statement
OK = b'OK\r\n'
ERRLINE = b'!8 Err: Unknown command\r\n'

# request table: (text, data line a conforming board sends); a text may occur with several data lines.
# kind 'q2' = ordinary query (data line, then OK), 'q1' = no-OK query (one line), 'c' = command (OK).
# QT reads back the nickname, which is free user text: data lines that begin with / equal / contain "OK" in
# any case, an empty nickname (the data line is only the terminator) and blank-ish payloads are all
# legitimate data lines of a conforming board.
NICKS = ['a1b2', 'AxiDraw 7', 'OK Corral', 'OKAY', 'OK', 'Ok', 'ok', 'okay then', 'Plotter-OK', ' OK go', 'OK\t1',
         'OKOK', 'O', 'K', 'Err', '', ' ', '0',
         '{lab} plotter', '{0}', '%s 100%', 'a\\b "c" \'d\'']
Q2 = [('QS\r', b'1200,-340\r\n'), ('QB\r', b'0\r\n'), ('QP\r', b'1\r\n'),
      ('QC\r', b'0394,0300\r\n'), ('QN\r', b'7\r\n'), ('QE\r', b'0,0\r\n'), ('QL\r', b'3\r\n'),
      ('ES\r', b'0,0,0,0,0\r\n'), ('QR\r', b'1\r\n'), ('QB\r', b'1\r\n'), ('QS\r', b'0,0\r\n'),
      ('QP\r', b'0\r\n'), ('QL\r', b'\n'), ('QN\r', b'4294967295\r\n')] + \
     [('QT\r', (n + '\r\n').encode('ascii')) for n in NICKS]
Q1 = [('A\r', b'A,00:0713,02:0241\r\n'), ('I\r', b'I,128,255,130,000,007\r\n'), ('MR,3\r', b'MR,71\r\n'),
      ('PI,B,3\r', b'PI,1\r\n'), ('QM\r', b'QM,0,0,0,0\r\n'), ('QG\r', b'3E\r\n'),
      ('V\r', b'EBBv13_and_above EB Firmware Version 2.8.1\r\n'), ('v\r', b'EBBv13_and_above EB Firmware Version 2.7.0\r\n'),
      ('qg\r', b'1F\r\n'), ('Pi,C,0\r', b'PI,0\r\n'), ('QG\r', b'00\r\n'), ('PI,B,3\r', b'PI,0\r\n'),
      ('QM\r', b'QM,1,1,1,0\r\n'), ('MR,3\r', b'MR,0\r\n')]
CM = [('EM,1,1\r', None), ('SP,1\r', None), ('SM,100,10,-10\r', None), ('RB\r', None), ('TP\r', None),
      ('SC,4,16000\r', None), ('XM,500,10,10\r', None), ('rb\r', None), ('CS\r', None), ('SP,0\r', None)]
KIND = {t: 'q2' for t, _ in Q2}
KIND.update({t: 'q1' for t, _ in Q1})
KIND.update({t: 'c' for t, _ in CM})



def kind_of(call):
    """'q2' | 'q1' | 'c' | None for a call: the kind recorded in the call by the generator (texts built at run time),
    else the request table"""
    return call.get('k') or KIND.get(call['cmd'])


EXC_NAMES = ['SerialException', 'OSError', 'SerialTimeoutException', 'IOError', 'PortNotOpenError']


# ------------------------------------------------------------------------------------------------
# parameters of the current source
# ------------------------------------------------------------------------------------------------
def extract_params(path):
    """(retry bounds [query data loop, query trailing loop, command loop], no-OK list, decode in retry loop)
    from the source as it is now; None where the construct is not recognised"""
    tree = ast.parse(open(path).read())
    fns = {n.name: n for n in tree.body if isinstance(n, ast.FunctionDef)}

    def bound(w):
        for cmp_ in ast.walk(w.test):
            if isinstance(cmp_, ast.Compare) and len(cmp_.ops) == 1 and isinstance(cmp_.left, ast.Name) \
                    and isinstance(cmp_.comparators[0], ast.Constant) and isinstance(cmp_.comparators[0].value, int) \
                    and 'retry' in cmp_.left.id:
                k = cmp_.comparators[0].value
                if isinstance(cmp_.ops[0], ast.Lt):
                    return k
                if isinstance(cmp_.ops[0], ast.LtE):
                    return k + 1
        return None

    def loops(fn):
        return sorted((n for n in ast.walk(fn) if isinstance(n, ast.While)), key=lambda n: n.lineno)

    out = {'bounds': None, 'noOK': None, 'decode': None}
    q, c = fns.get('query'), fns.get('command')
    if q is None or c is None:
        return out
    lq, lc = loops(q), loops(c)
    if len(lq) == 2 and len(lc) == 1:
        out['bounds'] = [bound(lq[0]), bound(lq[1]), bound(lc[0])]
        for st in lq[0].body:
            if isinstance(st, ast.Assign) and len(st.targets) == 1 and isinstance(st.targets[0], ast.Name) \
                    and st.targets[0].id == 'response':
                v = st.value
                if isinstance(v, ast.Call) and isinstance(v.func, ast.Attribute):
                    if v.func.attr == 'decode':
                        out['decode'] = True
                    elif v.func.attr == 'readline':
                        out['decode'] = False
    for n in ast.walk(q):
        if isinstance(n, ast.Compare) and len(n.ops) == 1 and isinstance(n.ops[0], ast.NotIn) \
                and isinstance(n.comparators[0], (ast.List, ast.Tuple, ast.Set)):
            elts = n.comparators[0].elts
            if all(isinstance(e, ast.Constant) and isinstance(e.value, str) for e in elts):
                out['noOK'] = [e.value for e in elts]
    return out


# ------------------------------------------------------------------------------------------------
# fake port
# ------------------------------------------------------------------------------------------------
class Raise:
    def __init__(self, name):
        self.name = name


def make_exc(name):
    import serial
    if name == 'OSError':
        return OSError(5, 'Input/output error')
    if name == 'IOError':
        return IOError('device reports readiness to read but returned no data')
    cls = getattr(serial, name, None) or getattr(getattr(serial, 'serialutil', serial), name, None)
    if cls is None:
        cls = serial.SerialException
    try:
        return cls('scripted fault')
    except TypeError:
        return cls()


class FakePort:
    """pyserial's API as far as the anchored code uses it; everything else is recorded"""

    def __init__(self, pre, wscript):
        self.queue = list(pre)
        self.qpos = 0
        self.wscript = list(wscript)
        self.writes = []
        self.nread = 0
        self.pending = None
        self.other = []

    def qlen(self):
        return len(self.queue) - self.qpos

    def write(self, data):
        self.writes.append(data)
        if not isinstance(data, (bytes, bytearray)):
            raise TypeError('unicode strings are not supported, please encode to bytes: %r' % (data,))
        if self.pending is not None:
            self.queue.extend(self.pending)
            self.pending = None
        o = self.wscript.pop(0) if self.wscript else 'o'
        if o != 'o':
            raise make_exc(o if o in EXC_NAMES else 'SerialException')
        return len(data)

    def readline(self, size=-1, *a, **k):
        self.nread += 1
        if self.qpos >= len(self.queue):
            return b''
        r = self.queue[self.qpos]
        if isinstance(r, (bytes, bytearray)) and isinstance(size, int) and 0 <= size < len(r):
            # io.RawIOBase.readline(size): at most `size` bytes of the line; the rest stays in the buffer
            self.queue[self.qpos] = r[size:]
            return r[:size]
        self.qpos += 1
        if isinstance(r, Raise):
            raise make_exc(r.name)
        return r

    def __getattr__(self, name):
        if name.startswith('__'):
            raise AttributeError(name)
        self.other.append(name)
        return lambda *a, **k: None


def expand(tokens):
    out = []
    for t in tokens:
        if t[0] == 'e':
            out.extend([b''] * t[1])
        elif t[0] == 'l':
            out.append(t[1].encode('latin-1'))
        else:
            out.append(Raise(t[1] if len(t) > 1 else 'SerialException'))
    return out


def tok_str(tokens):
    out = []
    for t in tokens:
        if t[0] == 'e':
            if t[1]:
                out.append(f'e{t[1]}')
        elif t[0] == 'l':
            out.append('l' + common.enc_str(t[1]))
        else:
            out.append('x' + (t[1] if len(t) > 1 else 'SerialException'))
    return out


def L(b):
    return ['l', b.decode('latin-1')]


# ------------------------------------------------------------------------------------------------
# running a history on the implementation
# ------------------------------------------------------------------------------------------------
def show_res(r):
    if r is None:
        return 'None'
    if type(r) is str:
        return 'S' + common.enc_str(r)
    if isinstance(r, (bytes, bytearray)):
        return 'B' + common.enc_str(bytes(r).decode('latin-1'))
    return 'OTHER:' + type(r).__name__


class Session:
    """one history played call by call on its own fake port (so that several can be interleaved)"""

    def __init__(self, es, hist):
        self.es, self.hist, self.k = es, hist, 0
        self.port = FakePort(expand(hist['pre']),
                             ['o' if ch == 'o' else hist.get('wexc', 'SerialException') for ch in hist['w']])
        self.obs = []

    def done(self):
        return self.k >= len(self.hist['calls'])

    def step(self):
        es, port = self.es, self.port
        call = self.hist['calls'][self.k]
        self.k += 1
        q0, w0, r0 = port.qlen(), len(port.writes), port.nread
        wok = not port.wscript or port.wscript[0] == 'o'
        present = call['port']
        port.pending = expand(call['reply']) if present else None
        fn = es.query if call['kind'] == 'q' else es.command
        exc = None
        try:
            r = fn(port if present else None, call['cmd'], call.get('verbose', True))
            res = show_res(r)
        except Exception as ex:  # noqa: the property says "never raise"
            r, exc = None, ex
            res = '!' + type(ex).__name__
        port.pending = None
        new = port.writes[w0:]
        wr = '|'.join(common.enc_str(w.decode('latin-1')) if isinstance(w, (bytes, bytearray)) else 'NOTBYTES' for w in new) or '~'
        self.obs.append({'res': res, 'value': r, 'exc': exc, 'writes': new, 'nread': port.nread - r0, 'qbefore': q0,
                         'wok': wok, 'qafter': port.qlen(),
                         'canon': f'{res} {len(new)} {wr} {port.nread - r0} {port.qlen()}'})


def run_impl(es, hist):
    s = Session(es, hist)
    while not s.done():
        s.step()
    return s.obs, s.port


def run_impl_interleaved(es, hists, rng):
    """several histories, each on its own port object, their calls interleaved in one process: the calls on one
    port must be unaffected by what happens on another (no state outside the port)"""
    ss = [Session(es, h) for h in hists]
    live = [x for x in ss if not x.done()]
    while live:
        x = rng.choice(live)
        x.step()
        if x.done():
            live.remove(x)
    return [(x.obs, x.port) for x in ss]


GEN_FUEL = 101      # the bound of the bridge theorems (C07_gen_bridge: fuel >= 101)


def verbose_tok(v):
    """the driver line carries True | False | None; the code only tests the truthiness of `verbose`, so any other
    object goes to the regenerated functions as its truth value (the real code gets the object itself)"""
    return 'None' if v is None else str(bool(v))


def gen_line(hist):
    """the same history for the source-regenerated functions (`c07 gseq`, Drv/C07.lean)"""
    parts = ['c07 gseq', str(GEN_FUEL), hist.get('wexc', 'SerialException'), hist['w'] or '-'] + tok_str(hist['pre'])
    for call in hist['calls']:
        parts.append(';')
        parts += [call['kind'], '1' if call['port'] else '0',
                  'None' if call['cmd'] is None else common.enc_str(call['cmd']),
                  verbose_tok(call.get('verbose', True))] + tok_str(call['reply'])
    return ' '.join(parts)


def model_line(params, hist):
    retry, names, dec = params
    nm = '|'.join(common.enc_str(n) for n in names) or '~'
    parts = ['c07 seq', str(retry), nm, '1' if dec else '0', hist['w'] or '-'] + tok_str(hist['pre'])
    for call in hist['calls']:
        parts.append(';')
        parts += [call['kind'], '1' if call['port'] else '0',
                  'None' if call['cmd'] is None else common.enc_str(call['cmd'])] + tok_str(call['reply'])
    return ' '.join(parts)


# ------------------------------------------------------------------------------------------------
# the property oracle (from the statement; independent of the Lean model)
# ------------------------------------------------------------------------------------------------
def is_ascii_tokens(tokens):
    return all(t[0] != 'l' or all(ord(ch) < 128 for ch in t[1]) for t in tokens)


def in_alphabet(hist):
    if not is_ascii_tokens(hist['pre']):
        return False
    for c in hist['calls']:
        if c['cmd'] is not None and (not isinstance(c['cmd'], str) or any(ord(ch) > 127 for ch in c['cmd'])):
            return False
        if not is_ascii_tokens(c['reply']):
            return False
    return True


def first_line(tokens, window):
    """(line, n_empties_before) of the first non-empty line among the first `window` read outcomes, provided no
    read before it raises; None when nothing arrives"""
    n = 0
    for t in tokens:
        if t[0] == 'e':
            n += t[1]
        elif t[0] == 'l':
            if t[1] == '':
                n += 1
            else:
                return (t[1], n) if n < window else None
        else:
            return None
        if n >= window:
            return None
    return None


def conforming(kind, reply):
    """is `reply` exactly a well-formed reply for a request of this kind (statement, first sentence)?"""
    toks = [t for t in reply if not (t[0] == 'e' and t[1] == 0)]
    i = 0

    def empties():
        nonlocal i
        n = 0
        while i < len(toks) and toks[i][0] == 'e':
            n += toks[i][1]
            i += 1
        return n

    def line():
        nonlocal i
        if i < len(toks) and toks[i][0] == 'l' and toks[i][1] != '':
            i += 1
            return toks[i - 1][1]
        return None
    if empties() > DOC_RETRY:
        return False
    first = line()
    if first is None:
        return False
    if kind == 'c':
        return first.startswith('OK') and i == len(toks)
    if 'Err:' in first:         # an error reply, not a data line (a data line may well begin with "OK")
        return False
    if kind == 'q1':
        return i == len(toks)
    if empties() > DOC_RETRY:
        return False
    second = line()
    return second is not None and second.startswith('OK') and i == len(toks)


def n_outcomes(tokens):
    return sum(t[1] if t[0] == 'e' else 1 for t in tokens)


def judge(ctx, hist, obs, port):
    """judge every call of the history against the statement"""
    if not in_alphabet(hist):
        return
    # does the history up to here consist of conforming exchanges only (statement: "consecutive requests against a
    # conforming board stay aligned")?  Then every query must return its own data line, whatever the
    # implementation has left in the device queue.
    board_ok = not hist['pre']
    for k, (call, o) in enumerate(zip(hist['calls'], obs)):
        inp = {'history': hist, 'call': k}
        kindname = 'query' if call['kind'] == 'q' else 'command'
        history_conforming, board_ok = board_ok, False     # re-established at the end of this iteration
        if history_conforming and call['port'] and call['cmd'] not in (None, '') and o['exc'] is None \
                and o['wok'] and kind_of(call) is not None and conforming(kind_of(call), call['reply']):
            board_ok = True
            if call['kind'] == 'q' and o['qbefore'] != 0:
                own = first_line(call['reply'], DOC_RETRY + 1)[0]
                if o['value'] != own:
                    ctx.violate('query returned a line that belongs to another request (conforming board, replies shifted)',
                                inp, repr(o['value']), repr(own))
        elif history_conforming and (not call['port'] or call['cmd'] is None):
            board_ok = True
        if not call['port'] or call['cmd'] is None:
            # a request with no port or no text does nothing
            if o['exc'] is not None:
                ctx.violate(f'{kindname} without port/text raised {type(o["exc"]).__name__}', inp, o['canon'], 'returns, nothing done')
            elif o['writes'] or o['nread'] or o['value'] is not None:
                ctx.violate(f'{kindname} without port/text did something', inp, o['canon'], 'no write, no read, returns None')
            continue
        if call['cmd'] == '':
            continue    # an empty text: not a request of the statement's alphabet (compared with the model only)
        req = call['cmd'].encode('ascii')
        wok = o['wok']
        # one write of the request, exactly
        # one write of the request, exactly: ONE call of write() carrying ALL the bytes of the request (a request
        # handed over in pieces, written twice, truncated or padded is not "written exactly once", even when the
        # pieces concatenate to the request)
        if o['writes'] != [req]:
            nbytes = sum(len(w) for w in o['writes'] if isinstance(w, (bytes, bytearray)))
            ctx.violate(f'{kindname}: request not written exactly once', inp,
                        f'{len(o["writes"])} write call(s), {nbytes} byte(s) in total: {o["writes"]!r}',
                        f'1 write call of {len(req)} byte(s): {[req]!r}')
        # never raises
        if o['exc'] is not None:
            ctx.violate(f'{kindname} raised {type(o["exc"]).__name__}', inp, f'{type(o["exc"]).__name__}: {o["exc"]}',
                        'no exception (faults are contained and logged)')
            continue
        if call['kind'] == 'c':
            if o['value'] is not None:
                ctx.violate('command returned a value', inp, o['res'], 'None')
        else:
            if type(o['value']) is not str:
                ctx.violate('query did not return text (str)', inp, f'{type(o["value"]).__name__}: {o["value"]!r}', 'a str')
                continue
        aligned_before = o['qbefore'] == 0
        kind = kind_of(call)
        if not aligned_before or kind is None:
            continue
        reply = call['reply']
        fl = first_line(reply, DOC_RETRY + 1) if wok else None
        if call['kind'] == 'q':
            lines = [t[1] for t in reply if t[0] == 'l' and t[1] != '']
            if wok and fl is not None:
                if o['value'] != fl[0]:
                    ctx.violate('query did not return the data line of its request', inp, repr(o['value']), repr(fl[0]))
            elif not lines:
                if o['value'] != '':
                    ctx.violate('query returned text although nothing arrived', inp, repr(o['value']), "''")
            elif o['value'] != '' and o['value'] != lines[0]:
                ctx.violate('query returned neither its data line nor the empty string', inp, repr(o['value']),
                            repr(lines[0]) + " or ''")
        if wok and conforming(kind, reply):
            if o['qafter'] != 0:
                ctx.violate(f'{kindname}: reply lines left in the device queue after a conforming exchange (next request misaligned)',
                            inp, f'{o["qafter"]} outcome(s) left', 'queue empty')
            elif o['nread'] != n_outcomes(reply):
                ctx.violate(f'{kindname}: kept reading after its reply was complete (waits for a line the board does not send)',
                            inp, f'{o["nread"]} reads', f'{n_outcomes(reply)} reads')
    if port.other:
        ctx.notes.append(f'port API used beyond write/readline: {sorted(set(port.other))}')


def strict_expectation(hist, k, o):
    """what the statement strictly requires of the k-th call's return value, or None when it leaves latitude;
    used to cross-check the Python oracle against the Lean Spec `arrived`"""
    call = hist['calls'][k]
    if call['kind'] != 'q' or not call['port'] or call['cmd'] in (None, '') or o['qbefore'] != 0 or not o['wok']:
        return None
    fl = first_line(call['reply'], DOC_RETRY + 1)
    if fl is not None:
        return fl[0]
    if not any(t[0] == 'l' and t[1] != '' for t in call['reply']):
        return ''
    return None


# ------------------------------------------------------------------------------------------------
# generators
# ------------------------------------------------------------------------------------------------
DELAYS = [0, 1, 100, 101]
# `verbose` selects the log level of a fault report; the primitives accept any object there (truthiness only), and
# callers do pass 0/1, None and strings.  Whatever it is, a fault must still be contained.
VERBOSE_VALUES = [True, False, 1, 0, None, 2, '', 'quiet', 0.0, []]
VERBOSE_ODD = [1, 0, None, None, 2, '', 'quiet', 'quiet', 0.0, [], -1, 'False']


def rverbose(rng, p_true=0.5, p_odd=0.2):
    """a verbose flag: a bool, now and then another truthy / falsy object"""
    if rng.random() < p_odd:
        return rng.choice(VERBOSE_ODD)
    return rng.random() < p_true


def base_reply(kind, data, delays):
    if kind == 'c':
        return [['e', delays[0]], L(OK)]
    if kind == 'q1':
        return [['e', delays[0]], L(data)]
    return [['e', delays[0]], L(data), ['e', delays[1]], L(OK)]


def variants(kind):
    return list(itertools.product(DELAYS, repeat=2 if kind == 'q2' else 1))


def fault_variants(reply, exc):
    """one fault at every position of a reply: before / inside / right after the empties of each line, instead of the
    line, after the line; the line replaced by an error line; the line without terminator"""
    out = []
    idx = [i for i, t in enumerate(reply) if t[0] == 'l']
    for li in idx:
        d = reply[li - 1][1]
        pre, post = reply[:li - 1], reply[li + 1:]
        ln = reply[li]
        X = ['x', exc]
        out.append(pre + [X, ['e', d], ln] + post)
        if d >= 2:
            out.append(pre + [['e', d // 2], X, ['e', d - d // 2], ln] + post)
        if d >= 1:
            out.append(pre + [['e', d], X, ln] + post)
        out.append(pre + [['e', d], X] + post)
        out.append(pre + [['e', d], ln, X] + post)
        out.append(pre + [['e', d], L(ERRLINE)] + post)
        out.append(pre + [['e', d], ['l', ln[1].rstrip('\r\n')]] + post)
        out.append(pre + [['e', d]] + post)      # the line never comes
    return out


def mk_call(text, reply, verbose=True, port=True):
    return {'kind': 'c' if KIND[text] == 'c' else 'q', 'port': port, 'cmd': text, 'reply': reply, 'verbose': verbose}


def pick(table, i):
    """(text, data) pair number i of the table, rotating"""
    return table[i % len(table)]


def gen_exhaustive(ctx):
    rng = ctx.rng
    tables = {'q2': Q2, 'q1': Q1, 'c': CM}
    cnt = itertools.count()
    # --- single calls (fresh port each): every (text, data) of every table x every delay pattern x every fault
    for kind, table in tables.items():
        for text, data in table:
            for dl in variants(kind):
                rep = base_reply(kind, data, dl)
                yield {'pre': [], 'w': '', 'calls': [mk_call(text, rep)]}
                exc = EXC_NAMES[next(cnt) % len(EXC_NAMES)]
                yield {'pre': [], 'w': 'x', 'wexc': exc, 'calls': [mk_call(text, rep)]}
                for fr in fault_variants(rep, exc):
                    yield {'pre': [], 'w': '', 'calls': [mk_call(text, fr, verbose=bool(next(cnt) % 2))]}
    # --- the same request repeated on the same port with a different answer each time (all ordered pairs of
    #     data lines of a text), then a different request: nothing may be remembered from the earlier call
    for kind in ('q2', 'q1'):
        by_text = {}
        for text, data in tables[kind]:
            by_text.setdefault(text, []).append(data)
        for text, datas in by_text.items():
            for a in datas:
                for b in datas:
                    if a != b:
                        d1, d2 = DELAYS[next(cnt) % 3], DELAYS[next(cnt) % 3]
                        t3, x3 = pick(Q2, next(cnt))
                        yield {'pre': [], 'w': '', 'calls': [mk_call(text, base_reply(kind, a, (d1, d2))),
                                                             mk_call(text, base_reply(kind, b, (d2, d1))),
                                                             mk_call(t3, base_reply('q2', x3, (0, 0))),
                                                             mk_call(text, base_reply(kind, a, (0, 1)))]}
    # --- every data line followed by every kind of next request (alignment is a property of what comes next)
    for kind in ('q2', 'q1'):
        for text, data in tables[kind]:
            for k2 in ('q2', 'q1', 'c'):
                t2, x2 = pick(tables[k2], next(cnt))
                t3, x3 = pick(Q2, next(cnt))
                yield {'pre': [], 'w': '', 'calls': [mk_call(text, base_reply(kind, data, (0, 0))),
                                                     mk_call(t2, base_reply(k2, x2, (0, 0))),
                                                     mk_call(t3, base_reply('q2', x3, (1, 0)))]}
    # --- pairs: all kinds x delays, no fault and one fault anywhere
    kinds = ['q2', 'q1', 'c']
    for k1 in kinds:
        for k2 in kinds:
            for d1 in variants(k1):
                for d2 in variants(k2):
                    (t1, x1), (t2, x2) = pick(tables[k1], next(cnt)), pick(tables[k2], next(cnt))
                    r1, r2 = base_reply(k1, x1, d1), base_reply(k2, x2, d2)
                    yield {'pre': [], 'w': '', 'calls': [mk_call(t1, r1), mk_call(t2, r2)]}
                    exc = EXC_NAMES[next(cnt) % len(EXC_NAMES)]
                    yield {'pre': [], 'w': 'x', 'wexc': exc, 'calls': [mk_call(t1, r1), mk_call(t2, r2)]}
                    yield {'pre': [], 'w': 'ox', 'wexc': exc, 'calls': [mk_call(t1, r1), mk_call(t2, r2)]}
                    for fr in fault_variants(r1, exc):
                        yield {'pre': [], 'w': '', 'calls': [mk_call(t1, fr), mk_call(t2, r2)]}
                    for fr in fault_variants(r2, exc):
                        yield {'pre': [], 'w': '', 'calls': [mk_call(t1, r1), mk_call(t2, fr)]}
    # --- triples without fault
    for ks in itertools.product(kinds, repeat=3):
        for ds in itertools.product(*[variants(k) for k in ks]):
            ps = [pick(tables[k], next(cnt)) for k in ks]
            yield {'pre': [], 'w': '', 'calls': [mk_call(t, base_reply(k, x, d)) for k, (t, x), d in zip(ks, ps, ds)]}
    # --- triples with one fault (sample)
    for _ in range(ctx.n(4000)):
        ks = [rng.choice(kinds) for _ in range(3)]
        ps = [rng.choice(tables[k]) for k in ks]
        reps = [base_reply(k, x, rng.choice(variants(k))) for k, (t, x) in zip(ks, ps)]
        exc = rng.choice(EXC_NAMES)
        w = ''
        j = rng.randrange(3)
        if rng.random() < 0.2:
            w = 'o' * j + 'x'
        else:
            reps[j] = rng.choice(fault_variants(reps[j], exc))
        yield {'pre': [], 'w': w, 'wexc': exc,
               'calls': [mk_call(t, r, verbose=rverbose(rng)) for (t, x), r in zip(ps, reps)]}


RDELAYS = [0, 0, 0, 0, 1, 1, 2, 3, 17, 50, 99, 100, 100, 101, 102, 250]


def gen_random(ctx):
    rng = ctx.rng
    tables = {'q2': Q2, 'q1': Q1, 'c': CM}
    for _ in range(ctx.n(1500)):
        n = rng.randint(4, 12)
        calls = []
        p_fault = rng.choice([0.0, 0.0, 0.05, 0.15, 0.4])
        for _ in range(n):
            k = rng.choice(['q2', 'q2', 'q1', 'q1', 'c'])
            t, x = rng.choice(tables[k])
            dl = (rng.choice(RDELAYS), rng.choice(RDELAYS))
            rep = base_reply(k, x, dl)
            if rng.random() < p_fault:
                rep = rng.choice(fault_variants(rep, rng.choice(EXC_NAMES)))
            r = rng.random()
            if r < 0.04:
                calls.append({'kind': rng.choice('qc'), 'port': False, 'cmd': t, 'reply': rep, 'verbose': True})
            elif r < 0.08:
                calls.append({'kind': rng.choice('qc'), 'port': True, 'cmd': None, 'reply': rep, 'verbose': True})
            elif r < 0.09:
                calls.append({'kind': rng.choice('qc'), 'port': False, 'cmd': None, 'reply': [], 'verbose': False})
            elif r < 0.10:
                calls.append({'kind': rng.choice('qc'), 'port': True, 'cmd': '', 'reply': rng.choice([[], [L(OK)], rep]), 'verbose': True})
            elif r < 0.15:     # a long request (full-range move, padded arguments, long free text), now and then a long reply line
                calls.append(long_call(rng, 'c' if k == 'c' else None, faulty=max(p_fault, 0.15),
                                       line_len=long_len(rng) if rng.random() < 0.15 else None))
            elif r < 0.27:     # a request text with unusual characters (free text, format-like fragments)
                payload = odd_payload(rng)
                k, t = odd_text(rng, 'c' if k == 'c' else rng.choice(['c', 'q1', 'q2']), payload)
                rep = base_reply(k, None if k == 'c' else odd_data(rng, k, t, payload), dl)
                if rng.random() < max(p_fault, 0.3):
                    rep = rng.choice(odd_fault_replies(rng, k, t, payload, rep, rng.choice(EXC_NAMES), full=True))
                calls.append(mk_odd_call(k, t, rep, verbose=rverbose(rng, 0.7)))
            else:
                calls.append(mk_call(t, rep, verbose=rverbose(rng, 0.7)))
        w = ''.join('x' if rng.random() < p_fault / 2 else 'o' for _ in range(n))
        pre = []
        if rng.random() < 0.15:
            pre = rng.choice([[L(OK)], [L(b'stale,1\r\n'), L(OK)], [['e', 3], L(b'\r\n')], [['x', 'OSError']], [L(ERRLINE)]])
        hist = {'pre': pre, 'w': w.rstrip('o'), 'wexc': rng.choice(EXC_NAMES), 'calls': calls}
        if rng.random() < 0.03:      # out of the alphabet: a non-ASCII byte from the board / in the request
            c = rng.choice(calls)
            if rng.random() < 0.7:
                c['reply'] = [['e', rng.choice([0, 1])], ['l', 'caf\xe9\r\n'], L(OK)]
            elif c['cmd']:
                c['cmd'] = 'Q\xe9\r'
        yield hist


# ---- request texts (and lines) with unusual but valid ASCII characters -----------------------------------------
# The statement quantifies over all request texts; ST (set nickname) carries free user text, and whatever the host
# passes is written and - on a fault - quoted in a log message.  Characters that mean something to str.format,
# %-formatting, escapes, quoting, shells and regular expressions must make no difference.
FRAG_FORMAT = ['{', '}', '{}', '{0}', '{1}', '{0}{1}', '{lab}', '{0!r}', '{:>8}', '{0.x}', '{0[1]}', '{{', '}}', '{{}}',
               '}{', '{cmd}', '{response}', '{ }']
FRAG_PERCENT = ['%', '%s', '%d', '%r', '%(cmd)s', '%%', '%5.2f', '100%', '%s%s', '%(', '%c']
FRAG_ESCAPE = ['\\', '\\n', '\\r', '\\x41', '\\u0041', '\\\\', '"', "'", '`', '$', '${x}', '$(x)', "'\"", '\\N{DASH}']
FRAG_MISC = ['\t', ' ', ',', ',,', ';', ':', '*', '?', '[', ']', '(', ')', '(?', '<', '>', '&', '|', '#', '~', '^',
             '\x7f', '=', '+', '!', '@', 'Err:', 'OK']
FRAG_PLAIN = ['AxiDraw 7', 'lab', 'unit', 'plotter', '3', 'B', 'x', '0', 'Mini Kit']
FRAG_CLASSES = [FRAG_FORMAT, FRAG_PERCENT, FRAG_ESCAPE, FRAG_MISC, FRAG_PLAIN]
# the small set every structured stream goes through (one of each mechanism, alone and inside plain text)
EDGE_PAYLOADS = ['{lab} plotter', 'unit}3', '{0}{1}', '{', '{}', '{0}', '%s', '100%', '%(cmd)s', 'a\\b', '"q" \'q\'', '{{x}}',
                 '$x `y`', 'Err: {0} %s']
# request templates by kind: free text after the name, the name itself unusual, no terminator
ODD_TEMPLATES = {'c': ['ST,%s\r', 'ST,%s', '%s\r', 'SM,%s,10\r', 'st, %s \r'],
                 'q1': ['PI,%s,3\r', 'MR,%s\r', 'v,%s\r', 'pi,%s'],
                 'q2': ['QT,%s\r', 'QU,%s\r', '%s\r', 'QN,%s']}


def query_kind(text):
    """ordinary or no-OK query, by the request's name (first comma-separated field, case and blanks ignored) as
    the statement lists them"""
    return 'q1' if text.split(',')[0].strip().lower() in DOC_NO_OK else 'q2'


def odd_payload(rng):
    n = rng.choice([1, 1, 2, 2, 3, 4])
    out = ''
    for _ in range(n):
        out += rng.choice(rng.choice(FRAG_CLASSES) if rng.random() < 0.6 else rng.choice(FRAG_CLASSES[:3]))
    return out


def odd_text(rng, kind, payload):
    tm = ODD_TEMPLATES[kind]
    t = (tm[0] if rng.random() < 0.4 else rng.choice(tm)) % (payload,)
    if kind != 'c':
        kind = query_kind(t)
    return kind, t


def odd_data(rng, kind, text, payload):
    """the data line a board sends to this request: what QT reads back is the free text that ST stored"""
    r = rng.random()
    if kind == 'q1':
        name = text.split(',')[0].strip().upper()
        return ((name + ',' + (payload if r < 0.5 else '1')) + '\r\n').encode('ascii')
    if r < 0.5:
        return (payload.replace('\r', ' ').replace('\n', ' ') + '\r\n').encode('ascii') if payload.strip() else b'0\r\n'
    return rng.choice([b'1\r\n', b'0,0\r\n', b'AxiDraw 7\r\n'])


def odd_errlines(rng, text, payload):
    """error / unexpected lines a legacy board (or something else on the line) answers with: the firmware quotes
    the offending text"""
    body = text.strip()
    quoted = body.replace('\r', ' ').replace('\n', ' ')
    return [ERRLINE,
            ("!8 Err: Unknown command '" + quoted[:2] + ":" + str(len(quoted)) + "'\r\n").encode('ascii'),
            ("!8 Err: Unknown command '" + quoted + "'\r\n").encode('ascii'),
            ("!5 Err: Parameter outside allowed range " + payload.replace('\r', ' ').replace('\n', ' ') + "\r\n").encode('ascii'),
            b'!0 Err: {0} {1} %s %d {cmd}\r\n', b'Err:\r\n', b'!Err: {\r\n']


def odd_wrong_lines(rng, kind, text, payload):
    """a reply that is not the one of this request and not an error line"""
    echo = (text.strip().replace('\r', ' ').replace('\n', ' ') + '\r\n').encode('ascii')
    out = [b'1\r\n', echo, b'{0}\r\n', b'%s\r\n', b'KO\r\n', b'O\r\n', b' \r\n', b'NOK {x}\r\n']
    if kind != 'c':
        out.append(OK)
    return out


def mk_odd_call(kind, text, reply, verbose=True):
    return {'kind': 'c' if kind == 'c' else 'q', 'k': kind, 'port': True, 'cmd': text, 'reply': reply, 'verbose': verbose}


def odd_fault_replies(rng, kind, text, payload, rep, exc, full):
    """every way the reply to this request can go wrong: one fault at every position (exception before / inside /
    instead of / after every line, the line missing, unterminated), every error line and every wrong line in place of
    every reply line, and silence.  full=False: a sample"""
    out = list(fault_variants(rep, exc))
    idx = [i for i, t in enumerate(rep) if t[0] == 'l']
    subs = odd_errlines(rng, text, payload) + odd_wrong_lines(rng, kind, text, payload)
    for li in idx:
        for ln in subs:
            out.append(rep[:li] + [L(ln)] + rep[li + 1:])
            if li == idx[0]:
                out.append(rep[:li] + [L(ln)])                  # ... and nothing after it
    out.append([])                                              # silence
    out.append([['e', rep[0][1]], L(ERRLINE), L(OK)])           # error line, then OK at once
    if not full:
        out = rng.sample(out, min(len(out), 6))
    return out


def gen_odd_text(ctx):
    rng = ctx.rng
    tables = {'q2': Q2, 'q1': Q1, 'c': CM}
    cnt = itertools.count()
    # --- structured: every edge payload x every kind x (first template, one more) x delays x every fault, single calls
    for payload in EDGE_PAYLOADS:
        for kind0 in ('c', 'q1', 'q2'):
            tmpls = [ODD_TEMPLATES[kind0][0], ODD_TEMPLATES[kind0][1 + next(cnt) % (len(ODD_TEMPLATES[kind0]) - 1)]]
            for tm in tmpls:
                text = tm % (payload,)
                kind = kind0 if kind0 == 'c' else query_kind(text)
                data = None if kind == 'c' else odd_data(rng, kind, text, payload)
                for d in (0, 2):
                    rep = base_reply(kind, data, (d, [0, 1, 3][next(cnt) % 3]))
                    exc = EXC_NAMES[next(cnt) % len(EXC_NAMES)]
                    yield {'pre': [], 'w': '', 'calls': [mk_odd_call(kind, text, rep, verbose=bool(next(cnt) % 2))]}
                    yield {'pre': [], 'w': 'x', 'wexc': exc, 'calls': [mk_odd_call(kind, text, rep, verbose=bool(next(cnt) % 2))]}
                    for fr in odd_fault_replies(rng, kind, text, payload, rep, exc, full=(d == 0 or tm is tmpls[0])):
                        yield {'pre': [], 'w': '', 'calls': [mk_odd_call(kind, text, fr, verbose=bool(next(cnt) % 2))]}
    # --- the slow end of the retry window with the edge payloads: error line after 99 / 100 / 101 empty reads
    for payload in EDGE_PAYLOADS:
        for kind0 in ('c', 'q1', 'q2'):
            text = ODD_TEMPLATES[kind0][0] % (payload,)
            kind = kind0 if kind0 == 'c' else query_kind(text)
            for d in (99, 100, 101):
                ln = odd_errlines(rng, text, payload)[next(cnt) % 4]
                yield {'pre': [], 'w': '', 'calls': [mk_odd_call(kind, text, [['e', d], L(ln)], verbose=bool(next(cnt) % 2))]}
    # --- random payloads, in sequences of 1-3 calls: the unusual request at every position among ordinary ones,
    #     the fault on it or on a neighbour; the same unusual text twice with different outcomes
    for _ in range(ctx.n(1500)):
        n = rng.choice([1, 1, 2, 3, 3])
        j = rng.randrange(n)
        calls = []
        payload = odd_payload(rng)
        for i in range(n):
            if i == j or rng.random() < 0.25:
                kind, text = odd_text(rng, rng.choice(['c', 'c', 'q1', 'q2']), payload if rng.random() < 0.7 else odd_payload(rng))
                data = None if kind == 'c' else odd_data(rng, kind, text, payload)
                rep = base_reply(kind, data, (rng.choice(RDELAYS), rng.choice(RDELAYS)))
                if rng.random() < (0.85 if i == j else 0.3):
                    rep = rng.choice(odd_fault_replies(rng, kind, text, payload, rep, rng.choice(EXC_NAMES), full=True))
                calls.append(mk_odd_call(kind, text, rep, verbose=rverbose(rng)))
            else:
                k = rng.choice(['q2', 'q1', 'c'])
                t, x = rng.choice(tables[k])
                rep = base_reply(k, x, (rng.choice(RDELAYS), rng.choice(RDELAYS)))
                if rng.random() < 0.3:
                    rep = rng.choice(fault_variants(rep, rng.choice(EXC_NAMES)))
                calls.append(mk_call(t, rep, verbose=rverbose(rng)))
        w = ''
        if rng.random() < 0.1:
            w = 'o' * rng.randrange(n) + 'x'
        yield {'pre': [], 'w': w, 'wexc': rng.choice(EXC_NAMES), 'calls': calls}


# ---- long but valid request texts (and long reply lines) ---------------------------------------------------------
# "The request is written exactly once" holds for every request, whatever its length: a full-range legacy LM move has
# 70-80 bytes, numeric arguments may be zero- or blank-padded, ST carries free text.  Lengths sit on and around the
# sizes at which a transport layer would cut, chunk or truncate (USB packet 64, powers of two, multiples of 64, a few
# kB), counted with and without the terminator.  Reply lines get the same treatment (an `A` reply has 8 bytes per
# analog channel, up to 131 bytes; QT reads back free text): a primitive that reads a bounded number of bytes per
# readline() splits them.
LONG_BOUNDS_MAIN = [64, 128, 256]
LONG_BOUNDS_MORE = [16, 32, 192, 512, 1024, 2048, 4096]
I32 = [2147483647, -2147483648, -2147483647, 2147483646, -2147483646, 1073741824, -1073741825, 1000000000,
       -1000000000, 1999999999, -1999999999]
LONG_CM = [['EM', '1', '1'], ['SP', '1'], ['SP', '0', '150', '4'], ['SC', '4', '16000'], ['SM', '1000', '250', '-250'],
           ['XM', '500', '10', '10'], ['TP'], ['RB'], ['CS'], ['PO', 'B', '3', '1'], ['sp', '1', '150']]
LONG_Q1 = [['PI', 'B', '3'], ['MR', '3'], ['QG'], ['QM'], ['A'], ['I'], ['V'], ['v'], ['qg'], ['Pi', 'C', '0'], ['mr', '250']]
LONG_Q2 = [['QS'], ['QB'], ['QP'], ['QC'], ['QN'], ['QE'], ['QL'], ['ES'], ['QR'], ['QT'], ['ES', '1'], ['qs']]
LONG_TEXT_TMPL = {'c': ['ST,%s\r', 'ST,%s\r', 'st,%s\r', 'ST,%s'], 'q1': ['PI,%s,3\r', 'MR,%s\r', 'v,%s\r'],
                  'q2': ['QT,%s\r', 'QU,%s\r', 'QN,%s']}
LONG_MODES = ['zeros', 'spaces', 'text']
WORDS = ['AxiDraw', 'plotter', 'lab', 'unit', 'Mini', 'Kit', 'V3', 'A3', 'SE', 'north', 'bench', '7', '12', 'OK', 'ok',
         'x', 'No.', 'Evil', 'Mad', 'Scientist']


def _i32(rng):
    return rng.choice(I32) if rng.random() < 0.65 else rng.randint(-2 ** 31, 2 ** 31 - 1)


def _u31(rng):
    return rng.choice([2147483647, 2147483646, 1073741824, 1000000000, 1999999999]) if rng.random() < 0.65 \
        else rng.randint(0, 2 ** 31 - 1)


def long_move(rng):
    """fields of a legacy move command with full-range arguments (natural text: 35-80 bytes)"""
    f = rng.choice(['LM', 'LM', 'LM', 'LT', 'SM', 'XM', 'HM', 'lm'])
    opt = rng.random() < 0.5
    if f in ('LM', 'lm'):
        a = [_u31(rng), _i32(rng), _i32(rng), _u31(rng), _i32(rng), _i32(rng)] + ([rng.randrange(4)] if opt else [])
    elif f == 'LT':
        a = [rng.choice([4294967295, 2147483648, 1000000000]), _i32(rng), _i32(rng), _i32(rng), _i32(rng)] + \
            ([rng.randrange(4)] if opt else [])
    elif f in ('SM', 'XM'):
        s = lambda: rng.choice([16777215, -16777215, 10000000, -10000000, rng.randint(-16777215, 16777215)])
        a = [rng.choice([16777215, 16777214, 10000000]), s(), s()] + ([rng.randrange(4)] if opt and f == 'SM' else [])
    else:
        a = [rng.choice([25000, 24999, 2])] + ([rng.choice([4294967, -4294967]), rng.choice([4294967, -4294967])] if opt else [])
    out = [f]
    for v in a:
        out.append(('+' if v >= 0 and rng.random() < 0.08 else '') + str(v))
    return out


def long_payload(rng, n):
    """free ASCII text of exactly n characters (nickname-like words, blanks, now and then a format-like fragment);
    no line terminator, no comma-free guarantee needed, never an error-reply marker"""
    out = ''
    while len(out) < n:
        r = rng.random()
        if r < 0.75:
            out += rng.choice(WORDS)
        elif r < 0.9:
            out += str(rng.randrange(10 ** rng.randint(1, 10)))
        else:
            fr = rng.choice(rng.choice(FRAG_CLASSES))
            out += fr if 'Err' not in fr and '\r' not in fr and '\n' not in fr else '#'
        if rng.random() < 0.7:
            out += rng.choice([' ', ' ', '-', '_', '.', '  '])
    out = out[:n]
    if out.endswith('\\'):                       # nothing special about it, but keep the cut visible
        out = out[:-1] + '/'
    return out.replace('Err:', 'Era.')


def pad_fields(rng, fields, extra, mode):
    """the same request, `extra` characters longer: leading zeros in numeric arguments (after the sign) or blanks
    (after the name, around arguments, before the terminator)"""
    fields = list(fields)
    nums = [i for i in range(1, len(fields)) if fields[i].lstrip('+-').isdigit()]
    if mode == 'zeros' and nums:
        ch, slots = '0', (nums if rng.random() < 0.5 else [rng.choice(nums)])
    else:
        ch, slots = ' ', (list(range(len(fields))) if rng.random() < 0.5 else [len(fields) - 1])
    add = {i: 0 for i in slots}
    if rng.random() < 0.5:
        add[rng.choice(slots)] += extra
    else:
        for _ in range(min(extra, 40)):
            add[rng.choice(slots)] += 1
        add[rng.choice(slots)] += max(0, extra - 40)
    for i, k in add.items():
        if not k:
            continue
        f = fields[i]
        if ch == '0':
            sign = f[0] if f[0] in '+-' else ''
            fields[i] = sign + '0' * k + f[len(sign):]
        elif i == 0 or rng.random() < 0.6:
            fields[i] = f + ' ' * k                       # trailing blanks (name: the name is found by strip())
        else:
            fields[i] = ' ' * k + f
    return fields


def long_request(rng, kind0, target, mode, term=None):
    """(kind, text) with len(text) == target where the family allows it (else the natural text)"""
    term = ('\r' if rng.random() < 0.9 else '') if term is None else term
    if mode == 'text':
        tm = rng.choice(LONG_TEXT_TMPL[kind0])
        n = target - (len(tm) - 2)
        text = tm % (long_payload(rng, max(n, 1)),)
    else:
        if kind0 == 'c':
            cands = [long_move(rng) for _ in range(4)] + [rng.choice(LONG_CM)]
        else:
            cands = [rng.choice(LONG_Q1 if kind0 == 'q1' else LONG_Q2) for _ in range(2)]
        fits = [f for f in cands if len(','.join(f)) + len(term) <= target] or [min(cands, key=lambda f: len(','.join(f)))]
        f = fits[0] if kind0 == 'c' and rng.random() < 0.7 else rng.choice(fits)
        extra = target - len(','.join(f)) - len(term)
        if extra > 0:
            f = pad_fields(rng, f, extra, mode)
        text = ','.join(f) + term
    return (kind0 if kind0 == 'c' else query_kind(text)), text


def long_line(rng, kind, name, target):
    """a data line of exactly `target` bytes (terminator included) a board may send to this query"""
    body = max(target - 2, 1)
    if name == 'A':
        n = max(1, min(16, (body - 1) // 8))
        s = 'A' + ''.join(',%02d:%04d' % (c, rng.randrange(1024)) for c in sorted(rng.sample(range(16), n)))
    elif kind == 'q1':
        s = (name + ',')[:max(body - 1, 0)]
        s += long_payload(rng, body - len(s))
    else:
        s = long_payload(rng, body)
        if rng.random() < 0.15:
            s = ('OK' + s)[:body]
    return (s + '\r\n').encode('ascii')


def long_data(rng, kind, text, line_len=None):
    """data line for a (long) query: the one of the request table for this name, or a long line"""
    if kind == 'c':
        return None
    name = text.split(',')[0].strip().upper()
    if line_len is not None:
        return long_line(rng, kind, name, line_len)
    known = [d for t, d in (Q1 if kind == 'q1' else Q2) if t.split(',')[0].strip().upper() == name]
    if known:
        return rng.choice(known)
    return (name + ',1\r\n').encode('ascii') if kind == 'q1' else rng.choice([b'1\r\n', b'0,0\r\n', b'AxiDraw 7\r\n'])


def long_len(rng):
    """a length on / next to a chunking size, or anywhere between 40 and 300, rarely a few kB"""
    r = rng.random()
    if r < 0.45:
        return rng.choice([64, 64, 64, 128, 128, 256, 192, 320, 512]) + rng.choice([-2, -1, 0, 1, 1, 2])
    if r < 0.6:
        return 64 * rng.randint(1, 9) + rng.choice([-1, 0, 1])
    if r < 0.93:
        return rng.randint(40, 300)
    if r < 0.98:
        return rng.choice(LONG_BOUNDS_MORE) + rng.choice([-1, 0, 1])
    return rng.randint(1000, 6000)


def long_call(rng, kind0=None, target=None, mode=None, faulty=0.0, line_len=None, verbose=Ellipsis):
    kind0 = kind0 or rng.choice(['c', 'c', 'q1', 'q2'])
    kind, text = long_request(rng, kind0, target or long_len(rng), mode or rng.choice(LONG_MODES))
    data = long_data(rng, kind, text, line_len)
    rep = base_reply(kind, data, (rng.choice(RDELAYS), rng.choice(RDELAYS)))
    if rng.random() < faulty:
        rep = rng.choice(odd_fault_replies(rng, kind, text, text[3:19], rep, rng.choice(EXC_NAMES), full=True))
    return mk_odd_call(kind, text, rep, verbose=rverbose(rng, 0.6) if verbose is Ellipsis else verbose)


def gen_long(ctx):
    rng = ctx.rng
    tables = {'q2': Q2, 'q1': Q1, 'c': CM}
    cnt = itertools.count()

    def ordinary(k=None, faulty=0.0):
        k = k or rng.choice(['q2', 'q1', 'c'])
        t, x = rng.choice(tables[k])
        rep = base_reply(k, x, (rng.choice(RDELAYS), rng.choice(RDELAYS)))
        if rng.random() < faulty:
            rep = rng.choice(fault_variants(rep, rng.choice(EXC_NAMES)))
        return mk_call(t, rep, verbose=rverbose(rng))

    # --- structured, single calls on a fresh port: kind x padding mode x length on/around 64, 128, 256 (with and
    #     without terminator) x {no fault, write fault, one fault of every kind at every reply position}
    for kind0 in ('c', 'q1', 'q2'):
        for bound in LONG_BOUNDS_MAIN:
            for off in (-2, -1, 0, 1, 2):
                for mode in LONG_MODES:
                    kind, text = long_request(rng, kind0, bound + off, mode, term='\r' if next(cnt) % 5 else '')
                    data = long_data(rng, kind, text)
                    rep = base_reply(kind, data, (DELAYS[next(cnt) % 3], DELAYS[next(cnt) % 2]))
                    exc = EXC_NAMES[next(cnt) % len(EXC_NAMES)]
                    yield {'pre': [], 'w': '', 'calls': [mk_odd_call(kind, text, rep, verbose=bool(next(cnt) % 2))]}
                    yield {'pre': [], 'w': 'x', 'wexc': exc, 'calls': [mk_odd_call(kind, text, rep, verbose=bool(next(cnt) % 2))]}
                    frs = odd_fault_replies(rng, kind, text, text[3:19], rep, exc, full=(off in (0, 1) and bound == 64))
                    for fr in frs:
                        yield {'pre': [], 'w': '', 'calls': [mk_odd_call(kind, text, fr, verbose=bool(next(cnt) % 2))]}
    # --- the other chunking sizes, up to a few kB
    for bound in LONG_BOUNDS_MORE:
        for off in (-1, 0, 1):
            for kind0 in ('c', 'q1', 'q2'):
                mode = LONG_MODES[next(cnt) % 3]
                kind, text = long_request(rng, kind0, bound + off, mode, term='\r')
                rep = base_reply(kind, long_data(rng, kind, text), (next(cnt) % 2, 0))
                exc = EXC_NAMES[next(cnt) % len(EXC_NAMES)]
                yield {'pre': [], 'w': '', 'calls': [mk_odd_call(kind, text, rep), ordinary()]}
                yield {'pre': [], 'w': 'x', 'wexc': exc, 'calls': [mk_odd_call(kind, text, rep, verbose=bool(off))]}
                for fr in rng.sample(fault_variants(rep, exc), 2):
                    yield {'pre': [], 'w': '', 'calls': [mk_odd_call(kind, text, fr, verbose=bool(next(cnt) % 2))]}
    # --- full-range legacy moves as they come (no padding): every natural length the argument ranges give
    for _ in range(ctx.n(250)):
        term = '\r' if rng.random() < 0.9 else ''
        text = ','.join(long_move(rng)) + term
        rep = base_reply('c', None, (rng.choice(RDELAYS), 0))
        r = rng.random()
        w = ''
        if r < 0.25:
            rep = rng.choice(odd_fault_replies(rng, 'c', text, text[3:19], rep, rng.choice(EXC_NAMES), full=True))
        elif r < 0.35:
            w = 'x'
        calls = [mk_odd_call('c', text, rep, verbose=rverbose(rng))]
        if rng.random() < 0.5:
            calls.append(ordinary())
        yield {'pre': [], 'w': w, 'wexc': rng.choice(EXC_NAMES), 'calls': calls}
    # --- long reply lines: `A` with 1..16 channels, free text (QT), lengths on/around 64, 128, 256; then another request
    for kind0, names in (('q1', [['A'], ['a'], ['I'], ['V'], ['PI', 'B', '3']]), ('q2', [['QT'], ['QU', '3'], ['QS']])):
        for bound in LONG_BOUNDS_MAIN:
            for off in (-1, 0, 1, 2, 3):
                f = names[next(cnt) % len(names)]
                text = ','.join(f) + '\r'
                data = long_line(rng, kind0, f[0].upper(), bound + off)
                rep = base_reply(kind0, data, (DELAYS[next(cnt) % 3], DELAYS[next(cnt) % 2]))
                exc = EXC_NAMES[next(cnt) % len(EXC_NAMES)]
                yield {'pre': [], 'w': '', 'calls': [mk_odd_call(kind0, text, rep), ordinary()]}
                for fr in rng.sample(fault_variants(rep, exc), 3):
                    yield {'pre': [], 'w': '', 'calls': [mk_odd_call(kind0, text, fr, verbose=bool(next(cnt) % 2)), ordinary()]}
    for n in range(1, 17):
        data = long_line(rng, 'q1', 'A', 3 + 8 * n)
        yield {'pre': [], 'w': '', 'calls': [mk_odd_call('q1', 'A\r', base_reply('q1', data, (n % 2, 0))), ordinary('q2')]}
    # --- in sequences: every kind of long request followed by every kind of next request (alignment is decided by
    #     what the next request gets), at 64/65 and 128/129 bytes; the same long text twice with different answers
    for kind0 in ('c', 'q1', 'q2'):
        for target in (64, 65, 66, 128, 129, 257):
            for k2 in ('q2', 'q1', 'c'):
                a = long_call(rng, kind0, target, LONG_MODES[next(cnt) % 3], verbose=True)
                a['reply'] = base_reply(a['k'], long_data(rng, a['k'], a['cmd']), (next(cnt) % 2, 0))
                yield {'pre': [], 'w': '', 'calls': [a, ordinary(k2), ordinary('q2')]}
                yield {'pre': [], 'w': '', 'calls': [ordinary(k2), a, ordinary('q2')]}
            b = long_call(rng, kind0, target, 'text', verbose=False)
            b2 = dict(b)
            b2['reply'] = base_reply(b['k'], long_data(rng, b['k'], b['cmd'], None if b['k'] == 'c' else 40 + next(cnt) % 60), (1, 0))
            yield {'pre': [], 'w': '', 'calls': [b, b2, ordinary('q2'), dict(b)]}
    # --- random: 1-4 calls, long requests at any position among ordinary ones (several long ones back to back too),
    #     faults on the long request, on a neighbour, at a write
    for _ in range(ctx.n(700)):
        n = rng.choice([1, 1, 2, 2, 3, 4])
        j = rng.randrange(n)
        p_fault = rng.choice([0.0, 0.0, 0.3, 0.8])
        calls = []
        for i in range(n):
            if i == j or rng.random() < 0.3:
                calls.append(long_call(rng, faulty=p_fault if i == j else 0.2,
                                       line_len=long_len(rng) if rng.random() < 0.15 else None))
            else:
                calls.append(ordinary(faulty=0.3 if p_fault else 0.0))
        w = ''
        if rng.random() < 0.12:
            w = 'o' * rng.randrange(n) + 'x'
        yield {'pre': [], 'w': w, 'wexc': rng.choice(EXC_NAMES), 'calls': calls}


def gen_verbose(ctx):
    """every kind of request x every kind of fault (write fault, exception before / inside / instead of / after every
    reply line, missing and unterminated lines, error lines, wrong lines, silence, 101 empty reads) x every verbose
    value, single calls and followed by an ordinary request; a few conforming exchanges per value as well"""
    rng = ctx.rng
    tables = {'q2': Q2, 'q1': Q1, 'c': CM}
    cnt = itertools.count()
    for kind in ('q2', 'q1', 'c'):
        for d in (0, 3):
            text, data = pick(tables[kind], next(cnt))
            if text.strip().lower() == 'rb':          # the reboot command is reported differently: taken separately below
                text, data = pick(tables[kind], next(cnt))
            rep = base_reply(kind, data, (d, d // 3))
            exc = EXC_NAMES[next(cnt) % len(EXC_NAMES)]
            faults = odd_fault_replies(rng, kind, text, text.strip(), rep, exc, full=True) + [[['e', 101]], [['e', 101]] + rep[1:]]
            for v in VERBOSE_VALUES:
                yield {'pre': [], 'w': '', 'calls': [mk_odd_call(kind, text, rep, verbose=v)]}
                yield {'pre': [], 'w': 'x', 'wexc': exc, 'calls': [mk_odd_call(kind, text, rep, verbose=v)]}
                for i, fr in enumerate(faults):
                    calls = [mk_odd_call(kind, text, fr, verbose=v)]
                    if (i + next(cnt)) % 4 == 0:
                        t2, x2 = pick(Q2, next(cnt))
                        calls.append(mk_call(t2, base_reply('q2', x2, (0, 0)), verbose=VERBOSE_VALUES[next(cnt) % len(VERBOSE_VALUES)]))
                    yield {'pre': [], 'w': '', 'calls': calls}
    # the reboot command (its I/O fault is deliberately not reported) and a request without port / text
    for v in VERBOSE_VALUES:
        for text in ('RB\r', 'rb\r'):
            exc = EXC_NAMES[next(cnt) % len(EXC_NAMES)]
            yield {'pre': [], 'w': 'x', 'wexc': exc, 'calls': [mk_call(text, [['e', 0], L(OK)], verbose=v)]}
            yield {'pre': [], 'w': '', 'calls': [mk_call(text, [['x', exc]], verbose=v)]}
            yield {'pre': [], 'w': '', 'calls': [mk_call(text, [], verbose=v)]}
        yield {'pre': [], 'w': '', 'calls': [{'kind': 'q', 'port': False, 'cmd': 'QS\r', 'reply': [], 'verbose': v},
                                             {'kind': 'c', 'port': True, 'cmd': None, 'reply': [], 'verbose': v}]}


def load_corpus(ctx):
    out = []
    for f in sorted(glob.glob(os.path.join(common.VERIF, 'corpus', 'C07', '*.jsonl'))):
        for line in open(f):
            line = line.strip()
            if line and not line.startswith('#'):
                out.append(json.loads(line))
    if getattr(ctx, 'replay', None):
        try:
            rp = json.load(open(ctx.replay))
            for v in rp.get('violations', []) + rp.get('model_vs_implementation', []):
                h = v.get('input', {}).get('history') if isinstance(v.get('input'), dict) else None
                if h:
                    out.append(h)
        except (OSError, ValueError) as e:
            raise common.Infra(f'cannot read replay {ctx.replay}: {e}')
    return out


# ------------------------------------------------------------------------------------------------
EXPECTED_PATHS = ['q2:done:data', 'q2:done:nodata', 'q2:io:data', 'q2:io:nodata', 'q1:done:data', 'q1:done:nodata',
                  'q1:io:nodata', 'c:done', 'c:io', 'noport', 'notext']


def run(ctx):
    from plotink import ebb_serial as es
    lg = logging.getLogger(es.__name__)
    lg.propagate = False
    lg.setLevel(logging.DEBUG)
    if not lg.handlers:
        lg.addHandler(logging.NullHandler())

    # ---- parameters: source vs model
    src = os.path.join(common.REPO, 'plotink', 'ebb_serial.py')
    ex = extract_params(src)
    std = None
    if ctx.driver:
        r, nm, d = ctx.driver.batch(['c07 params'])[0].split(' ')
        std = (int(r), [] if nm == '~' else [common.dec_str(x) for x in nm.split('|')], d == '1')
        if (std[0], std[1]) != (DOC_RETRY, DOC_NO_OK) or not std[2]:
            raise common.Infra(f'Lean C07.std {std} is not the documented parameter set')
    ctx.notes.append(f'parameters extracted from source: {ex}')
    want = {'bounds': [DOC_RETRY] * 3, 'noOK': DOC_NO_OK, 'decode': True}
    params = (DOC_RETRY, DOC_NO_OK, True)
    if ex['bounds'] is None or None in ex['bounds'] or ex['noOK'] is None or ex['decode'] is None:
        ctx.disagree('parameters of query/command not recognisable in the source (loop bounds, no-OK list, decode)',
                     {'file': 'plotink/ebb_serial.py'}, str(ex), str(want))
    else:
        if ex != want:
            ctx.disagree('source parameters differ from the model parameters the theorems are applied to (C07.std)',
                         {'file': 'plotink/ebb_serial.py'}, str(ex), str(want))
        params = (ex['bounds'][0], ex['noOK'], ex['decode'])   # the model follows the source where it can

    # ---- histories
    def histories():
        for h in load_corpus(ctx):
            yield 'corpus', h
        for h in gen_verbose(ctx):
            yield 'verbose', h
        for h in gen_long(ctx):
            yield 'long', h
        for h in gen_odd_text(ctx):
            yield 'odd', h
        for h in gen_exhaustive(ctx):
            yield 'exh', h
        for h in gen_random(ctx):
            yield 'rnd', h

    batch, nhist = [], 0

    def flush():
        if not batch:
            return
        outs = ctx.driver.batch([model_line(params, h) for _, h, _, _ in batch]) if ctx.driver else [None] * len(batch)
        for (src_, h, obs, dom), out in zip(batch, outs):
            if out is None:
                continue
            per = out.split(' ; ')
            if len(per) != len(obs):
                raise common.Infra(f'driver answer malformed: {out!r} for {model_line(params, h)!r}')
            for k, (m, o) in enumerate(zip(per, obs)):
                f = m.split(' ')
                if len(f) != 7:
                    raise common.Infra(f'driver answer malformed: {m!r}')
                mcanon, path, spec = ' '.join(f[:5]), f[5], f[6]
                call = h['calls'][k]
                ctx.count((json.dumps(h, sort_keys=True), k), path, bool(call['port'] and call['cmd'] is not None))
                if mcanon != o['canon']:
                    if dom and call['cmd'] != '':
                        ctx.disagree('call result (value/type/exception, writes, reads, queue left)',
                                     {'history': h, 'call': k}, o['canon'], mcanon)
                    else:
                        ctx.out_of_domain.append({'history': h, 'call': k, 'impl': o['canon'], 'model': mcanon})
                    break    # later calls start from different device states
                if dom and spec != '-':
                    req = strict_expectation(h, k, o)
                    if req is not None and 'S' + common.enc_str(req) != spec:
                        raise common.Infra(f'Python oracle and Lean Spec `arrived` disagree on {h} call {k}: {req!r} vs {spec}')
        # ---- validation of the translator: the regenerated functions on the same histories, must be identical
        gouts = ctx.driver.batch([gen_line(h) for _, h, _, _ in batch]) if ctx.driver else []
        for (src_, h, obs, dom), out in zip(batch, gouts):
            per = out.split(' ; ')
            for k, o in enumerate(obs):
                g = per[k] if k < len(per) else 'MISSING'
                ctx.paths['gen:' + ('same' if g == o['canon'] else 'differs')] = \
                    ctx.paths.get('gen:' + ('same' if g == o['canon'] else 'differs'), 0) + 1
                if g != o['canon']:
                    if dom:
                        ctx.disagree('regenerated code (Gen.ebb_serial_query/command) vs implementation: call result '
                                     '(value/type/escaping exception class, writes, reads, queue left)',
                                     {'history': h, 'call': k}, o['canon'], g)
                    else:
                        ctx.out_of_domain.append({'history': h, 'call': k, 'impl': o['canon'], 'gen': g})
                    break
        batch.clear()

    import random as _random
    grp_rng = _random.Random(ctx.seed * 7919 + 7)

    def groups():
        """single histories; about half of the random ones are paired and run interleaved on two ports"""
        held = None
        for src_, h in histories():
            if src_ == 'rnd' and grp_rng.random() < 0.5:
                if held is None:
                    held = h
                else:
                    yield src_, [held, h]
                    held = None
            else:
                yield src_, [h]
        if held is not None:
            yield 'rnd', [held]

    ninter = 0
    for src_, hs in groups():
        if len(hs) == 1:
            results = [run_impl(es, hs[0])]
        else:
            ninter += 1
            results = run_impl_interleaved(es, hs, grp_rng)
        for h, (obs, port) in zip(hs, results):
            nhist += 1
            dom = in_alphabet(h)
            judge(ctx, h, obs, port)
            if src_ == 'rnd' or nhist % 4001 == 1:
                ctx.sample({'history': model_line(params, h), 'impl': [o['canon'] for o in obs]}, cap=8)
            if ctx.driver:
                batch.append((src_, h, obs, dom))
                if len(batch) >= 5000:
                    flush()
            else:
                for k, o in enumerate(obs):
                    ctx.count((json.dumps(h, sort_keys=True), k), None, bool(h['calls'][k]['port']))
    flush()
    ctx.notes.append(f'{nhist} histories, {ninter} pairs of them interleaved on two port objects')
    if ctx.driver and not ctx.disagreements and not ctx.violations:
        missing = [p for p in EXPECTED_PATHS if p not in ctx.paths]
        if missing:
            raise common.Infra(f'model paths without input: {missing}')
