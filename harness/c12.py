"""C12 — length parsing and unit conversion (plot_utils.parseLengthWithUnits, unitsToUserUnits,
userUnitToUnits, getLength, getLengthInches, PX_PER_INCH).

Streams
  A  in-domain: numeral (finite decimal/scientific, from a grammar) x every unit x surrounding blanks,
     through all five functions; oracle from the property statement with exact Fractions
  B  malformed: unsupported units, no numeric part -> None from every function, never an exception
  C  outside the quantifier (nan/inf/overflowing numerals, blanks between number and unit, underscores):
     model vs implementation only, differences logged
  D  Python float(str) vs Model/PyFloat.lean (the `parseNum` parameter of the models), ASCII fuzz
  S  call SEQUENCES in one process (state carried between calls: per-unit caches, memoised parses, stale
     references): the same text with different references / defaults, the same reference with different
     texts, the same number with every unit in turn, the five functions interleaved on one string,
     identical calls repeated, malformed text before well-formed text of the same unit, and the SAME
     document object with its attribute changed in place between calls; every call is judged
  T  every numeric literal of the four converter tables, re-read from the current source by an AST walk,
     against the constants of the model
"""
import ast, inspect, json, math, os, re
from fractions import Fraction
from .common import enc_str, frac_str, dec_str, Infra

RULE = ('exhaustive unit x function x numeral-style cross product plus random numerals (sign, leading/trailing dot, '
        'exponent forms, long mantissas, surrounding ASCII blanks), malformed stream (unsupported units, no numeric part, '
        'doubled units, embedded blanks), float() fuzz; a case is non-trivial when a unit suffix or a malformed text is '
        'present; distinct by (function, arguments)')
TRUSTED = ['Model/PyFloat.lean as model of CPython float(str) on ASCII (differential-tested in this run, stream D)',
           'hand-written Model/C12.lean tied by differential execution and by AST extraction of every table literal',
           'binary64 arithmetic is runtime residue: results compared within a measured ulp tolerance of the exact value',
           'lxml attribute lookup replaced by a minimal document stub (lxml.etree when the text is XML-legal)']
ASSUMPTIONS = ['ASCII text; numerals whose value and converted values lie in the normal binary64 range',
               'nan / inf / infinity and numerals that overflow binary64 are treated as OUTSIDE the quantifier '
               '("finite decimal/scientific numerals"): logged, not judged',
               'document-attribute readers receive an object with .document.getroot().get(name)']
STAGED = []

UNITS = ['', 'px', 'in', 'mm', 'cm', 'pt', 'pc', 'Q', 'q', '%']
CANON = {'': 'px', 'q': 'Q'}
SVG = {'': Fraction(1), 'px': Fraction(1), 'in': Fraction(96), 'mm': Fraction(96) / Fraction(254, 10),
       'cm': Fraction(96) / Fraction(254, 100), 'pt': Fraction(96, 72), 'pc': Fraction(16),
       'Q': Fraction(96) / Fraction(1016, 10), 'q': Fraction(96) / Fraction(1016, 10)}
BLANKS = [' ', ' ', ' ', '\t', '\n', '\r', '\x0b', '\x0c', '\x1c', '\x1f']
BAD_UNITS = ['em', 'ex', 'rem', 'ch', 'vw', 'vh', 'vmin', 'vmax', 'deg', 'm', 'ft', 'px px', 'pxpx', 'mmm', 'inin',
             'x', 'n', 'p', 'c', 'cmm', '%%', 'Qq', 'pxx', '$', 'mm.', 'e', 'E', 'f']
NO_NUM = ['', ' ', '\t \n', 'px', 'in', 'mm', 'cm', 'pt', 'pc', 'Q', 'q', '%', ' mm ', '.', '-', '+', '+.', 'e5', '.e5',
          'abc', '-px', '.mm', '+%', 'em', 'ex', 'e', '--', 'pxpx', 'mmcm']
TOL_CONV = 4      # ulps, converters (measured: see notes in the evidence)
TOL_BACK = 8      # ulps, round trip through both converters


# ----------------------------------------------------------------------------------------------
# numerals
# ----------------------------------------------------------------------------------------------
def dec_parts(q):
    """q (terminating decimal) = sign * M * 10**E with E <= 0"""
    q = Fraction(q)
    sign = -1 if q < 0 else 1
    q = abs(q)
    E = 0
    while q.denominator != 1:
        q *= 10
        E -= 1
        if E < -2000:
            raise ValueError('not a terminating decimal')
    return sign, int(q), E


def render(rng, q, plain=False):
    """a decimal/scientific numeral whose exact value is q, in a random style"""
    sign, M, E = dec_parts(q)
    if plain:
        X, show_exp = 0, False
    else:
        r = rng.random()
        if r < 0.45:
            X, show_exp = 0, rng.random() < 0.15
        else:
            X, show_exp = rng.randint(-6, 6), True
            if rng.random() < 0.15:
                X = rng.choice([-25, -12, 12, 25])
    k = X - E                      # digits after the point in the mantissa text
    digits = str(M)
    if k <= 0:
        ip, fp = digits + '0' * (-k), ''
        if M == 0:
            ip = '0'
    else:
        digits = digits.rjust(k + 1, '0')
        ip, fp = digits[:-k], digits[-k:]
    if not plain:
        if rng.random() < 0.15:
            fp += '0' * rng.randint(1, 3)
        if rng.random() < 0.1:
            ip = '0' * rng.randint(1, 2) + ip
        if fp and ip.strip('0') == '' and rng.random() < 0.4:
            ip = ''                                  # leading dot
    if fp:
        body = ip + '.' + fp
    else:
        body = ip + ('.' if (not plain and rng.random() < 0.15) else '')
    if show_exp:
        es = str(abs(X))
        if rng.random() < 0.2:
            es = '0' * rng.randint(1, 2) + es
        body += rng.choice('eE') + ('-' if X < 0 else rng.choice(['', '', '+'])) + es
    if sign < 0 or (M == 0 and not plain and rng.random() < 0.1):
        s = '-'
    else:
        s = '+' if (not plain and rng.random() < 0.15) else ''
    return s + body


def rand_value(rng, big=False):
    """a finite decimal value (Fraction)"""
    r = rng.random()
    if r < 0.15:
        return Fraction(rng.choice([0, 1, 2, 10, 96, 100, 254, 72, 6, 16, -1, -96]))
    if r < 0.45:
        return Fraction(rng.randint(-100000, 100000), 10 ** rng.randint(0, 4))
    if r < 0.6:   # dyadic: exact in binary64
        return Fraction(rng.randint(-4096, 4096), 2 ** rng.randint(0, 10))
    if r < 0.75:  # long mantissa
        nd = rng.randint(17, 40)
        return Fraction(rng.randint(10 ** (nd - 1), 10 ** nd), 10 ** rng.randint(0, nd + 3)) * rng.choice([1, -1])
    e = rng.randint(-300, 300) if big else rng.randint(-25, 25)
    return Fraction(rng.randint(1, 10 ** rng.randint(1, 17))) * Fraction(10) ** e * rng.choice([1, 1, -1])


def blanks(rng, allow_empty=True):
    n = rng.choice([0, 0, 1, 1, 2, 3]) if allow_empty else rng.randint(1, 3)
    return ''.join(rng.choice(BLANKS) for _ in range(n))


def to_float(q):
    """correctly rounded binary64 value of the exact rational q (inf on overflow)"""
    try:
        return float(Fraction(q))
    except OverflowError:
        return math.inf if q > 0 else -math.inf


def ulps(x, exact):
    """distance of the float x from the exact rational, in ulps of the exact value"""
    exact = Fraction(exact)
    if not math.isfinite(x):
        return math.inf
    d = abs(Fraction(x) - exact)
    if d == 0:
        return 0.0
    ref = to_float(exact)
    if not math.isfinite(ref):
        return math.inf
    u = Fraction(math.ulp(ref if ref != 0 else 0.0))
    q = d / u
    return float(q) if q < 10 ** 300 else math.inf


def executable(text):
    """the Lean model evaluates 10**exponent exactly; exponents of five or more digits are left out"""
    return not re.search(r'[eE][+-]?[0-9_]{5,}', text)


def in_range(q):
    q = abs(Fraction(q))
    return q == 0 or (Fraction(1, 10 ** 290) < q < Fraction(10 ** 290))


# ----------------------------------------------------------------------------------------------
# document stub for getLength / getLengthInches
# ----------------------------------------------------------------------------------------------
class _FakeRoot:
    def __init__(self, attrs):
        self.attrs = attrs

    def get(self, name, default=None):
        return self.attrs.get(name, default)


class _FakeDoc:
    def __init__(self, root):
        self.root = root

    def getroot(self):
        return self.root


class Stub:
    """what getLength/getLengthInches need: .document.getroot().get(name)"""

    def __init__(self, attr, name='width'):
        self.kind = 'fake'
        doc = None
        try:
            from lxml import etree
            root = etree.fromstring('<svg xmlns="http://www.w3.org/2000/svg"/>')
            if attr is not None:
                root.set(name, attr)             # raises ValueError on XML-illegal characters
            if root.get(name) == attr:
                doc = etree.ElementTree(root)
                self.kind = 'lxml'
        except Exception:
            doc = None
        if doc is None:
            doc = _FakeDoc(_FakeRoot({} if attr is None else {name: attr}))
        self.document = doc

    def set(self, name, attr):
        """change (or remove, attr=None) the attribute IN PLACE on the same document object"""
        root = self.document.getroot()
        if self.kind == 'lxml':
            if attr is None:
                if name in root.attrib:
                    del root.attrib[name]
            else:
                root.set(name, attr)
        else:
            if attr is None:
                root.attrs.pop(name, None)
            else:
                root.attrs[name] = attr


# ----------------------------------------------------------------------------------------------
# unit-table literals of the current source (AST walk)
# ----------------------------------------------------------------------------------------------
def source_constants(pu):
    """{'ppi': Fraction, fn: [Fraction, ...] in source order}; a float literal stands for its decimal reading"""
    src = inspect.getsource(pu)
    tree = ast.parse(src)
    out = {}
    for node in tree.body:
        if isinstance(node, ast.Assign) and len(node.targets) == 1 and isinstance(node.targets[0], ast.Name) \
                and node.targets[0].id == 'PX_PER_INCH' and isinstance(node.value, ast.Constant):
            out['ppi'] = Fraction(repr(node.value.value))
        if isinstance(node, ast.FunctionDef) and node.name in ('unitsToUserUnits', 'userUnitToUnits', 'getLength',
                                                               'getLengthInches'):
            lits = []
            for sub in ast.walk(node):
                if isinstance(sub, ast.Constant) and isinstance(sub.value, (int, float)) and not isinstance(sub.value, bool):
                    lits.append((sub.lineno, sub.col_offset, Fraction(repr(sub.value))))
            out[node.name] = [v for _, _, v in sorted(lits)]
    return out


def model_constants(ans):
    out = {}
    for part in ans.split():
        k, v = part.split('=')
        if k == 'ppi':
            out[k] = Fraction(v)
        else:
            out[k] = [Fraction(x) for x in v.split(',')]
    return out


XBLANKS = [' ', ' ', '\t', '\n', '\r']


def xblanks(rng):
    return ''.join(rng.choice(XBLANKS) for _ in range(rng.choice([0, 0, 1, 2])))


def seq_jobs(rng, n, tag):
    """ordered groups of related calls: [(stream, fn, args, extra, meta)]; list order = call order"""
    out = []
    REFS = [816, 1056.0, 100, 0, 0.0, 12.5, -50, 1, 0.125, 300]
    for i in range(n):
        start = len(out)
        plain = i < 8
        v = rand_value(rng) if not plain else Fraction(rng.choice([50, 25, 1, 12.5, 96, 254, 6, 72, -10, 100])) / rng.choice([1, 10])

        def T(val, unit):
            if plain:
                return render(rng, val, plain=True) + unit
            return xblanks(rng) + render(rng, val) + unit + xblanks(rng)

        def A(fn, args, val, unit, **meta):
            out.append(('A', fn, args, (val, unit), dict(meta)))

        u = rng.choice(UNITS)
        r1, r2 = rng.sample(REFS, 2)
        kind = i % 8
        if kind == 0:       # same text, different references / defaults
            for unit in ('%', u):
                t = T(v, unit)
                for r in (r1, r2, None, 0, r1):
                    A('uu', (t, r), v, unit)
                for dflt in (r2, 0, r1, r2):
                    A('len', (t, dflt), v, unit)
                A('uu', (t, r2), v, unit)
        elif kind == 1:     # same reference, different percentage texts; then another reference
            v2 = v / 2 + 1
            for r in (r1, r2):
                for val in (v, v2, v):
                    t = T(val, '%')
                    A('uu', (t, r), val, '%')
                    A('len', (t, r), val, '%')
        elif kind == 2:     # the five functions interleaved on one string
            t = T(v, u)
            cu = CANON.get(u, u)
            x = None if u == '%' else to_float(v * SVG[u])
            A('parse', (t,), v, u)
            A('uu', (t, r1), v, u)
            A('len', (t, r2), v, u)
            A('inch', (t,), v, u)
            A('uu', (t, r2), v, u)
            A('len', (t, r1), v, u)
            if x is not None and math.isfinite(x):
                out.append(('A', 'back', (x, cu), None, {}))
                out.append(('A', 'back', (x, rng.choice([w for w in UNITS if w != '%'])), None, {}))
            A('parse', (t,), v, u)
            A('inch', (t,), v, u)
            A('uu', (t, None), v, u)
        elif kind == 3:     # identical calls repeated
            t = T(v, u)
            for _ in range(3):
                A('parse', (t,), v, u)
            for _ in range(3):
                A('uu', (t, r1), v, u)
            for _ in range(3):
                A('len', (t, r1), v, u)
            for _ in range(3):
                A('inch', (t,), v, u)
            for _ in range(3):
                out.append(('A', 'back', (96.0, u), None, {}))
        elif kind == 4:     # the same number with every unit in turn, then the first again
            order = UNITS[:]
            rng.shuffle(order)
            for unit in order + [order[0]]:
                t = T(v, unit)
                A('uu', (t, r1), v, unit)
                A('len', (t, r1), v, unit)
                A('inch', (t,), v, unit)
                A('parse', (t,), v, unit)
            d = to_float(v)
            if math.isfinite(d):
                for unit in order + [order[0]]:
                    out.append(('A', 'back', (d, unit), None, {}))
        elif kind == 5:     # one document object, attribute changed in place between calls
            sid = (tag, i)
            u2 = rng.choice([w for w in UNITS if w != u])
            v2 = v * 3 + 1
            t1, t2 = T(v, u), T(v2, u2)
            for (t, val, unit) in ((t1, v, u), (t2, v2, u2), (t1, v, u)):
                A('len', (t, r1), val, unit, stub=sid)
                A('inch', (t,), val, unit, stub=sid)
                A('len', (t, r2), val, unit, stub=sid)
            out.append(('A0', 'len', (None, r1), None, {'stub': sid}))
            out.append(('A0', 'inch', (None,), None, {'stub': sid}))
            A('len', (t2, r1), v2, u2, stub=sid)
            A('len', (t1, r2), v, u, stub=sid, name='height')      # another attribute of the same object
            A('inch', (t2,), v2, u2, stub=sid)
            A('inch', (t1,), v, u, stub=sid, name='height')
        elif kind == 6:     # malformed text, then well-formed text with the same ending; None in between
            bu = rng.choice(['em', 'ex', 'rem', 'vw', 'pxpx', 'mmm'])
            tb = T(v, bu)
            for fn, args in (('parse', (tb,)), ('uu', (tb, r1)), ('len', (tb, r1)), ('inch', (tb,))):
                out.append(('B', fn, args, 'unsupported unit', {}))
            for unit in ('mm', 'px', u):
                out.append(('B', 'uu', (unit, r1), 'no numeric part', {}))
                t = T(v, unit)
                A('parse', (t,), v, unit)
                A('uu', (t, r1), v, unit)
                out.append(('A0', 'uu', (None, r1), None, {}))
                A('len', (t, r2), v, unit)
                A('inch', (t,), v, unit)
            for fn, args in (('parse', (tb,)), ('uu', (tb, r2))):
                out.append(('B', fn, args, 'unsupported unit', {}))
        else:               # userUnitToUnits: same number / different units, same unit / different numbers, None between
            ds = [to_float(v), 96, 96.0, 0, to_float(v) * 2 + 1, -7.5]
            ds = [d for d in ds if math.isfinite(d)]
            for d in ds[:3]:
                for unit in ('mm', 'cm', 'mm', u, 'em', u):
                    out.append(('A', 'back', (d, unit), None, {}))
            for unit in (u, 'in'):
                for d in ds + [None, ds[0]]:
                    out.append(('A', 'back', (d, unit), None, {}))
        for j in range(start, len(out)):
            out[j][4]['seq'] = (tag, i)
    return [o for o in out if o is not None]


# ----------------------------------------------------------------------------------------------
def canon_out(r):
    """canonical text of a converter result, as the driver prints it"""
    if r is None:
        return 'None'
    if isinstance(r, bool) or not isinstance(r, (int, float)):
        return 'OTHER:' + type(r).__name__
    if isinstance(r, float) and not math.isfinite(r):
        return 'NONFINITE'
    return 'NUM'


def run(ctx):
    from plotink import plot_utils as pu
    import sys
    if hasattr(sys, 'set_int_max_str_digits'):
        sys.set_int_max_str_digits(0)      # exact model values of numerals like 1e9999 have thousands of digits
    rng = ctx.rng
    drv = ctx.driver
    measure = {'parse': 0.0, 'uu': 0.0, 'back': 0.0, 'len': 0.0, 'inch': 0.0, 'rt': 0.0}

    # ---------------- T: table literals ----------------
    try:
        sc = source_constants(pu)
    except Exception as ex:
        sc = None
        ctx.disagree('unit tables: source no longer parses as expected', {}, repr(ex), 'four functions with literal tables')
    if sc is not None and drv:
        mc = model_constants(drv.batch(['c12 consts'])[0])
        for k in ('ppi', 'unitsToUserUnits', 'userUnitToUnits', 'getLength', 'getLengthInches'):
            ctx.count(('consts', k), 'consts:' + k, True)
            if sc.get(k) != mc.get(k):
                ctx.disagree(f'unit-table literals of {k} differ from the model', {'function': k},
                             [str(x) for x in sc.get(k, [])] if k != 'ppi' else str(sc.get(k)),
                             [str(x) for x in mc.get(k, [])] if k != 'ppi' else str(mc.get(k)))
    if sc is not None and Fraction(repr(pu.PX_PER_INCH)) != 96:
        ctx.violate('PX_PER_INCH is not 96', {'PX_PER_INCH': repr(pu.PX_PER_INCH)}, repr(pu.PX_PER_INCH), '96 (SVG: 96 px per inch)')

    # ---------------- build the cases ----------------
    A = []   # (text, value Fraction, unit)
    corpus_refs = {}
    cdir = os.path.join(os.path.dirname(os.path.dirname(os.path.abspath(__file__))), 'corpus', 'C12')
    if os.path.isdir(cdir):        # corpus first (defect witnesses, one exact case per table entry)
        for fn_ in sorted(os.listdir(cdir)):
            if fn_.endswith('.jsonl'):
                for line in open(os.path.join(cdir, fn_)):
                    if line.strip():
                        d_ = json.loads(line)
                        corpus_refs[len(A)] = d_['ref']
                        A.append((d_['text'], Fraction(d_['value']), d_['unit']))
    fixed_vals = [Fraction(0), Fraction(1), Fraction(-1), Fraction(5, 2), Fraction(254, 10), Fraction(1, 8), Fraction(100),
                  Fraction(12345, 1000), Fraction(-3, 4)]
    for u in UNITS:                                   # exhaustive: unit x fixed values x plain/styled
        for v in fixed_vals:
            A.append((render(rng, v, plain=True) + u, v, u))
            A.append((blanks(rng) + render(rng, v) + u + blanks(rng), v, u))
    for _ in range(ctx.n(8000)):
        v = rand_value(rng)
        u = rng.choice(UNITS)
        A.append((blanks(rng) + render(rng, v) + u + blanks(rng), v, u))
    Abig = []
    for _ in range(ctx.n(1000)):                       # wide exponents: parser only
        v = rand_value(rng, big=True)
        u = rng.choice(UNITS)
        Abig.append((blanks(rng) + render(rng, v) + u + blanks(rng), v, u))
    B = []   # malformed: (text, why)
    for bu in BAD_UNITS:
        for _ in range(3):
            B.append((blanks(rng) + render(rng, rand_value(rng)) + bu + blanks(rng), 'unsupported unit'))
        B.append(('1' + bu, 'unsupported unit'))
    for t in NO_NUM:
        B.append((t, 'no numeric part'))
        B.append((blanks(rng) + t + blanks(rng), 'no numeric part'))
    C = []   # outside the quantifier
    for t in ['nan', 'inf', 'infinity', '-inf', '+Infinity', 'NaN', '1e400', '-1e400', '1e-400', 'inf%', 'nanmm', 'infin',
              '-nan', '1e309', '1.8e308']:
        for u in ['', 'px', 'mm', '%']:
            C.append(t + u if not t.endswith(('%', 'mm', 'in')) else t)
    for cu_ in ('Px', 'PX', 'MM', 'In', 'pT', 'CM', 'Pc', 'IN'):      # other casings of supported units
        C.append(render(rng, rand_value(rng)) + cu_)
        C.append('1' + cu_)
    for _ in range(ctx.n(150)):
        v = rand_value(rng)
        u = rng.choice(UNITS)
        k = rng.random()
        if k < 0.4:
            C.append(render(rng, v) + blanks(rng, False) + u)             # blank between number and unit
        elif k < 0.7:
            t = render(rng, v)
            i = rng.randint(0, len(t))
            C.append(t[:i] + '_' + t[i:] + u)                              # underscores
        else:
            t = render(rng, v) + u
            i = rng.randint(0, len(t))
            C.append(t[:i] + rng.choice(' \t_+-.eE0x%') + t[i:])           # arbitrary damage
    refs = [None, 0, 0.0, 1, 100, 96.0, 816, 1056.0, -50, 0.125, 12.5, 1e-3]
    # the model computes 10**exponent exactly: keep the exponents executable (|exp| < 10**4)
    B = [b for b in B if executable(b[0])]
    C = [t for t in C if executable(t)]

    # ---------------- model answers ----------------
    lines = []

    def ask(line):
        lines.append(line)
        return len(lines) - 1

    def e(s):
        return 'None' if s is None else enc_str(s)

    def rat(x):
        return 'None' if x is None else frac_str(Fraction(x))

    jobs = []   # (stream, fn, args, idx, extra)
    job_meta = {}   # position in jobs -> {'seq': id, 'stub': id, 'name': attribute name}

    def model_line(fn, args):
        if fn == 'parse':
            return 'c12 parse ' + e(args[0])
        if fn == 'uu':
            return f'c12 uu {e(args[0])} {rat(args[1])}'
        if fn == 'len':
            return f'c12 len {e(args[0])} {rat(args[1])}'
        if fn == 'inch':
            return 'c12 inch ' + e(args[0])
        if fn == 'back':
            return f'c12 back {rat(args[0])} {e(args[1])}'
        raise AssertionError(fn)

    def add_seq(seq):
        for (stream_, fn_, args_, extra_, meta_) in seq:
            if any(isinstance(a_, str) and not executable(a_) for a_ in args_):
                continue
            job_meta[len(jobs)] = meta_
            jobs.append((stream_, fn_, args_, ask(model_line(fn_, args_)), extra_))

    add_seq(seq_jobs(rng, ctx.n(64), 'first'))       # S: call sequences, before anything could be cached
    for (t, v, u) in A + Abig:
        jobs.append(('A', 'parse', (t,), ask('c12 parse ' + e(t)), (v, u)))
    for i, (t, v, u) in enumerate(A):
        ref = refs[i % len(refs)] if u == '%' or i % 3 == 0 else rng.choice(refs)
        if i in corpus_refs:
            ref = corpus_refs[i]
        jobs.append(('A', 'uu', (t, ref), ask(f'c12 uu {e(t)} {rat(ref)}'), (v, u)))
        dflt = rng.choice([0, 0.0, 1, 100, 816.0, 1056, 12.5, -3])
        jobs.append(('A', 'len', (t, dflt), ask(f'c12 len {e(t)} {rat(dflt)}'), (v, u)))
        jobs.append(('A', 'inch', (t,), ask(f'c12 inch {e(t)}'), (v, u)))
    # userUnitToUnits on its own: numbers x unit strings
    back_units = UNITS + ['em', 'ex', 'PX', 'Mm', ' px', 'px ', 'qq', 'pct', 'percent', 'inch']
    for _ in range(ctx.n(2000)):
        d = rng.choice([None, 0, 1, 96, 96.0, -7, rng.randint(-10 ** 6, 10 ** 6), rng.uniform(-1e4, 1e4),
                        rng.uniform(-1, 1) * 10 ** rng.randint(-20, 20), to_float(rand_value(rng))])
        u = rng.choice(back_units) if rng.random() < 0.3 else rng.choice(UNITS)
        jobs.append(('A', 'back', (d, u), ask(f'c12 back {rat(d)} {e(u)}'), None))
    for d in [None, 0, 1.5, 96]:
        for u in back_units:
            jobs.append(('A', 'back', (d, u), ask(f'c12 back {rat(d)} {e(u)}'), None))
    for (t, why) in B:
        jobs.append(('B', 'parse', (t,), ask('c12 parse ' + e(t)), why))
        ref = rng.choice(refs)
        jobs.append(('B', 'uu', (t, ref), ask(f'c12 uu {e(t)} {rat(ref)}'), why))
        jobs.append(('B', 'len', (t, 7), ask(f'c12 len {e(t)} 7'), why))
        jobs.append(('B', 'inch', (t,), ask(f'c12 inch {e(t)}'), why))
    for t in C:
        jobs.append(('C', 'parse', (t,), ask('c12 parse ' + e(t)), None))
        ref = rng.choice(refs)
        jobs.append(('C', 'uu', (t, ref), ask(f'c12 uu {e(t)} {rat(ref)}'), None))
        jobs.append(('C', 'len', (t, 5), ask(f'c12 len {e(t)} 5'), None))
        jobs.append(('C', 'inch', (t,), ask(f'c12 inch {e(t)}'), None))
    # absent attribute / None input
    jobs.append(('A0', 'parse', (None,), ask('c12 parse None'), None))
    jobs.append(('A0', 'uu', (None, 5), ask('c12 uu None 5'), None))
    for dflt in (0, 7, 2.5):
        jobs.append(('A0', 'len', (None, dflt), ask(f'c12 len None {rat(dflt)}'), None))
        jobs.append(('A0', 'len', ('', dflt), ask(f'c12 len - {rat(dflt)}'), None))
    jobs.append(('A0', 'inch', (None,), ask('c12 inch None'), None))
    jobs.append(('A0', 'inch', ('',), ask('c12 inch -'), None))

    add_seq(seq_jobs(rng, ctx.n(32), 'late'))        # S again, after a long history of other calls

    # ---------------- D: float() fuzz ----------------
    D = []
    alphabet = '0123456789' * 3 + '+-..eE_ \t\x0b\x1cinfatyINFATYx,%'
    seeds = ['1', '-1', '+1', '1.', '.5', '1e5', '1E-5', '1e+05', '1_000', '1_0.0_1e1_0', 'inf', '-inf', '+infinity', 'nan',
             '-NaN', 'iNfInItY', '1e', '1e+', '.', '', ' ', '-', '+', '1__0', '_1', '1_', '1_e5', '1e_5', '1._5', '1_.5', '0x10',
             '1e400', '-1e400', '1e-400', '1 2', ' 1 ', '\t1\n', '\x1c1', '1\x1c', '\x0b1\x0c', '++1', '+-1', '1e5.', '1.5.2',
             'infinit', 'infinityy', 'in_f', 'na n', '1,5', '00012', '-0', '-0.0', '0e0', '0e400', '-.e1', '1.e1', '.e1',
             '123456789012345678901234567890', '0.1', '0.30000000000000004', '2.2250738585072014e-308', '5e-324', '2.5e-324',
             '2.4703282292062328e-324', '1.7976931348623157e308', '1.7976931348623158e308', '1.797693134862315807e308',
             '9007199254740993', '9007199254740992.5', '1e23', '8.5e22']
    D += seeds
    for _ in range(ctx.n(6000)):
        k = rng.random()
        if k < 0.45:
            t = render(rng, rand_value(rng, big=rng.random() < 0.3))
        elif k < 0.6:
            t = rng.choice(seeds)
        else:
            t = ''.join(rng.choice(alphabet) for _ in range(rng.randint(0, 7)))
        for _ in range(rng.choice([0, 0, 1, 1, 2])):
            i = rng.randint(0, len(t))
            op = rng.random()
            if op < 0.5:
                t = t[:i] + rng.choice(alphabet) + t[i:]
            elif t:
                i = min(i, len(t) - 1)
                t = t[:i] + t[i + 1:]
        if rng.random() < 0.2:
            t = blanks(rng) + t + blanks(rng)
        D.append(t)
    D = [t for t in D if executable(t)]
    for t in D:
        jobs.append(('D', 'float', (t,), ask('c12 float ' + e(t)), None))

    outs = drv.batch(lines) if drv else [None] * len(lines)

    # ---------------- run the implementation, compare, judge ----------------
    shared = {}

    def call(fn, args, meta=None):
        if meta and 'stub' in meta:          # the SAME document object, its attribute changed in place
            name = meta.get('name', 'width')
            st = shared.get(meta['stub'])
            if st is None:
                st = shared[meta['stub']] = Stub(args[0], name)
            st.set(name, args[0])
            if fn == 'len':
                return pu.getLength(st, name, args[1])
            return pu.getLengthInches(st, name)
        if fn == 'parse':
            return pu.parseLengthWithUnits(*args)
        if fn == 'uu':
            r = pu.unitsToUserUnits(*args)
            # the same percent reference as an exact rational (a number the unchanged code passes through float()): the
            # answer must be the one given for the float/int reference, which the statement-level oracle judges
            ref = args[1] if len(args) > 1 else None
            if type(ref) in (int, float) and ref == ref and abs(ref) != float('inf') and (hash((args[0], ref)) % 5 == 0):
                try:
                    r2 = pu.unitsToUserUnits(args[0], Fraction(ref))
                except Exception as ex:
                    r2 = 'raised ' + repr(ex)
                both_nan = isinstance(r, float) and isinstance(r2, float) and r != r and r2 != r2   # nan tokens: out of domain anyway
                if r2 != r and not both_nan:
                    ctx.violate('unitsToUserUnits: the same reference given as fractions.Fraction changes the answer',
                                {'fn': 'unitsToUserUnits', 'text': args[0], 'reference': f'Fraction({Fraction(ref)})'}, repr(r2), repr(r),
                                key='uu-fraction-reference')
            return r
        if fn == 'back':
            return pu.userUnitToUnits(*args)
        if fn == 'len':
            return pu.getLength(Stub(args[0]), 'width', args[1])
        if fn == 'inch':
            return pu.getLengthInches(Stub(args[0]), 'width')
        if fn == 'float':
            return float(args[0])
        raise AssertionError(fn)

    NAMES = {'parse': 'parseLengthWithUnits', 'uu': 'unitsToUserUnits', 'back': 'userUnitToUnits', 'len': 'getLength',
             'inch': 'getLengthInches', 'float': 'float'}

    def model_matches(fn, r, m, tol):
        """does the implementation's result r agree with the model's answer m (text)?  returns (ok, ulps)"""
        if m is None:
            return True, 0.0
        if fn == 'parse':
            if r == (None, None):
                return m == 'None', 0.0
            if m == 'None':
                return False, 0.0
            mv, mu = m.split(' ')
            val, unit = r
            if dec_str(mu) != unit:
                return False, 0.0
            if mv in ('inf', '-inf', 'nan'):
                return (isinstance(val, float) and ((mv == 'nan' and val != val) or
                                                    (mv != 'nan' and val == float(mv)))), 0.0
            return isinstance(val, float) and val == to_float(Fraction(mv)) and (val != 0 or True), 0.0
        c = canon_out(r)
        if c != 'NUM':
            if m == c:
                return True, 0.0
            # an exact model value beyond binary64 range shows up as inf in the implementation
            return (c == 'NONFINITE' and m not in ('None', 'NONFINITE') and not in_range(Fraction(m))), 0.0
        if m in ('None', 'NONFINITE'):
            return False, 0.0
        d = ulps(float(r), Fraction(m))
        return d <= tol, d

    seq_hist = {}
    for pos, (stream, fn, args, idx, extra) in enumerate(jobs):
        m = outs[idx]
        inp = {'function': NAMES[fn], 'args': [repr(a) for a in args]}
        meta = job_meta.get(pos)
        if meta:
            if 'stub' in meta:
                inp['document'] = f'shared object {meta["stub"]!r}, attribute {meta.get("name", "width")!r} set in place'
            h_ = seq_hist.setdefault(meta['seq'], [])
            if h_:
                inp['earlier_calls_of_the_sequence'] = h_[-12:]
            h_.append(f'{NAMES[fn]}({", ".join(repr(a) for a in args)})')
        key = (fn, args)
        try:
            r = call(fn, args, meta)
            exc = None
        except Exception as ex:  # noqa
            r, exc = None, ex
        # ---------------------------------------------------------------- D: float()
        if stream == 'D':
            ctx.count(key, 'float:' + ('err' if exc else 'special' if (r != r or abs(r) == math.inf) else 'finite'),
                      nontrivial=bool(args[0].strip()))
            if exc is not None and not isinstance(exc, ValueError):
                ctx.out_of_domain.append({'float': repr(args[0]), 'raised': repr(exc)})
                continue
            if m is None:
                continue
            if exc is not None:
                ok = (m == 'ERR')
            elif m == 'ERR':
                ok = False
            elif m in ('inf', '-inf'):
                ok = (r == float(m))
            elif m == 'nan':
                ok = (r != r)
            else:
                ok = (r == to_float(Fraction(m)))
            if not ok:
                ctx.disagree('Model/PyFloat.parseFloat differs from CPython float()', {'text': repr(args[0])},
                             'ValueError' if exc else repr(r), m)
            continue
        # ---------------------------------------------------------------- absent attribute / None argument
        if stream == 'A0':
            ctx.count(key, f'{fn}:absent', True)
            if exc is not None:
                ctx.violate(f'{NAMES[fn]} raised {type(exc).__name__} on an absent value', inp, repr(exc), 'None or the default')
                continue
            ok, _ = model_matches(fn, r, m, 0)
            if not ok:
                ctx.disagree(f'{NAMES[fn]} on an absent value', inp, repr(r), m)
            continue
        # ---------------------------------------------------------------- C: outside the quantifier
        if stream == 'C':
            ctx.count(key, f'{fn}:ood', True)
            if exc is not None:
                ctx.out_of_domain.append({'input': inp, 'raised': repr(exc), 'model': m})
            else:
                ok, _ = model_matches(fn, r, m, 16)
                if not ok and len(ctx.out_of_domain) < 200:
                    ctx.out_of_domain.append({'input': inp, 'impl': repr(r), 'model': m})
                if fn == 'parse' and r != (None, None) and not math.isfinite(r[0]) and len(ctx.out_of_domain) < 200:
                    ctx.out_of_domain.append({'input': inp, 'impl': repr(r),
                                              'note': 'non-finite value returned as a length (outside the quantifier: not a finite numeral)'})
            continue
        # ---------------------------------------------------------------- B: malformed -> None, no exception
        if stream == 'B':
            why = extra
            ctx.count(key, f'{fn}:reject', True)
            if fn in ('len', 'inch') and args[0] == '':
                # the empty attribute is "absent" for the attribute readers (default / None)
                ok, _ = model_matches(fn, r, m, 0)
                if exc is not None or not ok:
                    ctx.disagree(f'{NAMES[fn]} on an empty attribute', inp, repr(exc or r), m)
                continue
            if exc is not None:
                ctx.violate(f'{NAMES[fn]} raised {type(exc).__name__} on text with {why}', inp, repr(exc), 'None')
                continue
            none = (r == (None, None)) if fn == 'parse' else (r is None)
            if not none:
                ctx.violate(f'{NAMES[fn]} returned a value for text with {why}', inp, repr(r), 'None')
            ok, _ = model_matches(fn, r, m, 0)
            if not ok:
                ctx.disagree(f'{NAMES[fn]} (malformed text)', inp, repr(r), m)
            continue
        # ---------------------------------------------------------------- A: in-domain
        if fn == 'back':
            d, u = args
            ctx.count(key, 'back:' + (u if u in UNITS else 'unsupported') + (':None' if d is None else ''), u not in ('', 'px'))
            if exc is not None:
                ctx.violate(f'userUnitToUnits raised {type(exc).__name__}', inp, repr(exc), 'a number or None')
                continue
            ok, dist = model_matches(fn, r, m, TOL_CONV)
            measure['back'] = max(measure['back'], dist)
            if not ok:
                ctx.disagree('userUnitToUnits', inp, repr(r), m)
            if d is None or (u not in UNITS):
                if r is not None:
                    ctx.violate('userUnitToUnits returned a value for None / an unsupported unit', inp, repr(r), 'None')
            elif u == '%':
                pass   # the inverse of "fraction of the whole": judged by the round trip below
            else:
                want = Fraction(d) / SVG[u]
                if r is None or isinstance(r, bool) or ulps(float(r), want) > TOL_CONV:
                    ctx.violate(f'userUnitToUnits: not value / (SVG factor of {u!r})', inp, repr(r), str(to_float(want)))
            continue
        v, u = extra
        cu = CANON.get(u, u)
        t = args[0]
        ctx.count(key, f'{fn}:{u or "none"}', u != '')
        ctx.sample({'function': NAMES[fn], 'args': [repr(a) for a in args], 'impl': repr(r), 'model': m})
        if exc is not None:
            ctx.violate(f'{NAMES[fn]} raised {type(exc).__name__} on a well-formed length', inp, repr(exc), 'a value')
            continue
        ok, dist = model_matches(fn, r, m, TOL_CONV)
        if fn != 'parse':
            measure[fn] = max(measure[fn], dist)
        if not ok:
            if in_range(v) and in_range(v * 96) and in_range(v / 9600):
                ctx.disagree(NAMES[fn], inp, repr(r), m)
            else:
                ctx.out_of_domain.append({'input': inp, 'impl': repr(r), 'model': m})
        if not (in_range(v) and in_range(v * 96) and in_range(v / 9600)):
            continue
        # ---- property oracle ----
        if fn == 'parse':
            if r == (None, None) or not isinstance(r[0], float):
                ctx.violate('parseLengthWithUnits: no value for a well-formed length', inp, repr(r), f'({to_float(v)!r}, {cu!r})')
                continue
            val, unit = r
            if unit != cu:
                ctx.violate('parseLengthWithUnits: wrong unit', inp, repr(r), f'unit {cu!r}')
            dd = ulps(val, v)
            measure['parse'] = max(measure['parse'], dd)
            if dd > 1:
                ctx.violate('parseLengthWithUnits: wrong value', inp, repr(r), repr(to_float(v)))
        elif fn == 'uu':
            ref = args[1]
            if u == '%':
                if ref is None:
                    want = None      # no reference supplied: not specified by the property (fraction in the code)
                else:
                    want = v * Fraction(ref) / 100
            else:
                want = v * SVG[u]
            if want is not None:
                if r is None or isinstance(r, bool) or not isinstance(r, (int, float)) or ulps(float(r), want) > TOL_CONV:
                    what = ('unitsToUserUnits: percentage not taken of the supplied reference' if u == '%'
                            else f'unitsToUserUnits: not value x (SVG factor of {cu!r} at 96 px/in)')
                    ctx.violate(what, inp, repr(r), repr(to_float(want)),
                                key='percent-ref-zero' if (u == '%' and ref == 0) else None)
            # round trip
            if r is not None and isinstance(r, (int, float)) and math.isfinite(r) and (u != '%' or ref is None):
                try:
                    b = pu.userUnitToUnits(r, cu)
                    b2 = pu.userUnitToUnits(r, u) if u != cu else b
                except Exception as ex:  # noqa
                    ctx.violate(f'userUnitToUnits raised {type(ex).__name__} in the round trip', inp, repr(ex), repr(to_float(v)))
                    continue
                for bb, uu_ in ((b, cu), (b2, u)):
                    dd = math.inf if (bb is None or isinstance(bb, bool)) else ulps(float(bb), v)
                    measure['rt'] = max(measure['rt'], dd if dd != math.inf else 0)
                    if dd > TOL_BACK:
                        ctx.violate('converting back does not return the original value',
                                    {'text': repr(t), 'unit': uu_, 'user_units': repr(r)}, repr(bb), repr(to_float(v)))
        elif fn == 'len':
            dflt = args[1]
            want = v * Fraction(dflt) / 100 if u == '%' else v * SVG[u]
            if r is None or isinstance(r, bool) or not isinstance(r, (int, float)) or ulps(float(r), want) > TOL_CONV:
                ctx.violate('getLength: ' + ('percentage not taken of the supplied reference' if u == '%'
                                             else f'not value x (SVG factor of {cu!r})'), inp, repr(r), repr(to_float(want)))
            else:
                # agreement with unitsToUserUnits on the same text and reference
                try:
                    q = pu.unitsToUserUnits(t, dflt)
                except Exception:
                    q = None
                if q is not None and isinstance(q, (int, float)) and want != 0 and \
                        abs(Fraction(float(q)) - Fraction(float(r))) > 2 * TOL_CONV * Fraction(math.ulp(float(r))):
                    ctx.violate('getLength and unitsToUserUnits disagree on the same text and reference', inp,
                                f'getLength={r!r} unitsToUserUnits={q!r}', 'equal values',
                                key='percent-ref-zero' if (u == '%' and dflt == 0) else None)
                elif q is not None and want == 0 and float(q) != float(r):
                    ctx.violate('getLength and unitsToUserUnits disagree on the same text and reference', inp,
                                f'getLength={r!r} unitsToUserUnits={q!r}', 'equal values',
                                key='percent-ref-zero' if (u == '%' and dflt == 0) else None)
        elif fn == 'inch':
            if u == '%':
                if r is not None:
                    ctx.violate('getLengthInches returned a value for a percentage', inp, repr(r), 'None')
            else:
                want = v * SVG[u] / 96
                if r is None or isinstance(r, bool) or not isinstance(r, (int, float)) or ulps(float(r), want) > TOL_CONV:
                    ctx.violate(f'getLengthInches: not value x (SVG factor of {cu!r}) / 96', inp, repr(r), repr(to_float(want)))
                else:
                    try:
                        px = pu.getLength(Stub(t), 'width', 1)
                    except Exception:
                        px = None
                    if px is not None and isinstance(px, (int, float)) and ulps(float(px), Fraction(float(r)) * 96) > 2 * TOL_CONV:
                        ctx.violate('pixels != inches x 96 (getLength vs getLengthInches)', inp,
                                    f'px={px!r} inches={r!r}', 'px = 96 x inches')
    if drv:
        need = [f'{fn}:{u or "none"}' for fn in ('parse', 'uu', 'len', 'inch') for u in UNITS] + \
               ['back:' + (u or '') for u in UNITS] + [f'{fn}:reject' for fn in ('parse', 'uu', 'len', 'inch')] + \
               ['float:err', 'float:special', 'float:finite', 'back:unsupported']
        missing = [p_ for p_ in need if p_ not in ctx.paths]
        if missing:
            raise Infra('model paths without input: ' + ', '.join(missing))
    ctx.notes.append('max observed distance from the exact value, in ulps: ' +
                     ', '.join(f'{k}={v:.2f}' for k, v in measure.items()) +
                     f' (tolerances: converters {TOL_CONV}, round trip {TOL_BACK})')
    if os.environ.get('VERIF_MEASURE'):
        print('C12 measure', measure)

    # =================================================================================================
    # ---- the SOURCE-REGENERATED code (translator, string subset): see gen_stream below ----------------
    gen_stream(ctx, pu, jobs)
    gen_attr_stream(ctx, pu, jobs)


# Generated-code stream: Gen.parseLengthWithUnits / Gen.unitsToUserUnits / Gen.userUnitToUnits
# (lean/Plotink/Gen/*.lean, regenerated from plot_utils.py on every run - the definitions the C12_gen_* theorems are
# about) under Rounding.ieee against the real functions on this module's own inputs: the results must be IDENTICAL
# (same unit string, same double bit for bit: float(str) correctly rounded, then every * and / rounded once).
# Outside the value domain of the generated code, not compared: non-ASCII text, non-finite results (`inf`/`nan`
# numerals - Py.Val has no non-finite floats), magnitudes outside [1e-290, 1e290] (Rounding.ieee has an unbounded
# exponent: no overflow / gradual underflow).
GEN_FUNCTIONS = ['parseLengthWithUnits', 'unitsToUserUnits', 'userUnitToUnits']
TRUSTED = TRUSTED + ['Gen.parseLengthWithUnits / unitsToUserUnits / userUnitToUnits are regenerated from plot_utils.py on every run '
                     '(C12_gen_* theorems); not verified, validated by the generated-code stream of this run: the translator '
                     '(string subset, try/except as err-values) and the string library of Py.lean; Rounding.ieee as binary64']


def _gen_floats(r):
    if isinstance(r, float):
        return [r]
    if isinstance(r, (tuple, list)):
        return [x for y in r for x in _gen_floats(y)]
    return []


def gen_stream(ctx, pu, jobs):
    if not ctx.driver:
        ctx.notes.append('generated-code stream skipped: no driver')
        return
    import time
    from .common import pyval
    t0 = time.time()
    sel = []
    for (stream, fn, args, idx, extra) in jobs:
        if fn not in ('parse', 'uu', 'back'):
            continue
        if fn in ('parse', 'uu') and not (args[0] is None or isinstance(args[0], str)):
            continue
        if fn == 'back' and not (isinstance(args[1], str) and (args[0] is None or isinstance(args[0], (int, float)))):
            continue
        txt = args[0] if fn != 'back' else args[1]
        if isinstance(txt, str) and not all(ord(c) < 128 for c in txt):
            continue
        sel.append((fn, args))
    cap = ctx.n(20000)
    if len(sel) > cap:
        sel = sel[:1000] + ctx.rng.sample(sel[1000:], max(0, min(len(sel) - 1000, cap - 1000))) if len(sel) > 1000 else sel[:max(cap, 0)]

    def sarg(t):
        return 'None' if t is None else 's' + enc_str(t)
    lines = []
    for fn, args in sel:
        if fn == 'parse':
            lines.append('gen parseLengthWithUnits 15 ' + sarg(args[0]))
        elif fn == 'uu':
            lines.append(f'gen unitsToUserUnits 15 {sarg(args[0])} {pyval(args[1])}')
        else:
            lines.append(f'gen userUnitToUnits 15 {pyval(args[0])} {sarg(args[1])}')
    outs = ctx.driver.batch(lines)
    n = {'parse': 0, 'uu': 0, 'back': 0}
    bad = {'parse': 0, 'uu': 0, 'back': 0}
    skipped = 0
    names = {'parse': 'parseLengthWithUnits', 'uu': 'unitsToUserUnits', 'back': 'userUnitToUnits'}
    for (fn, args), g in zip(sel, outs):
        try:
            r = pu.parseLengthWithUnits(args[0]) if fn == 'parse' else \
                pu.unitsToUserUnits(args[0], args[1]) if fn == 'uu' else pu.userUnitToUnits(args[0], args[1])
        except Exception as ex:
            r = ex
        fl = _gen_floats(r)
        if any(x != x or x in (math.inf, -math.inf) or (x != 0 and not 1e-290 <= abs(x) <= 1e290) for x in fl) or \
                any(isinstance(a, float) and (a != a or a in (math.inf, -math.inf)) for a in args):
            skipped += 1
            continue
        want = 'RAISE ' + type(r).__name__ if isinstance(r, Exception) else pyval(r)
        if any(x == 0 for x in fl) and g != want:
            # a double zero may be an underflow (1e-400): the generated code keeps the tiny exact value
            skipped += 1
            continue
        n[fn] += 1
        ctx.count(('gen', fn, repr(args)), 'gen:' + fn, False)
        if g != want and not (want.startswith('RAISE') and 'ERR' in g):
            bad[fn] += 1
            ctx.disagree(f'Gen.{names[fn]} (Rounding.ieee) vs plot_utils.{names[fn]}',
                         {'fn': names[fn], 'gen': True, 'args': [repr(a) for a in args]}, want, g)
    ctx.notes.append('generated-code stream (Rounding.ieee, identical results required): ' +
                     ', '.join(f'Gen.{names[k]} {n[k]} cases ({bad[k]} differ)' for k in n) +
                     f'; {skipped} outside the value domain (non-finite / out of range) not compared; {time.time() - t0:.1f}s')


# Generated-code stream for the two document-attribute readers: Gen.getLength / Gen.getLengthInches
# (lean/Plotink/Gen/getLength.lean, getLengthInches.lean, regenerated from plot_utils.py on every run).  The translator
# replaces the opaque lookup `altself.document.getroot().get(name)` by the parameter `attr_name` (recorded as
# "abstracted" in lean/Plotink/Gen/report.json); here the real functions read the attribute from this module's stub
# documents (lxml where the text is XML-legal, else the fake document) and the generated ones get the same text (or
# None for an absent attribute) passed in.  Rounding.ieee; results must be IDENTICAL, floats bit for bit.  Same value
# domain as the stream above.
GEN_FUNCTIONS = GEN_FUNCTIONS + ['getLength', 'getLengthInches']
TRUSTED = TRUSTED + ['Gen.getLength / Gen.getLengthInches are regenerated from plot_utils.py on every run (C12_gen_attr, '
                     'C12_gen_tables_getLength*, C12_gen_attr_absent); the document lookup altself.document.getroot().get(name) '
                     'is NOT translated: it is the parameter attr_name of the generated functions (the attribute text or None) - '
                     'that lxml / the document returns that text is outside the model; validated by the generated-code stream of '
                     'this run against the real functions on stub documents']


def gen_attr_stream(ctx, pu, jobs):
    if not ctx.driver:
        ctx.notes.append('generated-code stream (attribute readers) skipped: no driver')
        return
    import time
    from .common import pyval
    t0 = time.time()
    sel = []
    for (stream, fn, args, idx, extra) in jobs:
        if fn not in ('len', 'inch'):
            continue
        if not (args[0] is None or isinstance(args[0], str)):
            continue
        if isinstance(args[0], str) and not all(ord(c) < 128 for c in args[0]):
            continue
        if fn == 'len' and (isinstance(args[1], bool) or not isinstance(args[1], (int, float))):
            continue
        sel.append((fn, args))
    # the same texts with every kind of default / reference, zero included
    extra_defaults = [0, 0.0, -0.0, 1, 100, 816.0, 12.5, -3, 1e-3]
    more = []
    for k, (fn, args) in enumerate(sel):
        if fn == 'len' and k % 5 == 0:
            more.append(('len', (args[0], extra_defaults[(k // 5) % len(extra_defaults)])))
    sel += more
    cap = ctx.n(12000)
    if len(sel) > cap:
        sel = sel[:600] + ctx.rng.sample(sel[600:], max(0, cap - 600)) if cap > 600 else sel[:max(cap, 0)]

    def sarg(t):
        return 'None' if t is None else 's' + enc_str(t)
    lines = [f'gen getLength 15 {sarg(a[0])} {pyval(a[1])}' if fn == 'len' else f'gen getLengthInches 15 {sarg(a[0])}'
             for fn, a in sel]
    outs = ctx.driver.batch(lines)
    n = {'len': 0, 'inch': 0}
    bad = {'len': 0, 'inch': 0}
    kinds = {'lxml': 0, 'fake': 0}
    skipped = 0
    names = {'len': 'getLength', 'inch': 'getLengthInches'}
    for (fn, args), g in zip(sel, outs):
        try:
            st = Stub(args[0])
            kinds[st.kind] += 1
            r = pu.getLength(st, 'width', args[1]) if fn == 'len' else pu.getLengthInches(st, 'width')
        except Exception as ex:
            r = ex
        fl = _gen_floats(r)
        if any(x != x or x in (math.inf, -math.inf) or (x != 0 and not 1e-290 <= abs(x) <= 1e290) for x in fl) or \
                any(isinstance(a, float) and (a != a or a in (math.inf, -math.inf)) for a in args):
            skipped += 1
            continue
        want = 'RAISE ' + type(r).__name__ if isinstance(r, Exception) else pyval(r)
        if any(x == 0 for x in fl) and g != want:
            # a double zero may be an underflow (1e-400): the generated code keeps the tiny exact value
            skipped += 1
            continue
        n[fn] += 1
        ctx.count(('gen', fn, repr(args)), 'gen:' + fn, False)
        if g != want and not (want.startswith('RAISE') and 'ERR' in g):
            bad[fn] += 1
            ctx.disagree(f'Gen.{names[fn]} (Rounding.ieee, attribute text passed in) vs plot_utils.{names[fn]} on a stub document',
                         {'fn': names[fn], 'gen': True, 'attribute': repr(args[0]),
                          'default': repr(args[1]) if fn == 'len' else None}, want, g)
    ctx.notes.append('generated-code stream, attribute readers (Rounding.ieee, identical results required): ' +
                     ', '.join(f'Gen.{names[k]} {n[k]} cases ({bad[k]} differ)' for k in n) +
                     f'; documents: {kinds["lxml"]} lxml, {kinds["fake"]} fake; {skipped} outside the value domain not compared; '
                     f'{time.time() - t0:.1f}s')
