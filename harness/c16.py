"""C16 — board-state round trips through the EBB3 layer.

Three runs of every case (prior Python-object state, prior board state, operation sequence):

  A. the REAL methods (plotink.ebb3_motion.EBBMotionWrap from the current source) on a fake port that forwards
     every write to the Lean driver's `boardRecv` (co-simulation: exactly one board model, the trusted one);
  B. the Lean MODEL methods (`c16 runops`) on the same prior state;           A vs B = correspondence
     (returned values, final err/name, final board, every request line written);
  C. the REAL methods on `PyBoard`, an independent pure-Python board written from the EBB command reference,
     judged step by step against `Ref`, the abstract semantics written from the property statement
     (= the property oracle; it does not use the Lean model, and still runs when the driver is missing).
     The final state of C is also compared with `Spec.steps` through the driver (second opinion).

Argument TYPES. The statement quantifies over requests/values, not over Python types, and the unchanged methods accept
more than exact `int`/`str` arguments: `motors_enable` converts each request with `int()` (bool, float, Fraction,
Decimal, int subclasses, decimal numeral strings), `var_write_int32` takes any int (bool, int subclasses) as value,
`var_read_int32` adds an int offset to its slot (so a bool / int-subclass slot works), the single-slot methods format
their arguments (int subclasses print as their value) and `write_nickname` takes any str (subclass). Cases whose
arguments are not of exact type int/str ("typed" cases) run C only (real code on PyBoard, judged against Ref on the
integer the argument stands for); the Lean driver's line protocol carries exact ints, so A/B stay on exact ints.
"""
import re, os, json, math
from fractions import Fraction
from decimal import Decimal
from .common import Infra, VERIF

REQUIRED_PATHS = ['int32:negative', 'int32:non-negative', 'motors:both-off', 'motors:both-on', 'motors:only-1',
                  'motors:only-2:preset', 'motors:only-2:mode-already-set', 'nickname', 'single-slot', 'sequence']

RULE = ('exhaustive: 29 slots x boundary int32 values; {-1..6}^2 motor requests x all 40 prior motor states '
        '(m1, m2, mode 1..5, auto-enable); nicknames with trimmed length 13..16 x whitespace runs of length 0..9 on either side '
        '(raw length up to 30) and random ones; random operation sequences (<= 30 ops) over random '
        'prior boards; request/argument TYPES (oracle runs only): every typed motor request (bool, integral and '
        'non-integral float, Fraction, Decimal, int subclass, decimal numeral str) x partner ints {-2,0,1,3,5,7} on '
        'either side x all 40 prior motor states, random typed x typed pairs, bool / int-subclass int32 values and '
        'slots, str-subclass nicknames, random typed operation sequences; '
        'a case is non-trivial when it writes to the board; distinct by (prior state, ops)')
TRUSTED = ['translator/pyio2lean.py + PyObj runtime (regenerated methods; validated by the stream at the end of this run: '
           'every in-domain history replayed on Gen.* with the board\'s replies as script, compared call by call)',
           'Model/C16.lean boardStep/parseReq/boardRecv = "a board that implements the documented SL/QL/ST/QT/EM/QE/CU,50 '
           'commands" (EBB command reference, firmware 3.x future syntax); cross-checked here against the '
           'independent PyBoard',
           'conforming link: every write reaches the board, the next readline returns its reply line',
           'modelled not verified: int.to_bytes / int.from_bytes (big-endian two\'s complement), str.strip/isspace/split, '
           'int(str) on sign+digits, f-string rendering of ints (= decimal)',
           'harness fake port + co-simulation glue']
ASSUMPTIONS = ['the EBB3 object is connected and has no recorded error when a round trip starts',
               'int32 values, slots 0..28 (single slots 0..31, bytes 0..255), integer resolutions',
               'argument types: a motor request is any value the documented interface converts with int() without raising '
               '(int, bool, int subclass, finite float, Fraction, finite Decimal, str of optional blanks, optional sign and '
               'ASCII digits); it stands for the integer it equals; a NON-integral number has no integer value in the '
               'statement, so either neighbouring integer (floor or ceiling, then clamped) is accepted as the requested '
               'resolution (unambiguous below 0 and above 5) — what is judged is that the board ends in the state of one '
               'of these readings and no error is recorded. int32 values: any int (bool, int subclass); slots: int or int '
               'subclass (bool for the 4-byte reader only: the unchanged code adds an int offset to it); nicknames: any '
               'str (subclass). Types the unchanged code itself rejects (bool/float slots of the writers, float int32 '
               'values, nan/inf requests, non-decimal strings) stay outside',
               'nicknames: the TRIMMED name is at most 16 printable ASCII characters and does not contain the protocol\'s '
               'error marker "Err:"; the raw argument may carry any amount of leading/trailing ASCII whitespace '
               '(raw length unconstrained: the unchanged write_nickname only trims, it never cuts)',
               'board invariant: 32 slots of 0..255, mode 1..5, stored name printable ASCII (edge blanks allowed) without "Err:"']
STAGED = []

INT32_MIN, INT32_MAX = -2 ** 31, 2 ** 31 - 1
PY_SPACE = '\t\n\x0b\x0c\r\x1c\x1d\x1e\x1f '


# ------------------------------------------------------------------------------------------------
# argument types
# ------------------------------------------------------------------------------------------------
class IntSub(int):
    """a plain int subclass (stands for enum-like / wrapped ints): prints, compares and converts as its value"""
    __slots__ = ()


class StrSub(str):
    """a plain str subclass"""
    __slots__ = ()


NUMERAL = re.compile(r'[ \t\n\r]*[+-]?[0-9]+[ \t\n\r]*\Z')


def exact(x, kind=None):
    """argument of the exact type the Lean driver's line protocol carries (str for the nickname, int everywhere else)"""
    if kind == 'wn':      # the line protocol (and the Lean models' ASCII strip) carry ASCII nicknames only
        return type(x) is str and all(ord(c) < 128 for c in x)
    return type(x) is int


def plain_ops(ops):
    return all(exact(x, o[0]) for o in ops for x in o[1:])


def request_ok(r):
    """motor request inside the domain: a value that stands for a number and that int() converts without raising"""
    if isinstance(r, int):
        return True
    if isinstance(r, float):
        return math.isfinite(r)
    if isinstance(r, Fraction):
        return True
    if isinstance(r, Decimal):
        return r.is_finite()
    if isinstance(r, str):
        return bool(NUMERAL.match(r))
    return False


def readings(r):
    """the integers a request can stand for, the truncation (Python's int()) first. An integer-valued request stands for
    exactly that integer; a non-integral number for either neighbour (see ASSUMPTIONS)."""
    if isinstance(r, int):
        return [int(r)]
    if isinstance(r, str):
        m = NUMERAL.match(r)
        assert m
        t = r.strip(' \t\n\r')
        sign = -1 if t.startswith('-') else 1
        v = 0
        for c in t.lstrip('+-'):
            v = 10 * v + (ord(c) - 48)
        return [sign * v]
    q = Fraction(r)                 # exact for float / Decimal / Fraction
    lo, hi = math.floor(q), math.ceil(q)
    if lo == hi:
        return [lo]
    return [hi, lo] if q < 0 else [lo, hi]


def show_arg(x):
    if type(x) is int:
        return str(x)
    if isinstance(x, str):
        return f'{type(x).__name__}({x!r})'
    return f'{type(x).__name__}({x})'


# ------------------------------------------------------------------------------------------------
# value / state syntax shared with Drv/C16.lean
# ------------------------------------------------------------------------------------------------
def enc(s):
    return '-' if s == '' else ','.join(str(ord(c)) for c in s)


def dec(t):
    return '' if t == '-' else ''.join(chr(int(x)) for x in t.split(','))


def board_str(b):
    vars_, name, m1, m2, mode, auto = b
    return ';'.join([','.join(map(str, vars_)) if vars_ else '-', enc(name), str(int(m1)), str(int(m2)), str(mode),
                     str(int(auto))])


def board_parse(s):
    vs, nm, a, b, md, au = s.split(';')
    return ([] if vs == '-' else [int(x) for x in vs.split(',')], dec(nm), a == '1', b == '1', int(md), au == '1')


def py_str(p):
    connected, err, name = p
    return f'{int(connected)};{int(err)};' + ('N' if name is None else 's' + enc(name))


def name_parse(t):
    return None if t == 'N' else dec(t[1:])


def py_parse(s):
    c, e, n = s.split(';')
    return (c == '1', e == '1', name_parse(n))


def op_str(op):
    k = op[0]
    if k == 'wn':
        return 'wn ' + ('' if type(op[1]) is str else type(op[1]).__name__ + ':') + enc(op[1])
    return ' '.join([k] + [show_arg(x) for x in op[1:]])


def val_str(v):
    if v is None:
        return 'None'
    if v is True:
        return 'True'
    if v is False:
        return 'False'
    if isinstance(v, int):
        return str(v)
    if isinstance(v, tuple) and len(v) == 2:
        return f'({v[0]},{v[1]})'
    return 'OTHER:' + repr(v)


# ------------------------------------------------------------------------------------------------
# boards
# ------------------------------------------------------------------------------------------------
class PyBoard:
    """Independent board, written from the EBB command reference (not from the Lean model).

    SL,value[,index]   value 0..255, index 0..31 (default 0)      -> SL
    QL[,index]                                                     -> QL,<value>
    ST,name            0..16 characters                            -> ST
    QT                                                             -> QT,<name>
    EM,e1[,e2]         each 0..5. e1: 0 = motor 1 off; 1..5 = motor 1 on AND global step mode := e1.
                       e2: 0 = motor 2 off; 1..5 = motor 2 on (at the global mode; value otherwise ignored)
    QE                 -> QE,s1,s2 with s = 0 (off) or 16/8/4/2/1 for global mode 1/2/3/4/5
    CU,50,v            automatic motor enable off/on; other CU parameters acknowledged
    anything else / bad parameters                                 -> a line containing 'Err:'
    replies end with LF; a request without its CR gets no reply."""
    QE = {1: 16, 2: 8, 3: 4, 4: 2, 5: 1}
    NUM = re.compile(r'-?[0-9]+\Z')

    def __init__(self, b):
        vars_, self.name, self.m1, self.m2, self.mode, self.auto = b
        self.vars = list(vars_)

    def state(self):
        return (list(self.vars), self.name, self.m1, self.m2, self.mode, self.auto)

    def handle(self, data):
        text = data.decode('latin-1')
        if not text.endswith('\r'):
            return b''
        return (self.line(text[:-1]) + '\n').encode('latin-1')

    def line(self, line):
        perr, uerr = '!8 Err: Parameter outside allowed range', '!3 Err: Unknown command'
        if line.startswith('ST,'):
            if len(line) - 3 > 16:
                return perr
            self.name = line[3:]
            return 'ST'
        parts = line.split(',')
        cmd, raw = parts[0], parts[1:]
        if any(not self.NUM.match(x) for x in raw):
            return uerr
        a = [int(x) for x in raw]
        if cmd == 'SL' and len(a) in (1, 2):
            v, i = a[0], (a[1] if len(a) == 2 else 0)
            if not (0 <= v <= 255 and 0 <= i <= 31 and i < len(self.vars)):
                return perr
            self.vars[i] = v
            return 'SL'
        if cmd == 'QL' and len(a) in (0, 1):
            i = a[0] if a else 0
            if not (0 <= i <= 31 and i < len(self.vars)):
                return perr
            return f'QL,{self.vars[i]}'
        if cmd == 'ST' and not a:
            self.name = ''
            return 'ST'
        if cmd == 'QT' and not a:
            return 'QT,' + self.name
        if cmd == 'EM' and len(a) in (1, 2):
            if not all(0 <= e <= 5 for e in a):
                return perr
            if a[0] != 0:
                self.mode = a[0]
            self.m1 = a[0] != 0
            if len(a) == 2:
                self.m2 = a[1] != 0
            return 'EM'
        if cmd == 'QE' and not a:
            c = self.QE[self.mode]
            return f'QE,{c if self.m1 else 0},{c if self.m2 else 0}'
        if cmd == 'CU' and len(a) == 2:
            if a[0] == 50:
                self.auto = a[1] != 0
            return 'CU'
        return uerr


class LeanBoard:
    """the Lean `boardRecv`, one driver round trip per write"""

    def __init__(self, driver, b):
        self.driver = driver
        self.s = board_str(b)

    def state(self):
        return board_parse(self.s)

    def handle(self, data):
        ans = self.driver.ask(f'c16 recv {self.s} {enc(data.decode("latin-1"))}')
        parts = ans.split(' ')
        if len(parts) != 2:
            raise RuntimeError(f'driver: bad recv answer {ans!r}')
        self.s = parts[0]
        return dec(parts[1]).encode('latin-1')


class FakePort:
    """conforming link: a write reaches the board; the next readline returns the reply line; later ones b''"""

    def __init__(self, board):
        self.board = board
        self.pending = []
        self.written = []
        self.nreads = 0
        self.replies = []       # every reply the board gave, in order (b'' = none)

    def write(self, data):
        self.written.append(data)
        r = self.board.handle(bytes(data))
        self.replies.append(r)
        if r:
            self.pending.append(r)
        return len(data)

    def readline(self):
        self.nreads += 1
        return self.pending.pop(0) if self.pending else b''

    def reset_input_buffer(self):
        self.pending = []

    def close(self):
        pass


# ------------------------------------------------------------------------------------------------
# running the real methods
# ------------------------------------------------------------------------------------------------
def call_op(e, op):
    k = op[0]
    if k == 'vw':
        return e.var_write(op[1], op[2])
    if k == 'vr':
        return e.var_read(op[1])
    if k == 'w32':
        return e.var_write_int32(op[1], op[2])
    if k == 'r32':
        return e.var_read_int32(op[1])
    if k == 'me':
        return e.motors_enable(op[1], op[2])
    if k == 'mq':
        return e.motors_query_enabled()
    if k == 'wn':
        return e.write_nickname(op[1])
    if k == 'qn':
        return e.query_nickname()
    raise ValueError(k)


def make_obj(py0, board):
    from plotink import ebb3_motion
    e = ebb3_motion.EBBMotionWrap()
    connected, err, name = py0
    port = FakePort(board)
    e.port = port if connected else None
    e.err = 'prior error' if err else None
    e.name = name
    return e, port


def run_real(py0, board, ops, hook=None):
    """-> (values | ('EXC', type name, index), final py, written lines)"""
    e, port = make_obj(py0, board)
    vals = []
    exc = None
    for k, op in enumerate(ops):
        try:
            v = call_op(e, op)
        except Exception as ex:  # pylint: disable=broad-except
            exc = (type(ex).__name__, k, repr(ex))
            break
        vals.append(v)
        if hook:
            hook(k, op, v, e)
    return vals, exc, (e.port is not None, e.err is not None, e.name), \
        [w.decode('latin-1') for w in port.written], e


# ------------------------------------------------------------------------------------------------
# Ref: the abstract semantics of the property statement (the oracle)
# ------------------------------------------------------------------------------------------------
def be_bytes(v):
    u = v % (1 << 32)          # two's complement
    return [(u >> 24) & 255, (u >> 16) & 255, (u >> 8) & 255, u & 255]


def signed32(bs):
    u = ((bs[0] * 256 + bs[1]) * 256 + bs[2]) * 256 + bs[3]
    return u - (1 << 32) if u >= (1 << 31) else u


def clamp(r):
    return 0 if r < 0 else 5 if r > 5 else r


def py_strip(s):
    """what the library's `nickname.strip()` does (Python's own notion of whitespace; for ASCII text = PY_SPACE)"""
    return s.strip() if any(ord(c) > 127 for c in s) else s.strip(PY_SPACE)


class Ref:
    def __init__(self, b, name):
        vars_, self.bname, self.m1, self.m2, self.mode, self.auto = b
        self.vars = list(vars_)
        self.pyname = name

    def step(self, op, observed=None):
        """-> required return value; updates the required board state. Arguments are read as the integers they stand
        for. `observed` = the board's (m1, m2, mode) after the call: only used to choose between the admissible readings
        of a NON-integral motor request (see `readings`); with integer-valued requests there is exactly one."""
        k = op[0]
        if k == 'vw':
            self.vars[int(op[2])] = int(op[1])
            return True
        if k == 'vr':
            return self.vars[int(op[1])]
        if k == 'w32':
            i = int(op[2])
            self.vars[i:i + 4] = be_bytes(int(op[1]))
            return True
        if k == 'r32':
            i = int(op[1])
            return signed32(self.vars[i:i + 4])
        if k == 'me':
            cands = []
            for a in readings(op[1]):
                for b in readings(op[2]):
                    if (clamp(a), clamp(b)) not in cands:
                        cands.append((clamp(a), clamp(b)))
            c1, c2 = cands[0]
            if observed is not None:
                for c in cands[1:]:
                    if self.after(c) == observed and self.after((c1, c2)) != observed:
                        c1, c2 = c
            self.m1, self.m2, self.mode = self.after((c1, c2))
            if c1 != c2 and (c1 == 0 or c2 == 0):
                self.auto = False          # not part of the property; compared between boards only
            return None
        if k == 'mq':
            return (self.mode if self.m1 else 0, self.mode if self.m2 else 0)
        if k == 'wn':
            self.bname = py_strip(str(op[1]))
            self.pyname = self.bname
            return True
        if k == 'qn':
            self.pyname = py_strip(self.bname)
            return None
        raise ValueError(k)

    def after(self, c):
        """(m1, m2, mode) the statement requires after the clamped integer request c = (c1, c2) from the current state"""
        c1, c2 = c
        return (c1 != 0, c2 != 0, c1 if c1 != 0 else c2 if c2 != 0 else self.mode)

    def motor_state(self):
        return (self.m1, self.m2, self.mode)


# ------------------------------------------------------------------------------------------------
# domain
# ------------------------------------------------------------------------------------------------
def printable(s):
    return all(32 <= ord(c) <= 126 for c in s)


def nick_ok(s):
    t = py_strip(s)
    # the TRIMMED name must be ASCII; Unicode whitespace padding that strip() removes is allowed (typed cases, oracle only)
    return all(ord(c) < 128 for c in t) and printable(t) and len(t) <= 16 and 'Err:' not in t


def op_in_domain(op):
    k = op[0]
    if k in ('vw', 'vr', 'w32', 'r32'):
        # ints only; a bool is accepted where the unchanged code computes with it (int32 value, slot of the 4-byte reader)
        # and not where it is formatted into the request (`SL,True,0`)
        for j, x in enumerate(op[1:]):
            if not isinstance(x, int) or (type(x) is bool and not ((k == 'w32' and j == 0) or k == 'r32')):
                return False
    if k == 'vw':
        return 0 <= op[1] <= 255 and 0 <= op[2] <= 31
    if k == 'vr':
        return 0 <= op[1] <= 31
    if k == 'w32':
        return INT32_MIN <= op[1] <= INT32_MAX and 0 <= op[2] <= 28
    if k == 'r32':
        return 0 <= op[1] <= 28
    if k == 'wn':
        return isinstance(op[1], str) and nick_ok(op[1])
    if k == 'me':
        return request_ok(op[1]) and request_ok(op[2])
    return True


def board_ok(b):
    vars_, name, _m1, _m2, mode, _auto = b
    return len(vars_) == 32 and all(0 <= x <= 255 for x in vars_) and 1 <= mode <= 5 and printable(name) \
        and 'Err:' not in name and len(name) <= 16


# ------------------------------------------------------------------------------------------------
# generators
# ------------------------------------------------------------------------------------------------
BOUNDARY32 = [0, 1, -1, 255, -255, 256, -256, 257, 65535, 65536, -65536, 16777215, 16777216, -16777216,
              0x01020304, -0x01020304, 0x7F000000, 0x00FF00FF, -0x00FF00FF, INT32_MAX, INT32_MAX - 1, INT32_MIN,
              INT32_MIN + 1, 2 ** 30, -2 ** 30, 0x80 - 0x100, 128, -128, -129, 32767, -32768, 32768]
NICK_CHARS = 'abcXYZ019 _-.,:;!#~Er'


def rand_int32(rng):
    k = rng.random()
    if k < 0.3:
        return rng.choice(BOUNDARY32)
    if k < 0.5:
        return max(INT32_MIN, min(INT32_MAX, rng.choice([1, -1]) * (2 ** rng.randint(0, 31)) + rng.choice([-1, 0, 1])))
    if k < 0.7:
        return rng.randint(-70000, 70000)
    return rng.randint(INT32_MIN, INT32_MAX)


def rand_name(rng, maxlen=16):
    n = rng.choice([0, 1, 2, 5, maxlen - 1, maxlen, rng.randint(0, maxlen)])
    n = max(0, min(maxlen, n))
    while True:
        s = ''.join(rng.choice(NICK_CHARS) for _ in range(n))
        if 'Err:' not in s:
            return s


def rand_board(rng):
    kind = rng.random()
    if kind < 0.15:
        vars_ = [0] * 32
    elif kind < 0.3:
        vars_ = [255] * 32
    else:
        vars_ = [rng.choice([0, 1, 127, 128, 254, 255, rng.randint(0, 255)]) for _ in range(32)]
    name = rand_name(rng)
    if rng.random() < 0.3 and len(name) <= 13:
        name = rng.choice(['', ' ', '  ']) + name + rng.choice(['', ' '])
    return (vars_, name, rng.random() < 0.5, rng.random() < 0.5, rng.randint(1, 5), rng.random() < 0.5)


WS_RUNS = ['', '', ' ', '  ', '\t', ' \n', '\r\n ', '   ', '\t\t', ' \t ', '    ', '\t \t \t', ' ' * 8, '\n' + ' ' * 5 + '\t']


def rand_nick(rng):
    """raw argument = blanks + trimmed name + blanks. The property's domain is on the TRIMMED name (<= 16 printable
    ASCII, no 'Err:'); the raw argument may be any amount longer (raw length up to ~40)."""
    core = rand_name(rng).strip(PY_SPACE)
    if rng.random() < 0.35:
        # trimmed length 14..16 (the ST limit and just below it) with raw length pushed beyond 16
        n = rng.choice([14, 15, 16, 16])
        while True:
            core = ''.join(rng.choice(NICK_CHARS) for _ in range(n))
            if 'Err:' not in core and core.strip(PY_SPACE) == core:
                break
    pre = rng.choice(WS_RUNS)
    post = rng.choice(WS_RUNS)
    return pre + core + post


def boundary_nicks():
    """trimmed length 14..17 x leading/trailing whitespace runs of several lengths and kinds (raw length up to 30)"""
    out = []
    alpha = 'ABCDEFGHIJKLMNOPQ'
    for tl in (13, 14, 15, 16):
        for core in (alpha[:tl], ('A B  ' + alpha)[:tl - 1] + 'z'):
            for pre in ('', ' ', '  ', '\t', '   ', ' \t', ' ' * 4, ' ' * 8, '\r\n\t  '):
                for post in ('', ' ', '\t\n', ' ' * 3, ' ' * 9):
                    out.append(pre + core + post)
    return out


def rand_op(rng):
    k = rng.random()
    if k < 0.22:
        return ('w32', rand_int32(rng), rng.randint(0, 28))
    if k < 0.40:
        return ('r32', rng.randint(0, 28))
    if k < 0.48:
        return ('vw', rng.choice([0, 1, 127, 128, 255, rng.randint(0, 255)]), rng.randint(0, 31))
    if k < 0.56:
        return ('vr', rng.randint(0, 31))
    if k < 0.74:
        return ('me', rng.randint(-1, 6), rng.randint(-1, 6)) if rng.random() < 0.9 else \
            ('me', rng.randint(-10 ** 6, 10 ** 6), rng.randint(-300, 300))
    if k < 0.84:
        return ('mq',)
    if k < 0.92:
        return ('wn', rand_nick(rng))
    return ('qn',)


def typed_requests(rng):
    """motor requests that are not exact ints: every class the documented int() conversion accepts. Integer-valued ones
    (bool, x.0 floats, integral Fraction/Decimal, int subclass, numerals) stand for one integer; the non-integral ones
    sit below 0 / above 5 (one clamped value whatever the rounding) and inside (0, 5) (two admissible readings)."""
    fixed = [False, True,
             0.0, -0.0, 1.0, 2.0, 3.0, 4.0, 5.0, 6.0, 7.0, -1.0, 2.0 ** 31, 1e300, -1e300,
             2.7, 0.5, 1.5, 0.9999999999999999, 4.999999999999999, 5.000000000000001, 5.5, -0.5, -1e-320, 5e-324,
             IntSub(0), IntSub(1), IntSub(3), IntSub(5), IntSub(9), IntSub(-4),
             Fraction(0), Fraction(3), Fraction(5, 2), Fraction(-1, 3), Fraction(11, 2),
             Decimal('0'), Decimal('2'), Decimal('4.0'), Decimal('2.7'), Decimal('-0.1'), Decimal('1E+2'),
             '0', '1', '3', '5', '6', '-1', ' 4 ', '+2', '007', '2\n', '-0']
    return fixed + [rand_request(rng) for _ in range(6)]


def rand_request(rng):
    """one random typed motor request"""
    n = rng.choice([rng.randint(-2, 7), rng.randint(0, 5), rng.randint(1, 5), rng.randint(-10 ** 6, 10 ** 6)])
    k = rng.random()
    if k < 0.12:
        return bool(n % 2)
    if k < 0.40:
        return float(n)
    if k < 0.52:
        return n + rng.choice([rng.random(), 0.5, 1e-9, 1 - 2 ** -30])
    if k < 0.62:
        return IntSub(n)
    if k < 0.72:
        return Fraction(n) if rng.random() < 0.6 else Fraction(n * 7 + rng.randint(0, 6), 7)
    if k < 0.82:
        return Decimal(n) if rng.random() < 0.6 else Decimal(n) + Decimal(rng.randint(0, 99)) / 100
    return rng.choice(['', ' ', '  ', '\t']) + rng.choice(['', '', '+'] if n >= 0 else ['']) + \
        rng.choice(['', '0', '00']).join(['-' if n < 0 else '', str(abs(n))]) + rng.choice(['', ' ', '\n', '\r\n'])


def rand_op_typed(rng):
    """like rand_op, with arguments of the non-exact types the unchanged methods accept"""
    k = rng.random()
    isub = lambda v: IntSub(v) if rng.random() < 0.6 else v
    if k < 0.18:
        v = rng.choice([True, False]) if rng.random() < 0.3 else isub(rand_int32(rng))
        return ('w32', v, isub(rng.randint(0, 28)))
    if k < 0.34:
        c = rng.random()
        return ('r32', rng.choice([True, False]) if c < 0.3 else isub(rng.randint(0, 28)))
    if k < 0.40:
        return ('vw', isub(rng.choice([0, 1, 127, 128, 255, rng.randint(0, 255)])), isub(rng.randint(0, 31)))
    if k < 0.46:
        return ('vr', isub(rng.randint(0, 31)))
    if k < 0.78:
        r = lambda: rand_request(rng) if rng.random() < 0.7 else rng.randint(-1, 6)
        return ('me', r(), r())
    if k < 0.86:
        return ('mq',)
    if k < 0.94:
        return ('wn', StrSub(rand_nick(rng)))
    return ('qn',)


def all_motor_states():
    for m1 in (False, True):
        for m2 in (False, True):
            for mode in (1, 2, 3, 4, 5):
                for auto in (False, True):
                    yield (m1, m2, mode, auto)


# ------------------------------------------------------------------------------------------------
# one case
# ------------------------------------------------------------------------------------------------
def path_of(ops, written):
    """model-path id of a case, from its first operation and the traffic it produced"""
    op = ops[0]
    k = op[0]
    if len(ops) > 2 and not (k == 'w32' and all(o[0] in ('r32', 'vr') for o in ops[1:])):
        return 'sequence'
    if k == 'w32':
        return 'int32:negative' if op[1] < 0 else 'int32:non-negative'
    if k == 'me':
        c1, c2 = clamp(readings(op[1])[0]), clamp(readings(op[2])[0])
        if c1 == 0 and c2 == 0:
            return 'motors:both-off'
        if c1 != 0 and c2 != 0:
            return 'motors:both-on'
        if c1 != 0:
            return 'motors:only-1'
        n_em = sum(1 for w in written if w.startswith('EM'))
        return 'motors:only-2:preset' if n_em >= 2 else 'motors:only-2:mode-already-set'
    if k in ('wn', 'qn'):
        return 'nickname'
    return 'single-slot'


def judge(ctx, case, tag, report=True):
    """run C (real code on PyBoard) against Ref. Returns (final PyBoard state, values, exc, py, written, flagged).
    A fault found inside a long sequence is re-judged on the one-operation case (state just before the failing
    operation, that operation alone) and reported in that minimal form when it still fails."""
    py0, b0, ops = case
    inp = {'py': py_str(py0), 'board': board_str(b0), 'ops': [op_str(o) for o in ops]}
    board = PyBoard(b0)
    ref = Ref(b0, py0[2])
    problems = []
    snaps = [(board.state(), py0[2])]      # snaps[k] = (board state, self.name) just before operation k
    first = {}

    def hook(k, op, v, e):
        n_before = len(problems)
        st = board.state()
        want = ref.step(op, observed=(st[2], st[3], st[4]))
        kind = op[0]
        if v != want or type(v) is not type(want):
            problems.append((f'{kind}: wrong return value', k, val_str(v), val_str(want)))
        if st[0] != ref.vars:
            diff = [(i, st[0][i], ref.vars[i]) for i in range(32) if st[0][i] != ref.vars[i]]
            what = {'w32': 'int32 write: slots do not hold the big-endian two\'s-complement bytes / other slots changed',
                    'vw': 'single-slot write stored wrongly'}.get(kind, f'{kind}: variable slots changed')
            problems.append((what, k, f'slots (index, stored, required): {diff[:6]}', 'as required'))
            ref.vars = list(st[0])      # resynchronise so that one fault is reported once
        if (st[2], st[3], st[4]) != ref.motor_state():
            problems.append((f'{kind}: motor enables / global step mode wrong on the board', k,
                             f'(m1, m2, mode) = {(st[2], st[3], st[4])}', f'{ref.motor_state()}'))
            ref.m1, ref.m2, ref.mode = st[2], st[3], st[4]
        # The statement speaks of the nickname as READ BACK: `ref.bname` is the nickname that was WRITTEN (trimmed), or
        # the prior board's name; every later query_nickname must yield its trimmed form. In which form the board
        # stores it is compared between implementation and model (runs A/B) and is neither judged nor followed here.
        if kind == 'qn' and e.name != ref.pyname:
            problems.append(('nickname read back is not the trimmed written nickname', k, repr(e.name),
                             repr(ref.pyname)))
            ref.bname = st[1]           # one fault, one report
            ref.pyname = e.name
        if e.err is not None:
            problems.append((f'{kind}: an error was recorded on a conforming board', k, repr(e.err), 'no error'))
        if kind == 'wn':
            e.name = None           # so that a following query_nickname is observed as a real read-back
            ref.pyname = None
        if len(problems) > n_before and 'k' not in first:
            first['k'] = k
        snaps.append((board.state(), e.name))

    vals, exc, pyf, written, e = run_real(py0, board, ops, hook)
    if exc is not None:
        problems.append((f'{ops[exc[1]][0]}: raised {exc[0]}', exc[1], exc[2], 'a value'))
        first.setdefault('k', exc[1])
    if problems and report:
        k = first['k']
        candidates = []
        if len(ops) > 1:
            candidates.append((snaps[k], [ops[k]]))
            if ops[k][0] == 'qn':
                # a wrong read-back is the fault of the write before it: minimal history = that write + the read
                j = max([i for i in range(k) if ops[i][0] == 'wn'], default=None)
                if j is not None and (j, k) != (0, 1):
                    candidates.append((snaps[j], [ops[j], ops[k]]))
        shrunk = False
        for (bst, nm), small_ops in candidates:
            if board_ok(bst):
                small = ((True, False, nm), bst, small_ops)
                if judge(ctx, small, tag + ':shrunk', report=False)[5]:
                    judge(ctx, small, tag + ':shrunk', report=True)
                    shrunk = True
                    break
        if not shrunk:
            for what, k, obs, req in problems[:3]:
                ctx.violate(what, dict(inp, failing_op_index=k, tag=tag), obs, req)
    return board.state(), vals, exc, pyf, written, bool(problems)


def run_case(ctx, case, tag, in_domain=True):
    """A (co-simulation) now; returns the record needed to compare with B later"""
    py0, b0, ops = case
    rec = {'case': case, 'tag': tag, 'in_domain': in_domain}
    if in_domain:
        st, vals, exc, pyf, written, flagged = judge(ctx, case, tag)
        rec['C'] = (st, vals, exc, pyf, flagged)
        ctx.count((py_str(py0), board_str(b0), tuple(op_str(o) for o in ops)), path_of(ops, written),
                  nontrivial=any(o[0] in ('w32', 'vw', 'me', 'wn') for o in ops))
    if ctx.driver is not None and plain_ops(ops):
        lb = LeanBoard(ctx.driver, b0)
        percall = []
        marks = {'w': 0, 'r': 0}

        def hook(k, op, v, e):
            port = e.port
            if port is None:
                return
            percall.append({'ret': v, 'written': [w.decode('latin-1') for w in port.written[marks['w']:]],
                            'nreads': port.nreads - marks['r'], 'err': e.err, 'name': e.name})
            marks['w'], marks['r'] = len(port.written), port.nreads
        vals, exc, pyf, written, e = run_real(py0, lb, ops, hook)
        rec['A'] = (lb.state(), vals, exc, pyf, written)
        if in_domain and exc is None and e.port is not None and len(percall) == len(ops):
            rec['gen'] = (percall, [r.decode('latin-1') for r in e.port.replies])
    return rec


GEN_FUEL = 30
GEN_METHOD = {'vw': 'var_write', 'vr': 'var_read', 'w32': 'var_write_int32', 'r32': 'var_read_int32',
              'me': 'motors_enable', 'mq': 'motors_query_enabled', 'wn': 'write_nickname', 'qn': 'query_nickname'}


def gen_line(rec):
    """the same history for the SOURCE-REGENERATED methods (`ebb3gen run`, Drv/Ebb3Gen.lean; Gen/EBB3_*.lean are regenerated
    from the current source on every run). The port script handed to them is what the co-simulated Lean board answered
    in run A, reply by reply (= `boardReads` of the theorems `C16_gen_*`); every write succeeds."""
    from . import ebb3_fake as F
    py0, _b0, ops = rec['case']
    _percall, replies = rec['gen']
    if any(r == '' for r in replies):
        return None
    state = F.State(port=True, err=None, name=py0[2])
    rd = '.' if not replies else ';'.join('L' + F.enc_str(r) for r in replies)
    calls = [(GEN_METHOD[o[0]], list(o[1:])) for o in ops]
    return ' '.join(['ebb3gen', 'run', str(GEN_FUEL)] + state.tokens() + [rd, '.'] + [F.enc_call(c) for c in calls])


def compare_gen(ctx, rec, answer):
    """validation stream: the regenerated methods must do exactly what the real methods did on the co-simulated board —
    value, bytes written, reads consumed, err, name — call by call"""
    from . import ebb3_fake as F
    py0, b0, ops = rec['case']
    inp = {'py': py_str(py0), 'board': board_str(b0), 'ops': [op_str(o) for o in ops], 'tag': rec['tag']}
    percall, _replies = rec['gen']
    outs = [] if answer == '' else answer.split(' | ')
    for k, r in enumerate(percall):
        wr = '.' if not r['written'] else ';'.join(F.enc_str(t) for t in r['written'])
        mine = ' '.join(['V' + F.canon(r['ret']), wr, str(r['nreads']), '1', F.opt(r['err']), '~', '~', F.opt(r['name']),
                         '~', '~'])
        o = outs[k] if k < len(outs) else 'MISSING'
        key = 'gen:same' if mine == o else 'gen:differs'
        ctx.paths[key] = ctx.paths.get(key, 0) + 1
        if mine != o:
            ctx.disagree(f'regenerated method Gen.{GEN_METHOD[ops[k][0]]} (translator/pyio2lean.py) vs implementation on the '
                         f'co-simulated board: call {k} differs', inp, mine, o)
            return False
    return True


def model_lines(rec):
    py0, b0, ops = rec['case']
    body = ' / '.join(op_str(o) for o in ops)
    return [f'c16 runops {py_str(py0)} {board_str(b0)} {body}',
            f'c16 spec {("N" if py0[2] is None else "s" + enc(py0[2]))} {board_str(b0)} {body}']


def compare(ctx, rec, out_model, out_spec):
    py0, b0, ops = rec['case']
    inp = {'py': py_str(py0), 'board': board_str(b0), 'ops': [op_str(o) for o in ops], 'tag': rec['tag']}
    st, vals, exc, pyf, written = rec['A']
    if exc is not None:
        impl = 'EXC:' + exc[0]
    else:
        impl = ' '.join(['/'.join(val_str(v) for v in vals) if vals else '~',
                         py_str(pyf), board_str(st),
                         '|'.join(enc(w[:-1] if w.endswith('\r') else w + '<no CR>') for w in written) if written else '~'])
    model = out_model
    if impl != model:
        if rec['in_domain']:
            ctx.disagree('methods (co-simulated on the Lean board) vs Lean model methods', inp, impl, model)
        else:
            ctx.out_of_domain.append({'what': 'model vs implementation outside the property domain', 'input': inp,
                                      'impl': impl, 'model': model})
    if rec['in_domain'] and 'C' in rec:
        cst, cvals, cexc, cpyf, flagged = rec['C']
        # the two boards (Lean, Python) must have been driven to the same state by the same code
        if cexc is None and exc is None and (cst != st or [val_str(v) for v in cvals] != [val_str(v) for v in vals]):
            ctx.disagree('Lean board vs independent Python board (same real code, same requests)', inp,
                         board_str(cst) + ' ' + '/'.join(val_str(v) for v in cvals),
                         board_str(st) + ' ' + '/'.join(val_str(v) for v in vals))
        # Spec.steps (Lean) vs Ref (Python) through the implementation: informative second opinion
        if cexc is None and out_spec not in (None, 'BAD'):
            sp = out_spec.split(' ')
            if sp[2] != board_str(cst) or sp[0] != ('/'.join(val_str(v) for v in cvals) if cvals else '~'):
                if not flagged:
                    ctx.disagree('Lean Spec.steps and the Python oracle Ref judge this case differently', inp,
                                 ('/'.join(val_str(v) for v in cvals) if cvals else '~') + ' ' + board_str(cst),
                                 sp[0] + ' ' + sp[2])


# ------------------------------------------------------------------------------------------------
def op_parse(t):
    p = t.split(' ')
    if p[0] == 'wn':
        return ('wn', dec(p[1]))
    return tuple([p[0]] + [int(x) for x in p[1:]])


def corpus_cases():
    """corpus/C16/*.jsonl: hand-made boundary cases and minimised past failures; run before anything random"""
    d = os.path.join(VERIF, 'corpus', 'C16')
    out = []
    if os.path.isdir(d):
        for fn in sorted(os.listdir(d)):
            if fn.endswith('.jsonl'):
                for line in open(os.path.join(d, fn)):
                    if line.strip():
                        r = json.loads(line)
                        out.append(((True, False, None), board_parse(r['board']), [op_parse(o) for o in r['ops']], 'corpus'))
    return out


def build_cases(ctx):
    rng = ctx.rng
    ok_py = (True, False, None)
    cases = corpus_cases()
    # 1. int32: every slot x every boundary value (+ random), prior board random; write, read back, read neighbours
    for slot in range(29):
        vals = list(BOUNDARY32) + [rand_int32(rng) for _ in range(4)]
        for v in vals:
            ops = [('w32', v, slot), ('r32', slot)]
            cases.append(((True, False, rng.choice([None, 'x'])), rand_board(rng), ops, 'int32'))
    # 1b. single slots: every slot 0..31 x boundary bytes
    for slot in range(32):
        for v in (0, 1, 127, 128, 255, rng.randint(0, 255)):
            cases.append((ok_py, rand_board(rng), [('vw', v, slot), ('vr', slot)], 'single-slot'))
    # 2. motors: {-1..6}^2 x all 40 prior motor states
    for (m1, m2, mode, auto) in all_motor_states():
        for r1 in range(-1, 7):
            for r2 in range(-1, 7):
                vars_, name, *_ = rand_board(rng)
                cases.append((ok_py, (vars_, name, m1, m2, mode, auto), [('me', r1, r2), ('mq',)], 'motors'))
    for _ in range(ctx.n(100)):
        b = rand_board(rng)
        r = lambda: rng.choice([rng.randint(-2 ** 40, 2 ** 40), rng.randint(-9, 12), 5, 6, 0, -1])
        cases.append((ok_py, b, [('me', r(), r()), ('mq',)], 'motors-wide'))
    # 2t. motors, request TYPES (oracle runs only): every typed request x partner ints on either side x all 40 prior motor
    #     states; random typed x typed pairs
    treq = typed_requests(rng)
    for (m1, m2, mode, auto) in all_motor_states():
        vars_, name, *_ = rand_board(rng)
        for t in treq:
            for i in (-2, 0, 1, 3, 5, 7):
                for (r1, r2) in ((t, i), (i, t)):
                    cases.append((ok_py, (vars_, name, m1, m2, mode, auto), [('me', r1, r2), ('mq',)], 'motors-typed'))
    states = list(all_motor_states())
    for _ in range(ctx.n(1500)):
        vars_, name, *_ = rand_board(rng)
        r = lambda: rng.choice(treq) if rng.random() < 0.6 else rand_request(rng)
        cases.append((ok_py, (vars_, name) + rng.choice(states), [('me', r(), r()), ('mq',)], 'motors-typed'))
    # 1t. int32 / single slots with bool and int-subclass arguments (value, writer slot, reader slot)
    for v in [True, False] + [IntSub(b) for b in BOUNDARY32] + [IntSub(rand_int32(rng)) for _ in range(ctx.n(40))]:
        for _ in range(2):
            slot = rng.choice([0, 1, 1, 28, rng.randint(0, 28)])
            ws = rng.choice([slot, IntSub(slot)])
            rs = rng.choice([slot, IntSub(slot)] + ([bool(slot)] if slot <= 1 else []))
            if plain_ops([('w32', v, ws), ('r32', rs)]):
                rs = IntSub(slot)
            cases.append((ok_py, rand_board(rng), [('w32', v, ws), ('r32', rs)], 'int32-typed'))
    for slot in (0, 1):
        for v in (True, False, 0x01020304, -2):
            cases.append((ok_py, rand_board(rng), [('w32', v, slot), ('r32', bool(slot)), ('r32', slot)], 'int32-typed'))
    for _ in range(ctx.n(40)):
        slot, v = rng.randint(0, 31), rng.choice([0, 1, 127, 128, 255, rng.randint(0, 255)])
        cases.append((ok_py, rand_board(rng), [('vw', IntSub(v), rng.choice([slot, IntSub(slot)])), ('vr', IntSub(slot))],
                      'single-slot-typed'))
    # 3t. nicknames given as a str subclass
    for n in ['', ' ', 'AxiDraw 1', '  both  ', 'x' * 16, ' ' + 'y' * 16 + ' '] + [rand_nick(rng) for _ in range(ctx.n(40))]:
        cases.append((ok_py, rand_board(rng), [('wn', StrSub(n)), ('qn',)], 'nick-typed'))
    # 3u. nicknames padded with Unicode whitespace that str.strip() removes (NBSP, NEL, EM SPACE, IDEOGRAPHIC SPACE): read back trimmed
    for n in ['Bob', 'AxiDraw 1', '', 'x' * 16] + [py_strip(rand_nick(rng)) for _ in range(ctx.n(20))]:
        for l, r_ in (('\xa0', '\xa0'), ('\x85', ''), ('', '\u2003'), ('\u3000 ', ' \xa0')):
            cases.append((ok_py, rand_board(rng), [('wn', 'previous'), ('wn', l + n + r_), ('qn',)], 'nick-typed'))
    # 4t. random operation sequences with typed arguments on one object
    for _ in range(ctx.n(300)):
        ops = [rand_op_typed(rng) for _ in range(rng.randint(3, 20))]
        cases.append((ok_py, rand_board(rng), ops, 'sequence-typed'))
    # 3. nicknames
    nicks = ['', ' ', 'a', 'AxiDraw 1', ' lead', 'trail ', '  both  ', '\tTab\n', 'x' * 16, ' ' + 'y' * 16 + ' ',
             '  ' + 'z' * 16, 'a b  c', ',', ',,', 'a,b', 'QT', 'ST,1', 'Err', 'rr:', 'E r r :', '0', '-1', '16,0',
             'name\r\n', '\x1f n \x1c']
    for n in nicks + boundary_nicks() + [rand_nick(rng) for _ in range(ctx.n(300))]:
        cases.append((ok_py, rand_board(rng), [('wn', n), ('qn',)], 'nick'))
    for _ in range(ctx.n(60)):
        cases.append(((True, False, rng.choice([None, 'old'])), rand_board(rng), [('qn',)], 'nick-prior'))
    # 4a. int32 under interleavings with disjoint writes
    for _ in range(ctx.n(600)):
        slot = rng.randint(0, 28)
        v = rand_int32(rng)
        ops = [('w32', v, slot)]
        for _ in range(rng.randint(1, 6)):
            c = rng.random()
            if c < 0.4:
                free = [j for j in range(32) if not slot <= j < slot + 4]
                ops.append(('vw', rng.randint(0, 255), rng.choice(free)))
            elif c < 0.7:
                starts = [j for j in range(29) if j + 3 < slot or j >= slot + 4]
                if starts:
                    ops.append(('w32', rand_int32(rng), rng.choice(starts)))
            elif c < 0.85:
                ops.append(('me', rng.randint(-1, 6), rng.randint(-1, 6)))
            else:
                ops.append(('wn', rand_nick(rng)))
        ops.append(('r32', slot))
        cases.append((ok_py, rand_board(rng), ops, 'int32-frame'))
    # 4. random operation sequences
    for _ in range(ctx.n(1200)):
        ops = [rand_op(rng) for _ in range(rng.randint(3, 30))]
        cases.append((ok_py, rand_board(rng), ops, 'sequence'))
    return cases


def build_ood(ctx):
    rng = ctx.rng
    ok_py = (True, False, None)
    out = []
    for ops in ([('w32', 2 ** 31, 0)], [('w32', -2 ** 31 - 1, 3)], [('w32', 5, 29), ('r32', 29)], [('w32', -5, 31)],
                [('r32', 30)], [('vw', 256, 0)], [('vw', -1, 0)], [('vw', 1, 32)], [('vr', 32)], [('vr', -1)],
                [('wn', 'x' * 17), ('qn',)], [('wn', 'Err:or'), ('qn',)], [('wn', 'café'), ('qn',)],
                [('wn', 'a\rb'), ('qn',)]):
        out.append((ok_py, rand_board(rng), ops, 'out-of-domain'))
    # object not connected / already in error: every method is a no-op (not part of C16; model agreement only)
    for py0 in ((False, False, None), (True, True, 'n'), (False, True, None)):
        out.append((py0, rand_board(rng), [rand_op(rng) for _ in range(6)], 'guard'))
    return out


def run(ctx):
    cases = build_cases(ctx)
    recs = []
    for (py0, b0, ops, tag) in cases:
        assert board_ok(b0) and all(op_in_domain(o) for o in ops), (b0, ops)
        recs.append(run_case(ctx, (py0, b0, ops), tag, True))
    for (py0, b0, ops, tag) in build_ood(ctx):
        if ctx.driver is not None:
            recs.append(run_case(ctx, (py0, b0, ops), tag, False))
    typed = [r for r in recs if 'A' not in r]
    by_type = {}
    for r in typed:
        for o in r['case'][2]:
            for x in o[1:]:
                if not exact(x, o[0]):
                    by_type[type(x).__name__] = by_type.get(type(x).__name__, 0) + 1
    ctx.notes.append(f'typed-argument cases (implementation on the independent board + statement oracle only): {len(typed)}; '
                     f'non-int/str arguments by type: {dict(sorted(by_type.items()))}')
    if ctx.driver is not None:
        recs = [r for r in recs if 'A' in r]
        lines = []
        for r in recs:
            lines += model_lines(r)
        outs = ctx.driver.batch(lines)
        for k, r in enumerate(recs):
            compare(ctx, r, outs[2 * k], outs[2 * k + 1] if r['in_domain'] else None)
        # ---- validation stream: the SOURCE-REGENERATED methods on the scripts the co-simulated board produced ----
        gjobs = [(r, gen_line(r)) for r in recs if 'gen' in r]
        gjobs = [(r, g) for (r, g) in gjobs if g is not None]
        gouts = ctx.driver.batch([g for (_r, g) in gjobs])
        for (r, _g), ans in zip(gjobs, gouts):
            compare_gen(ctx, r, ans)
        ctx.notes.append(f'regenerated-code stream: {len(gjobs)} histories replayed on Gen.EBB3_* / Gen.EBBMotionWrap_* '
                         f'({ctx.paths.get("gen:same", 0)} calls identical, {ctx.paths.get("gen:differs", 0)} differing)')
    else:
        ctx.notes.append('driver missing: property oracle ran on the independent Python board only')
    missing = [p for p in REQUIRED_PATHS if not ctx.paths.get(p)]
    if missing and not ctx.violations and not ctx.disagreements:
        raise Infra(f'model paths without input: {missing}')
    for r in recs[:3] + [x for x in recs if x['tag'] in ('motors', 'nick')][:4]:
        py0, b0, ops = r['case']
        ctx.sample({'tag': r['tag'], 'board': board_str(b0), 'ops': [op_str(o) for o in ops],
                    'impl_on_lean_board': (lambda a: {'values': [val_str(v) for v in a[1]], 'board': board_str(a[0]),
                                                      'written': a[4]})(r['A']) if 'A' in r else None})
