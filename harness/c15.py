"""C15 - firmware version gating: numeric version order (both layers), the EBB3 identification handshake,
and the legacy feature gates.

correspondence : Lean model (lean/Plotink/Model/C15.lean, through the driver) vs the real code driven by a
                 scripted fake port (serial.Serial / comports replaced through module attributes; no repo hook)
oracle         : Python-side, from the property statement and the generator's ground truth (never from the model)
"""
import ast, os, itertools, json
from .common import enc_str, REPO, VERIF, Infra

RULE = ('version pairs: full cross product of a grid with multi-digit components around every gate + random triples, '
        'padded/short/leading-zero/v-prefixed spellings, through BOTH layers; connect: every pair of probe outcomes '
        '{good vX, empty, blank line, non-EBB line, lower-case ebb, raise} x open ok/fail x write faults x grid versions x '
        'CU/QT continuations, each followed by two ordinary requests and a re-connect; legacy: every gated function x grid '
        'version x reply timing; SEQUENCES: two sessions on the same serial device name for every gated legacy '
        'function (responsive board fakes carrying pyserial attributes port/name; session 1 ended by closePort / a raising '
        'close / port.close() / abandonment; versions (A,B) around each gate; every call judged), and EBB3 connection '
        'sequences (same object after disconnect / raising close / immediate retry, or a new object; per-port read chunks) '
        'with every connect judged and assignments to err observed; I/O faults signalled as plain OSError at open and at '
        'each probe read/write; a case is non-trivial when the device is not simply a prompt supported board; '
        'distinct by the full scenario tuple')
TRUSTED = ['harness/c15.py fake port (scripted readline/write/open outcomes) and the AST literal extractor',
           'modelled not verified: packaging.version on release-only versions (validated by this run against the '
           'installed packaging), pyserial (replaced by the script), str.strip/in/split on ASCII']
ASSUMPTIONS = ['C15_gen_* domain: scripts whose faults are serial I/O exception classes and whose lines are ASCII (PortOk); '
               'version texts without a leading v (NoV: the translator runtime\'s parse rejects one, packaging accepts it); '
               'fuel >= 101; a port write that raises is recorded in the runtime\'s log (attempted writes), whereas the '
               'hand model and the harness count only what reached the device',
               'device bytes are ASCII; version texts are release-only (digits and dots, optional v) with components '
               'below the int-string-digits limit; a reply containing EBB but no "Firmware Version " text, and '
               'pre-release/dev version texts, are outside the quantifier (logged)',
               'port location (find_first/find_named, C19) is an input of the connect model',
               'reset_input_buffer() of the port does not raise; a raising close() is exercised (python side) and has no '
               'effect on the model state',
               'the "raising" class of the handshake = what a pyserial port can raise for an I/O failure: '
               'SerialException, and plain OSError/IOError (pyserial posix open() lets the OSError of its DTR/RTS ioctl '
               'escape; command()/query() list these classes). The Lean model covers the classes the try block of connect '
               'contains (read from the AST); OSError scenarios are always judged by the oracle']
STAGED = ['regenerated-code theorems (C15_gen_*): bridged are the legacy gate min_version (no abstraction left), the five '
          'gated legacy features (what is attempted on the wire and when), EBB3.parse_version / min_version, and '
          'EBB3.connect up to and including the minimum-version check (every refusal, and "True only if identified and '
          'supported"). NOT bridged: the tail of connect after the check (CU,10,1 + nickname query; owned by the C04/C05 '
          'bridges of EBB3.query), _get_port_name for given_name=None (find_first: C19; a hypothesis of the connect '
          'theorems, discharged for a given name by C15_gen_located), and the return values of the gated legacy features '
          '(the runtime int()/strip primitives differ from the C15 model outside plain decimal text)']

MIN_DOC = (3, 0, 2)                       # "the supported minimum" (DESIGN C15, MIN_VERSION_STRING comment)
GATE_DOC = {'query_nickname': (2, 5, 5),  # docstring "Requires firmware version 2.5.5 or newer"
            'write_nickname': (2, 5, 5),  # docstring
            'reboot': (2, 5, 5),          # docstring
            'queryVoltage': (2, 2, 3),    # comment in queryVoltage, EBB reference QC "added in v2.2.3"
            'servo_timeout': (2, 6, 0)}   # docstring "firmware 2.6.0", EBB reference SR

GRID = ['2.2.2', '2.2.3', '2.2.10', '2.3.0', '2.5.4', '2.5.5', '2.5.9', '2.5.10', '2.6.0', '2.6.1', '2.10.0', '2.9.9',
        '2.99.99', '3.0.0', '3.0.1', '3.0.2', '3.0.3', '3.0.10', '3.0.19', '3.1.0', '3.10.0', '3.2.1', '10.0.0',
        '1.9.9', '0.0.1', '12.34.56', '3.0.2.0', '3.0', '3', '3.0.1.9', '3.00.02', '03.0.2', 'v3.0.2', '2.6', '2.5.05']


def vt(s):
    """ground-truth reading of a grid spelling: tuple of ints (oracle side; no packaging)"""
    s = s.strip()
    if s[:1] in 'vV':
        s = s[1:]
    return tuple(int(x) for x in s.split('.'))


def num_ge(a, b):
    """numeric component-wise order, missing components = 0 (the property statement)"""
    n = max(len(a), len(b))
    return tuple(a) + (0,) * (n - len(a)) >= tuple(b) + (0,) * (n - len(b))


# ----------------------------------------------------------------------------------------------
# literals of the current source
# ----------------------------------------------------------------------------------------------
def _func(tree, name, cls=None):
    for node in ast.walk(tree):
        if cls and isinstance(node, ast.ClassDef) and node.name == cls:
            for sub in node.body:
                if isinstance(sub, ast.FunctionDef) and sub.name == name:
                    return sub
    if cls is None:
        for node in tree.body:
            if isinstance(node, ast.FunctionDef) and node.name == name:
                return node
    return None


def _gate(fn):
    for node in ast.walk(fn):
        if isinstance(node, ast.Call) and getattr(node.func, 'attr', getattr(node.func, 'id', None)) == 'min_version':
            for a in node.args:
                if isinstance(a, ast.Constant) and isinstance(a.value, str):
                    return a.value
    return None


def _retry(fn):
    for node in ast.walk(fn):
        if isinstance(node, ast.While):
            for c in ast.walk(node.test):
                if isinstance(c, ast.Compare) and isinstance(c.comparators[0], ast.Constant) \
                        and isinstance(c.comparators[0].value, int) and c.comparators[0].value > 0:
                    return c.comparators[0].value, node
    return None, None


def extract_params(notes):
    P = {'minVersion': '3.0.2', 'retry3': 25, 'retryL': 100, 'noOk': ["a", "i", "mr", "pi", "qm", "qg", "v"],
         'decodeRetry': False, 'gates': {'query_nickname': '2.5.5', 'write_nickname': '2.5.5', 'reboot': '2.5.5',
                                         'queryVoltage': '2.2.3', 'servo_timeout': '2.6.0'}}
    try:
        t3 = ast.parse(open(os.path.join(REPO, 'plotink', 'ebb3_serial.py')).read())
        ts = ast.parse(open(os.path.join(REPO, 'plotink', 'ebb_serial.py')).read())
        tm = ast.parse(open(os.path.join(REPO, 'plotink', 'ebb_motion.py')).read())
        for node in ast.walk(t3):
            if isinstance(node, ast.ClassDef) and node.name == 'EBB3':
                for sub in node.body:
                    if isinstance(sub, ast.Assign) and getattr(sub.targets[0], 'id', '') == 'MIN_VERSION_STRING':
                        P['minVersion'] = sub.value.value
        r, _ = _retry(_func(t3, 'query', 'EBB3'))
        if r:
            P['retry3'] = r
        q = _func(ts, 'query')
        r, loop = _retry(q)
        if r:
            P['retryL'] = r
            asg = [n for n in loop.body if isinstance(n, ast.Assign)]
            P['decodeRetry'] = bool(asg) and isinstance(asg[0].value, ast.Call) and \
                getattr(asg[0].value.func, 'attr', '') == 'decode'
        for node in ast.walk(q):
            if isinstance(node, ast.Compare) and isinstance(node.ops[0], ast.NotIn) and \
                    isinstance(node.comparators[0], (ast.List, ast.Tuple)):
                P['noOk'] = [e.value for e in node.comparators[0].elts]
        for name, tree in (('query_nickname', ts), ('write_nickname', ts), ('reboot', ts), ('queryVoltage', tm),
                           ('servo_timeout', tm)):
            g = _gate(_func(tree, name))
            if g is None:
                notes.append(f'no min_version gate found in {name}')
                P['gates'][name] = '0'
            else:
                P['gates'][name] = g
    except Exception as ex:  # structure changed: keep the defaults, the correspondence will speak
        notes.append(f'literal extraction failed: {ex!r}')
    return P


def ptoks(P):
    g = P['gates']
    return ' '.join([enc_str(P['minVersion']), str(P['retry3']), str(P['retryL']),
                     '|'.join(enc_str(x) for x in P['noOk']) or '.', '1' if P['decodeRetry'] else '0',
                     enc_str(g['query_nickname']), enc_str(g['write_nickname']), enc_str(g['reboot']),
                     enc_str(g['queryVoltage']), enc_str(g['servo_timeout'])])


# ----------------------------------------------------------------------------------------------
# scripted fake port
# ----------------------------------------------------------------------------------------------
RAISE = 'X'


class Script:
    """reads: list of bytes | b'' | RAISE;  writes: list of 'o' | 'x';  opens: list of bools;
    closes: list of 'o' | 'x' (close() raises SerialException: the device has vanished)"""

    def __init__(self, reads, writes=(), opens=(), closes=()):
        self.reads, self.writes, self.opens, self.closes = list(reads), list(writes), list(opens), list(closes)
        self.nr = self.nw = self.no = self.nc = 0
        self.written = []
        self.exc = None
        self.close_exc = None
        self.trace = []           # read outcomes delivered so far, in order
        self.chunks = None        # optional: one list of read outcomes per successfully opened port (session)
        self.cnr = []
        self.nports = 0

    def set_chunks(self, chunks):
        """each port object opened on this script reads from its own chunk only (silence after it), so that the
        ground truth of a session does not depend on how many reads an earlier session consumed"""
        self.chunks = [list(c) for c in chunks]
        self.cnr = [0] * len(chunks)
        self.reads = [x for c in chunks for x in c]

    def toks(self):
        r = '/'.join('X' if x == RAISE else ('E' if x == b'' else 'L' + enc_str(x.decode('ascii'))) for x in self.reads) or '.'
        w = ''.join(self.writes) or '.'
        o = ''.join('1' if b else '0' for b in self.opens) or '.'
        return o, r, w

    def consumed(self):
        nr = min(self.nr, len(self.reads)) if self.chunks is None else \
            sum(min(n, len(c)) for n, c in zip(self.cnr, self.chunks))
        return nr, min(self.nw, len(self.writes)), min(self.no, len(self.opens))


class FakePort:
    """scripted stand-in for a pyserial `Serial` object; carries the attributes pyserial ports have
    (`port`, `name`, `portstr`, `is_open`, `timeout`, `baudrate`) so that code keyed on them is exercised"""

    _n = 0

    def __init__(self, script, device=None):
        if device is None:          # single-call streams: every port object has its own device name
            FakePort._n += 1
            device = f'/dev/ttyS{FakePort._n}'
        self.s = script
        self.chunk = script.nports
        script.nports += 1
        self.port = device
        self.name = device
        self.portstr = device
        self.is_open = True
        self.timeout = 1.0
        self.baudrate = 9600

    def write(self, data):
        i = self.s.nw
        self.s.nw += 1
        if i < len(self.s.writes) and self.s.writes[i] == 'x':
            raise self.s.exc('scripted write failure')
        self.s.written.append(bytes(data))
        return len(data)

    def readline(self):
        if self.s.chunks is not None:
            if self.chunk >= len(self.s.chunks):
                self.s.trace.append(b'')
                return b''
            i = self.s.cnr[self.chunk]
            self.s.cnr[self.chunk] += 1
            src = self.s.chunks[self.chunk]
        else:
            i = self.s.nr
            self.s.nr += 1
            src = self.s.reads
        r = src[i] if i < len(src) else b''
        self.s.trace.append(r)
        if r == RAISE:
            raise self.s.exc('scripted read failure')
        return r

    def close(self):
        i = self.s.nc
        self.s.nc += 1
        self.is_open = False
        if i < len(self.s.closes) and self.s.closes[i] == 'x':
            raise (self.s.close_exc or self.s.exc)('device reports readiness to read but returned no data '
                                                  '(device disconnected?)')

    def reset_input_buffer(self):
        pass

    def flushInput(self):
        pass


def serial_factory(script):
    def make(name, timeout=None, **kw):
        i = script.no
        script.no += 1
        if i < len(script.opens) and not script.opens[i]:
            raise script.exc('scripted open failure')
        return FakePort(script, name)
    return make


def V(v):
    return f'EBBv13_and_above EB Firmware Version {v}\r\n'.encode('ascii')


def written_tok(w):
    return '/'.join(enc_str(x.decode('ascii')) for x in w) or '.'


def opt_tok(s):
    return 'N' if s is None else 'S' + enc_str(s)


# ----------------------------------------------------------------------------------------------
def run(ctx):
    from plotink import ebb3_serial, ebb_serial, ebb_motion
    import serial as pyserial
    rng = ctx.rng
    P = extract_params(ctx.notes)
    PT = ptoks(P)
    exc = pyserial.SerialException

    # ---- the literals against the Lean side and the documented values --------------------------------
    if ctx.driver:
        std = ctx.driver.batch(['c15 params'])[0].split(' ')
        mine = PT.split(' ')
        for idx, what in ((0, 'MIN_VERSION_STRING'), (5, 'gate query_nickname'), (6, 'gate write_nickname'),
                          (7, 'gate reboot'), (8, 'gate queryVoltage'), (9, 'gate servo_timeout')):
            if std[idx] != mine[idx]:
                ctx.disagree('literal ' + what + ' differs from Params.std (theorem C15_params)', what, mine[idx], std[idx])

    def doc_check(what, lit, doc):
        try:
            t = vt(lit)
        except ValueError:
            ctx.disagree(f'{what}: literal {lit!r} is not a release-only version', what, lit, '.'.join(map(str, doc)))
            return
        if num_ge(t, doc) and num_ge(doc, t):
            return
        # the grid below contains the neighbours of both values, so the streams report the concrete behaviour
        ctx.notes.append(f'{what}: source literal {lit} differs from the documented {doc}')
    doc_check('MIN_VERSION_STRING', P['minVersion'], MIN_DOC)
    for k, d in GATE_DOC.items():
        doc_check('gate ' + k, P['gates'][k], d)

    grid = list(GRID)
    for k in list(GATE_DOC.values()) + [MIN_DOC]:          # neighbours of every documented threshold
        a, b, c = k
        for t in ((a, b, c), (a, b, c + 1), (a, b, c - 1) if c else (a, b - 1, 99) if b else (a - 1, 99, 99),
                  (a, b, c + 10), (a, b + 1, 0), (a, b + 10, 0), (a + 1, 0, 0), (a, b, c * 10 + 1)):
            s = '.'.join(map(str, t))
            if min(t) >= 0 and s not in grid:
                grid.append(s)
    for lit in [P['minVersion']] + list(P['gates'].values()):   # neighbours of every literal in the source
        try:
            t = vt(lit)
        except ValueError:
            continue
        t = t + (0,) * (3 - len(t))
        for s in ('.'.join(map(str, t)), '.'.join(map(str, t[:2] + (t[2] + 1,))),
                  '.'.join(map(str, (t[:2] + (t[2] - 1,)) if t[2] else ((t[0], t[1] - 1, 99) if t[1] else (max(t[0] - 1, 0), 99, 99))))):
            if s not in grid:
                grid.append(s)

    saved = (pyserial.Serial, ebb3_serial.comports)
    import logging
    lg = logging.getLogger('plotink')
    lg_state = (lg.level, lg.propagate)
    lg.setLevel(logging.CRITICAL + 1)        # the legacy layer logs every scripted fault
    lg.propagate = False
    try:
        version_stream(ctx, P, PT, grid, ebb3_serial, ebb_serial, exc)
        connect_stream(ctx, P, PT, grid, ebb3_serial, pyserial, exc)
        legacy_stream(ctx, P, PT, grid, ebb_serial, ebb_motion, exc)
        legacy_sessions(ctx, P, PT, ebb_serial, ebb_motion, exc)
        connect_sessions(ctx, P, PT, ebb3_serial, pyserial, exc)
        connect_ioerror(ctx, P, PT, ebb3_serial, pyserial, exc)
        # ---- separate block: the SOURCE-REGENERATED legacy gates (translator/pyio2lean.py) ----
        gen_gate_stream(ctx, ebb_serial, ebb_motion, pyserial)
    finally:
        pyserial.Serial, ebb3_serial.comports = saved
        lg.setLevel(lg_state[0])
        lg.propagate = lg_state[1]
    need = ['order:ge:multidigit', 'order:lt:multidigit', 'parse:release', 'parse:None', 'connect:accept', 'connect:old',
            'connect:reject:notebb', 'connect:reject:raise', 'connect:reject:openfail', 'connect:reject:noport',
            'connect:outside'] + [f'gate:{f}:{k}' for f in GATE_DOC for k in ('sent', 'held')] + \
        [f'sessions:{f}:second:{k}' for f in GATE_DOC for k in ('sent', 'held')] + \
        ['sessions:connect:second:accept', 'sessions:connect:second:old', 'ioerror:open', 'ioerror:probe']
    missing = [p for p in need if not ctx.paths.get(p)]
    if missing and not ctx.violations and not ctx.disagreements:
        raise Infra('scenario classes that received no input: ' + ', '.join(missing))


# ----------------------------------------------------------------------------------------------
# 1. version order, both layers
# ----------------------------------------------------------------------------------------------
def rand_version(rng):
    pool = [0, 0, 1, 2, 3, 5, 9, 10, 11, 19, 20, 25, 99, 100, 101, 255, 999, 1000, 9999]
    n = rng.choice([3, 3, 3, 3, 2, 4, 1])
    t = [rng.choice(pool) for _ in range(n)]
    s = '.'.join(str(x) for x in t)
    k = rng.random()
    if k < 0.08:
        s = 'v' + s
    elif k < 0.16:
        s = '.'.join(('0' * rng.randint(1, 2)) + str(x) for x in t)
    return s


def version_stream(ctx, P, PT, grid, ebb3_serial, ebb_serial, exc):
    rng = ctx.rng
    pairs = []
    cpath = os.path.join(VERIF, 'corpus', 'C15', 'seeds.jsonl')      # corpus first
    if os.path.exists(cpath):
        for line in open(cpath):
            if line.strip():
                d = json.loads(line)
                if d.get('kind') == 'pair':
                    pairs.append((d['a'], d['b']))
    pairs += [(a, b) for a in grid for b in grid]
    for _ in range(ctx.n(20000)):
        a = rand_version(rng)
        if rng.random() < 0.6:      # neighbour: change one component, keep the digits similar
            t = list(vt(a))
            i = rng.randrange(len(t))
            t[i] = rng.choice([t[i] + 1, max(t[i] - 1, 0), t[i] * 10, t[i] // 10, t[i] + 9, int(str(t[i])[::-1] or 0)])
            b = '.'.join(map(str, t))
            if rng.random() < 0.3:
                b += '.0' if rng.random() < 0.5 else '.1'
        else:
            b = rand_version(rng)
        pairs.append((a, b))
    lines = [f'c15 ge {enc_str(a)} {enc_str(b)}' for a, b in pairs]
    outs = ctx.driver.batch(lines) if ctx.driver else [None] * len(lines)
    for (a, b), out in zip(pairs, outs):
        want = num_ge(vt(a), vt(b))
        inp = {'reported': a, 'threshold': b}
        # EBB3 layer
        e = ebb3_serial.EBB3()
        try:
            e.parse_version('EBBv13_and_above EB Firmware Version ' + a)
            r3 = e.min_version(b)
        except Exception as ex:
            r3 = 'EXC:' + type(ex).__name__
        # legacy layer
        sc = Script([V(a)])
        sc.exc = exc
        try:
            rl = ebb_serial.min_version(FakePort(sc), b)
        except Exception as ex:
            rl = 'EXC:' + type(ex).__name__
        nontriv = len(a) != len(b) or any(len(x) > 1 for x in a.split('.') + b.split('.'))
        ctx.count(('ge', a, b), 'order:' + ('ge' if want else 'lt') + (':multidigit' if nontriv else ''), nontriv)
        if r3 is not want:
            ctx.violate('EBB3.min_version does not order versions numerically', inp, str(r3), str(want),
                        key='order-ebb3')
        if rl is not want:
            ctx.violate('ebb_serial.min_version does not order versions numerically', inp, str(rl), str(want),
                        key='order-legacy')
        if r3 is not rl:
            ctx.violate('the two serial layers order versions differently', inp, f'ebb3={r3} legacy={rl}', 'identical',
                        key='order-layers-differ')
        if out is not None:
            if out == 'ERR':
                ctx.disagree('model cannot parse a release-only version', inp, str(r3), out)
            else:
                m, spec = out.split(' ')
                if m != spec:
                    ctx.disagree('Lean versionGe differs from Lean vle (theorem C15_order)', inp, m, spec)
                if (m == 'true') is not r3:
                    ctx.disagree('version comparison', inp, str(r3), m)
    ctx.sample({'order': '2.10.0 >= 2.9.9', 'ebb3': _cmp3(ebb3_serial, '2.10.0', '2.9.9'), 'model': outs[0] if outs else None})

    # parsing of version texts: model parseVersion vs the real extraction (packaging)
    texts = list(grid) + ['3.0.2 ', ' 3.0.2', '3.0.2\t', 'V3.0.2', '3..2', '.3.0', '3.0.', '', 'v', '3.0.2rc1', '3.0.2.dev1',
                          '3.0.2-1', '3.0.2+abc', '1!3.0.2', '3.0.2a', 'abc', '3,0,2', '3.0.2 x', '3 .0.2', '0', '00', '3.0.2b2',
                          '3.0.2.post1', '٣.0.2']
    alphabet = '0123456789..v \t'
    for _ in range(ctx.n(3000)):
        texts.append(''.join(rng.choice(alphabet) for _ in range(rng.randint(0, 7))))
    lines = [f'c15 pv {enc_str(t)}' for t in texts]
    outs = ctx.driver.batch(lines) if ctx.driver else [None] * len(lines)
    from packaging.version import InvalidVersion
    for t, out in zip(texts, outs):
        e = ebb3_serial.EBB3()
        try:
            e.parse_version('X Firmware Version ' + t)
            v = e.version_parsed
            if v is None:
                impl = 'None'
            elif (v.epoch, v.pre, v.post, v.dev, v.local) != (0, None, None, None, None):
                impl = 'rich'
            else:
                impl = '.'.join(map(str, v.release))
        except InvalidVersion:
            impl = 'None'
        except Exception as ex:
            impl = 'EXC:' + type(ex).__name__
        ctx.count(('pv', t), 'parse:' + ('release' if impl not in ('None', 'rich') and not impl.startswith('EXC') else impl[:4]), True)
        if out is None:
            continue
        if impl == 'rich' or not t.isascii():
            ctx.out_of_domain.append({'version text outside release-only ASCII': t, 'impl': impl, 'model': out})
            continue
        # note: parse_version strips the text first, as the model's caller does
        if out != impl:
            ctx.disagree('parseVersion', {'text': t}, impl, out)


def _cmp3(ebb3_serial, a, b):
    e = ebb3_serial.EBB3()
    e.parse_version('EBBv13_and_above EB Firmware Version ' + a)
    return e.min_version(b)


# ----------------------------------------------------------------------------------------------
# 2. EBB3.connect
# ----------------------------------------------------------------------------------------------
PORT = ('/dev/ttyACM0', 'EiBotBoard', 'USB VID:PID=04D8:FD92')


def probe_kinds(v):
    """(label, bytes-or-RAISE, ground truth) ; ground truth: ('ebb', tuple) | 'no' | 'raise' | 'outside'"""
    return [('good', V(v), ('ebb', vt(v))),
            ('good-mid', b'\x1f !EBBv13_and_above EB Firmware Version  ' + v.encode() + b' \t\r\n', ('ebb', vt(v))),
            ('empty', b'', 'no'),
            ('blank', b'\r\n', 'no'),
            ('nonebb', b'Marlin 1.0 Firmware Version ' + v.encode() + b'\r\n', 'no'),
            ('lower', b'ebbv13 eb firmware version ' + v.encode() + b'\r\n', 'no'),
            ('raise', RAISE, 'raise')]


OUTSIDE = [('ebb-noversion', b'EBB\r\n'), ('ebb-prerelease', b'EBBv13_and_above EB Firmware Version 3.0.2rc1\r\n'),
           ('ebb-junkversion', b'EBBv13_and_above EB Firmware Version three\r\n'),
           ('ebb-dev', b'EBBv13_and_above EB Firmware Version 3.1.0.dev2\r\n')]

CONT = [('conforming', [b'CU\r\n', b'QT,Bob\r\n']),
        ('legacy-ok', [b'OK\r\n', b'QT,\r\n']),
        ('qt-late', [b'CU\r\n', b'', b'', b'QT,East Wing \r\n']),
        ('qt-silent', [b'CU\r\n']),
        ('qt-raise', [b'CU\r\n', RAISE]),
        ('cu-raise', [RAISE]),
        ('cu-silent-qt-ok', [b'', b'QT,Bob\r\n']),
        ('qt-err', [b'CU\r\n', b'QT,Err: bad\r\n']),
        ('qt-wrong', [b'CU\r\n', b'OK\r\n']),
        ('qt-spaces', [b'CU\r\n', b'QT,   \r\n']),
        ('qt-nocomma', [b'CU\r\n', b'QTBob\r\n'])]


def truth(found, opens, writes, p1, p2):
    """what the device is, from the script alone: 'reject:<why>' | ('ebb', version tuple)"""
    if found is None:
        return 'reject:noport'
    if opens[:1] == [False]:
        return 'reject:openfail'
    w = lambda i: writes[i] if i < len(writes) else 'o'
    if w(0) == 'x':
        return 'reject:raise'
    if p1 == 'raise':
        return 'reject:raise'
    if isinstance(p1, tuple):
        return p1
    if p1 == 'outside':
        return 'outside'
    if w(1) == 'x':
        return 'reject:raise'
    if p2 == 'raise':
        return 'reject:raise'
    if isinstance(p2, tuple):
        return p2
    if p2 == 'outside':
        return 'outside'
    return 'reject:notebb'


def connect_stream(ctx, P, PT, grid, ebb3_serial, pyserial, exc):
    rng = ctx.rng
    scen = []   # (label, given, comports, caller, opens, reads, writes, ops, truth)
    conn_grid = [g for g in grid]
    # exhaustive: probe pair x version (all grid versions for pairs that contain a good reply; one otherwise)
    for v in conn_grid:
        kinds = probe_kinds(v)
        for (l1, b1, t1), (l2, b2, t2) in itertools.product(kinds, kinds):
            if not (l1.startswith('good') or l2.startswith('good')) and v != conn_grid[0]:
                continue
            for cl, cont in (CONT[:2] if v not in ('3.0.2', '3.0.1', '2.10.0', '3.10.0') else CONT):
                reads = [b1] + ([b2] if not (isinstance(t1, tuple)) and t1 != 'raise' else []) + list(cont)
                scen.append((f'{l1}/{l2}/{cl}', None, [PORT], None, [], reads, [], 'CRRCR', truth('p', [], [], t1, t2)))
    # open failure, no port, named port, caller, write faults
    for v in ('3.0.2', '2.5.5', '3.0.1'):
        scen.append(('openfail', None, [PORT], None, [False], [V(v), b'CU\r\n', b'QT,Bob\r\n'], [], 'CRRCR', 'reject:openfail'))
        scen.append(('openfail-twice', None, [PORT], None, [False, False], [V(v)], [], 'CRCR', 'reject:openfail'))
        scen.append(('noport', None, [], None, [], [V(v)], [], 'CRRCR', 'reject:noport'))
        scen.append(('noport-named', 'East', [PORT], None, [], [V(v)], [], 'CRR', 'reject:noport'))
        scen.append(('named', 'ttyACM0', [('/dev/ttyACM0', 'EiBotBoard,East', 'USB VID:PID=04D8:FD92 SER=East')], 'axicli',
                     [], [V(v), b'CU\r\n', b'QT,East\r\n'], [], 'CRR', ('ebb', vt(v))))
        for wi in range(4):
            for first in (V(v), b'', b'garbage\r\n'):
                writes = ['o'] * wi + ['x']
                reads = [first, V(v), b'CU\r\n', b'QT,Bob\r\n'] if first != V(v) else [first, b'CU\r\n', b'QT,Bob\r\n']
                t1 = ('ebb', vt(v)) if first == V(v) else 'no'
                scen.append((f'writefault{wi}', None, [PORT], None, [], reads, writes, 'CRRCR',
                             truth('p', [], writes, t1, ('ebb', vt(v)))))
    for lab, raw in OUTSIDE:
        scen.append((lab, None, [PORT], None, [], [raw, b'CU\r\n', b'QT,Bob\r\n'], [], 'CRR', 'outside'))
        scen.append((lab + '-second', None, [PORT], None, [], [b'', raw, b'CU\r\n', b'QT,Bob\r\n'], [], 'CRR', 'outside'))
    # late beyond the two probes, and long random reply streams
    for v in ('3.0.2', '3.10.0', '2.9.9'):
        scen.append(('late3', None, [PORT], None, [], [b'', b'', V(v), b'CU\r\n', b'QT,Bob\r\n'], [], 'CRRCR', 'reject:notebb'))
    for _ in range(ctx.n(6000)):
        v = rng.choice(conn_grid) if rng.random() < 0.7 else rand_version(rng)
        kinds = probe_kinds(v)
        (l1, b1, t1), (l2, b2, t2) = rng.choice(kinds), rng.choice(kinds)
        if rng.random() < 0.5:
            l1, b1, t1 = kinds[0]
        opens = rng.choice([[], [], [], [True], [False], [True, False], [False, True]])
        writes = rng.choice([[], [], [], ['x'], ['o', 'x'], ['o', 'o', 'x'], ['o', 'o', 'o', 'x'], ['o', 'o', 'o', 'o', 'x']])
        cont = list(rng.choice(CONT)[1])
        tail = [rng.choice([b'', b'OK\r\n', V(rng.choice(conn_grid)), RAISE, b'QT,Zed\r\n', b'CU\r\n']) for _ in range(rng.randint(0, 4))]
        reads = [b1] + ([b2] if not isinstance(t1, tuple) and t1 != 'raise' else []) + cont + tail
        scen.append((f'rand:{l1}/{l2}', None, [PORT], rng.choice([None, 'axicli']), opens, reads, writes,
                     rng.choice(['CRRCR', 'CRCRR', 'CCRR', 'CRR']), truth('p', opens, writes, t1, t2)))

    lines = []
    metas = []
    for sc in scen:
        label, given, ports, caller, opens, reads, writes, ops, tr = sc
        ebb3_serial.comports = lambda ports=ports: list(ports)
        probe = ebb3_serial.EBB3()
        probe._get_port_name(given)       # port location is C19's business: an input of this model
        found = probe.port_name
        s = Script(reads, writes, opens)
        o, r, w = s.toks()
        lines.append(f'c15 conn {PT} {opt_tok(given)} {opt_tok(found)} {opt_tok(caller)} {o} {r} {w} {ops}')
        metas.append(found)
    outs = ctx.driver.batch(lines) if ctx.driver else [None] * len(lines)

    for sc, found, out in zip(scen, metas, outs):
        label, given, ports, caller, opens, reads, writes, ops, tr = sc
        if found is None:
            tr = 'reject:noport'
        s = Script(reads, writes, opens)
        s.exc = exc
        ebb3_serial.comports = lambda ports=ports: list(ports)
        pyserial.Serial = serial_factory(s)
        e = ebb3_serial.EBB3()
        res = []
        nreq = 0
        first = None           # (ret, err, written) after the first connect
        must_refuse = isinstance(tr, str) and tr.startswith('reject') or \
            (isinstance(tr, tuple) and not num_ge(tr[1], MIN_DOC))
        unblocked_writes = []
        later_writes_before_reconnect = 0
        seen_second_connect = False
        for i, op in enumerate(ops):
            before = len(s.written)
            try:
                if op == 'C':
                    if first is not None:
                        seen_second_connect = True
                    r = e.connect(given, caller)
                    rs = 'True' if r is True else 'False' if r is False else repr(r)
                else:
                    was_blocked = (e.port is None) or (e.err is not None)
                    if not was_blocked:       # an ordinary request on a working connection: C04/C05, not modelled here
                        res.append(f'UNMODELLED:{len(s.written)}')
                        if must_refuse and not seen_second_connect:
                            # oracle only: the device had to be refused, so this request must not reach it
                            nr0, nw0 = s.nr, s.nw
                            try:
                                e.command('EM,1,1')
                            except Exception:
                                pass
                            unblocked_writes = s.written[before:]
                            del s.written[before:]
                            s.nr, s.nw = nr0, nw0
                        break
                    nreq += 1
                    if nreq % 2:
                        r = e.command('EM,1,1')
                        bad = r is not False
                    else:
                        r = e.query('QG')
                        bad = r is not None
                    rs = 'blocked'
                    if was_blocked and (bad or len(s.written) != before):
                        ctx.violate('a request on an object with a recorded error / no port transmitted or succeeded',
                                    _scn(sc, found), f'ret={r!r} wrote={s.written[before:]}', 'failure value, nothing written',
                                    key='blocked-request-transmits')
                    if first is not None and not seen_second_connect:
                        later_writes_before_reconnect += len(s.written) - before
            except Exception as ex:
                name = type(ex).__name__
                rs = 'EXC:' + ('versionSyntax' if name == 'InvalidVersion' else name)
            res.append(f'{rs}:{len(s.written)}')
            if op == 'C' and first is None:
                first = (rs, e.err, list(s.written))
        vp = e.version_parsed
        state = (f"port={1 if e.port is not None else 0} err={opt_tok(e.err)} version={opt_tok(e.version)} "
                 f"vparsed={'N' if vp is None else '.'.join(map(str, vp.release))} name={opt_tok(e.name)} "
                 f"caller={opt_tok(e.caller)} portName={opt_tok(e.port_name)}")
        nr, nw, no = s.consumed()
        impl = f"{';'.join(res)} | {state} | {written_tok(s.written)} r={nr} w={nw} o={no}"
        path = 'connect:' + (tr if isinstance(tr, str) else ('accept' if num_ge(tr[1], MIN_DOC) else 'old'))
        ctx.count(('conn',) + tuple(map(repr, sc[:8])), path, nontrivial=not (label.startswith('good/') and 'conforming' in label))
        if label in ('good/good/conforming', 'empty/good/conforming', 'openfail', 'nonebb/empty/conforming'):
            ctx.sample({'scenario': label, 'reads': [x if x == RAISE else x.decode() for x in reads], 'impl': impl})
        inp = _scn(sc, found)

        # ---------------- correspondence ----------------
        if out is not None:
            if 'versionSyntax' in out or tr == 'outside':
                if out != impl:
                    ctx.out_of_domain.append({'connect outside the quantifier': inp, 'impl': impl, 'model': out})
            elif out != impl:
                ctx.disagree('connect', inp, impl, out)

        # ---------------- oracle (statement + ground truth) ----------------
        if tr == 'outside':
            ctx.out_of_domain.append({'EBB reply without a release-only version text': inp, 'impl': impl})
            continue
        ret, err, wfirst = first
        if isinstance(tr, tuple) and num_ge(tr[1], MIN_DOC):
            continue      # a supported EBB: the statement allows True; what is sent afterwards is C04/C05/C16
        why = tr if isinstance(tr, str) else f'firmware {".".join(map(str, tr[1]))} older than 3.0.2'
        if ret != 'False':
            ctx.violate(f'connect did not return False for a device that must be refused ({why})', inp, ret, 'False',
                        key='connect-accepts-unsupported' if ret == 'True' else 'connect-raises-on-unsupported')
        if ret == 'True' and err is None:
            ctx.violate(f'connect returned True with no error for a device that must be refused ({why})', inp,
                        'True, err=None', 'False with an error', key='connect-true-no-error')
        if not err:
            ctx.violate(f'no error recorded after refusing a device ({why})', inp, repr(err), 'an error message',
                        key='connect-no-error-recorded')
        allowed = [] if tr in ('reject:noport', 'reject:openfail') else [b'v\r', b'v\r']
        if wfirst != allowed[:len(wfirst)] or len(wfirst) > len(allowed):
            ctx.violate(f'a refused device received more than the version probe(s) ({why})', inp,
                        repr(wfirst), 'a prefix of ' + repr(allowed), key='refused-device-written')
        if unblocked_writes:
            ctx.violate(f'after a refused connect the object is not blocked: a request reached the device ({why})', inp,
                        repr(unblocked_writes), 'nothing after the probes', key='refused-then-transmits')
        if later_writes_before_reconnect:
            ctx.violate(f'requests after a refused connect transmitted ({why})', inp, repr(s.written),
                        'nothing after the probes', key='refused-then-transmits')


def _scn(sc, found):
    label, given, ports, caller, opens, reads, writes, ops, tr = sc
    return {'scenario': label, 'given_name': given, 'located': found, 'opens': opens,
            'reads': [x if x == RAISE else x.decode('ascii') for x in reads], 'writes': ''.join(writes), 'ops': ops,
            'truth': tr if isinstance(tr, str) else ['ebb', list(tr[1])]}


# ----------------------------------------------------------------------------------------------
# 3. legacy gates
# ----------------------------------------------------------------------------------------------
def legacy_stream(ctx, P, PT, grid, ebb_serial, ebb_motion, exc):
    rng = ctx.rng
    feats = [('query_nickname', 'qnick 1', lambda p: ebb_serial.query_nickname(p, True), b'QT\r'),
             ('query_nickname', 'qnick 0', lambda p: ebb_serial.query_nickname(p, False), b'QT\r'),
             ('write_nickname', 'wnick ' + enc_str('East Wing'), lambda p: ebb_serial.write_nickname(p, 'East Wing'), b'ST,East Wing\r'),
             ('write_nickname', 'wnick -', lambda p: ebb_serial.write_nickname(p, ''), b'ST,\r'),
             ('reboot', 'reboot', lambda p: ebb_serial.reboot(p), b'RB\r'),
             ('queryVoltage', 'volt', lambda p: ebb_motion.queryVoltage(p, False), b'QC\r'),
             ('servo_timeout', 'servo 60000 N', lambda p: ebb_motion.servo_timeout(p, 60000, None, False), b'SR,60000\r'),
             ('servo_timeout', 'servo 0 1', lambda p: ebb_motion.servo_timeout(p, 0, 1, False), b'SR,0,1\r'),
             ('servo_timeout', 'servo -5 0', lambda p: ebb_motion.servo_timeout(p, -5, 0, False), b'SR,-5,0\r')]
    after = {'query_nickname': [[b'Bob\r\n', b'OK\r\n'], [b'\r\n', b'OK\r\n'], [], [b'', b'Late\r\n', b'', b'OK\r\n'], [RAISE],
                                [b'   \r\n']],
             'write_nickname': [[b'OK\r\n'], [], [b'!Err: x\r\n'], [RAISE]],
             'reboot': [[], [RAISE], [b'OK\r\n']],
             'queryVoltage': [[b'0394,0300\r\n', b'OK\r\n'], [b'0394,0249\r\n', b'OK\r\n'], [b'0394,0250\r\n'], [b'0394\r\n', b'OK\r\n'],
                              [b'0394,abc\r\n', b'OK\r\n'], [], [RAISE], [b'1, -7 \r\n', b'OK\r\n'], [b'1,+300\r\n']],
             'servo_timeout': [[b'OK\r\n'], [], [RAISE]]}
    timing = [('prompt', lambda v: [V(v)]), ('late1', lambda v: [b'', V(v)]), ('late3', lambda v: [b'', b'', b'', V(v)]),
              ('silent', lambda v: []), ('raise', lambda v: [RAISE, V(v)]), ('notversion', lambda v: [b'OK\r\n']),
              ('lower', lambda v: [b'ebb firmware version ' + v.encode() + b'\r\n']),
              ('late-raise', lambda v: [b'', RAISE, V(v)]), ('late2-raise', lambda v: [b'', b'', RAISE, V(v)])]
    cases = []
    for name, mtok, call, cmd in feats:
        for v in grid:
            for tl, tf in timing:
                if tl not in ('prompt', 'late1') and v not in ('2.5.5', '2.6.0', '2.2.3', '3.0.2'):
                    continue
                for aft in (after[name] if tl == 'prompt' else after[name][:1]):
                    for writes in ([], ['x'], ['o', 'x']) if (tl == 'prompt' and aft is after[name][0]) else ([],):
                        cases.append((name, mtok, call, cmd, v, tl, tf(v) + list(aft), writes))
    for _ in range(ctx.n(4000)):
        name, mtok, call, cmd = rng.choice(feats)
        v = rand_version(rng)
        tl, tf = rng.choice(timing[:2])
        cases.append((name, mtok, call, cmd, v, tl, tf(v) + list(rng.choice(after[name])), rng.choice([[], [], ['o', 'x']])))
    lines = []
    for name, mtok, call, cmd, v, tl, reads, writes in cases:
        s = Script(reads, writes)
        o, r, w = s.toks()
        lines.append(f'c15 leg {PT} {r} {w} {mtok}')
    outs = ctx.driver.batch(lines) if ctx.driver else [None] * len(lines)
    f5_seen = 0
    for (name, mtok, call, cmd, v, tl, reads, writes), out in zip(cases, outs):
        s = Script(reads, writes)
        s.exc = exc
        try:
            r = call(FakePort(s))
            rs = 'None' if r is None else 'True' if r is True else 'False' if r is False else 'S' + enc_str(r) if isinstance(r, str) else repr(r)
        except Exception as ex:
            rs = 'EXC:' + ('versionSyntax' if type(ex).__name__ == 'InvalidVersion' else type(ex).__name__)
        nr, nw, _ = s.consumed()
        impl = f'{rs} | {written_tok(s.written)} r={nr} w={nw}'
        inp = {'function': name, 'call': mtok, 'reported version': v, 'timing': tl,
               'reads': [x if x == RAISE else x.decode('ascii') for x in reads], 'writes': ''.join(writes)}
        sent = [x for x in s.written if x != b'V\r']
        reported = vt(v) if tl in ('prompt', 'late1', 'late3') else None
        path = f'gate:{name}:' + ('exc' if rs.startswith('EXC') else 'sent' if sent else 'held')
        ctx.count(('leg', name, mtok, v, tl, tuple(reads), tuple(writes)), path, nontrivial=tl != 'prompt' or len(v) > 5)
        if name == 'servo_timeout' and v in ('2.5.10', '2.6.0') and tl == 'prompt' and not writes:
            ctx.sample({'function': name, 'version': v, 'impl': impl})
        if out is not None and out != impl:
            if 'versionSyntax' in out:
                ctx.out_of_domain.append({'legacy outside': inp, 'impl': impl, 'model': out})
            else:
                ctx.disagree('legacy ' + name, inp, impl, out)
        if rs == 'EXC:TypeError' and tl.startswith('late'):
            f5_seen += 1
        # ---------------- oracle ----------------
        gate = GATE_DOC[name]
        if sent:
            if reported is None or not num_ge(reported, gate):
                ctx.violate(f'{name} transmitted its command although the board did not report at least '
                            f'{".".join(map(str, gate))}', inp, repr(s.written), 'only the version query',
                            key=f'gate-{name}-open')
            if any(x != cmd for x in sent) or len(sent) > 1:
                ctx.violate(f'{name} transmitted something other than its command', inp, repr(s.written),
                            repr([b'V\r', cmd]), key=f'gate-{name}-other-bytes')
    if f5_seen:
        ctx.notes.append(f'{f5_seen} legacy cases with a late version reply raised TypeError (DESIGN §9 F5, owned by C07): '
                         'nothing is transmitted in that case, so C15 is not violated; the model reproduces it through '
                         'the extracted flag decodeRetry=' + str(P['decodeRetry']))


# ----------------------------------------------------------------------------------------------
# 4. two sessions on the same serial device name, legacy layer  (state carried between calls / ports)
# ----------------------------------------------------------------------------------------------
class BoardPort:
    """a responsive board behind a pyserial-like port object (`port`, `name`, `portstr`, `is_open`):
    answers `V` with its own firmware version and every other request with a plausible reply"""

    def __init__(self, device, fw, exc):
        self.port = self.name = self.portstr = device
        self.is_open = True
        self.timeout = 1.0
        self.baudrate = 9600
        self.fw = fw
        self.exc = exc
        self.sent = []
        self.pending = []
        self.trace = []
        self.unplugged = False

    def write(self, data):
        self.sent.append(bytes(data))
        t = bytes(data).decode('ascii').strip().upper()
        if t == 'V':
            self.pending.append(V(self.fw))
        elif t.startswith('QT'):
            self.pending += [b'East Wing\r\n', b'OK\r\n']
        elif t.startswith('QC'):
            self.pending += [b'0394,0300\r\n', b'OK\r\n']
        else:
            self.pending.append(b'OK\r\n')
        return len(data)

    def readline(self):
        r = self.pending.pop(0) if self.pending else b''
        self.trace.append(r)
        return r

    def close(self):
        self.is_open = False
        if self.unplugged:
            raise self.exc('device reports readiness to read but returned no data (device disconnected?)')

    def reset_input_buffer(self):
        pass

    def flushInput(self):
        pass


def around(g):
    """version spellings at, just above, far above (multi-digit) and below (incl. multi-digit) a threshold"""
    a, b, c = g
    above = [(a, b, c), (a, b, c + 1), (a, b, c + 10), (a, b + 4, 1), (a, b + 10, 0)]
    below = [(a, b, c - 1)] if c else []
    if b:
        below += [(a, b - 1, 9), (a, b - 1, c + 10), (a, b - 1, 99)]
    below += [(a - 1, 99, 99)] if a else []
    if not c and not b:
        below += [(a - 1, 9, 9)]
    f = lambda t: '.'.join(map(str, t))
    return [f(t) for t in above], [f(t) for t in below if min(t) >= 0]


LEG_FEATS = [('servo_timeout', 'servo 60000 N', b'SR,60000\r'),
             ('queryVoltage', 'volt', b'QC\r'),
             ('query_nickname', 'qnick 0', b'QT\r'),
             ('write_nickname', 'wnick ' + enc_str('Plotter 7'), b'ST,Plotter 7\r'),
             ('reboot', 'reboot', b'RB\r')]


def _leg_call(name, ebb_serial, ebb_motion, p):
    if name == 'servo_timeout':
        return ebb_motion.servo_timeout(p, 60000, None, False)
    if name == 'queryVoltage':
        return ebb_motion.queryVoltage(p, False)
    if name == 'query_nickname':
        return ebb_serial.query_nickname(p, False)
    if name == 'write_nickname':
        return ebb_serial.write_nickname(p, 'Plotter 7')
    return ebb_serial.reboot(p)


def legacy_sessions(ctx, P, PT, ebb_serial, ebb_motion, exc):
    rng = ctx.rng
    endings = ['closePort()', 'unplugged, then closePort()', 'port.close() called directly', 'port object abandoned']
    seqs = []
    n = 0
    for fi, (name, mtok, cmd) in enumerate(LEG_FEATS):
        above, below = around(GATE_DOC[name])
        vs = above + below + ['2.8.1', '2.5.9', '2.10.0', '2.5.10']
        pairs = [(a, b) for a in above + ['2.8.1', '2.10.0'] for b in below] + \
                [(b, a) for a in above[:2] for b in below[:2]] + [(a, a) for a in (above[0], below[0])]
        for (a, b) in pairs:
            for end in endings:
                n += 1
                dev = f'/dev/ttyACM{n}' if n % 2 else f'COM{3 + n}'      # one device name per sequence: self-contained histories
                first_calls = [name] if n % 3 else [name, LEG_FEATS[(fi + 1) % 5][0], name]
                seqs.append((dev, a, first_calls, end, b))
    for _ in range(ctx.n(300)):
        name = rng.choice(LEG_FEATS)[0]
        above, below = around(GATE_DOC[name])
        a, b = rng.choice(above + below + [rand_version(rng)]), rng.choice(above + below + [rand_version(rng)])
        n += 1
        seqs.append((rng.choice(['/dev/ttyACM', '/dev/ttyUSB', 'COM', '/dev/cu.usbmodem']) + str(1000 + n), a,
                     [rng.choice(LEG_FEATS)[0] for _ in range(rng.randint(1, 3))], rng.choice(endings), b))
    byname = {f[0]: f for f in LEG_FEATS}
    records = []      # (inp, name, cmd, fw, session, rs, delta, trace)
    for dev, a, first_calls, end, b in seqs:
        order2 = [f[0] for f in LEG_FEATS]
        rng.shuffle(order2)
        history = []
        for session, (fw, calls) in enumerate(((a, first_calls), (b, order2)), start=1):
            port = BoardPort(dev, fw, exc)
            for name in calls:
                _, mtok, cmd = byname[name]
                before = len(port.sent)
                port.trace = []
                try:
                    r = _leg_call(name, ebb_serial, ebb_motion, port)
                    rs = 'None' if r is None else 'True' if r is True else 'False' if r is False else \
                        'S' + enc_str(r) if isinstance(r, str) else repr(r)
                except Exception as ex:
                    rs = 'EXC:' + type(ex).__name__
                delta = port.sent[before:]
                history.append({'session': session, 'device': dev, 'board firmware': fw, 'call': name,
                                'transmitted': [x.decode('ascii') for x in delta]})
                inp = {'device name': dev, 'first session': {'firmware': a, 'calls': first_calls, 'ended by': end},
                       'second session firmware': b, 'history up to the failing call': list(history)}
                records.append((inp, name, mtok, cmd, fw, session, rs, delta, list(port.trace)))
            if session == 1:
                if end == endings[0]:
                    ebb_serial.closePort(port)
                elif end == endings[1]:
                    port.unplugged = True
                    ebb_serial.closePort(port)
                elif end == endings[2]:
                    port.close()
            else:
                ebb_serial.closePort(port)
    lines = []
    for inp, name, mtok, cmd, fw, session, rs, delta, trace in records:
        r = '/'.join('E' if x == b'' else 'L' + enc_str(x.decode('ascii')) for x in trace) or '.'
        lines.append(f'c15 leg {PT} {r} . {mtok}')
    outs = ctx.driver.batch(lines) if ctx.driver else [None] * len(lines)
    for (inp, name, mtok, cmd, fw, session, rs, delta, trace), out in zip(records, outs):
        sent = [x for x in delta if x != b'V\r']
        path = f'sessions:{name}:' + ('first' if session == 1 else 'second') + ':' + ('sent' if sent else 'held')
        ctx.count(('sess', json.dumps(inp, sort_keys=True)), path, True)
        impl = f'{rs} | {written_tok(delta)} r={len(trace)} w=0'
        if out is not None and out != impl:
            ctx.disagree(f'legacy {name} in a two-session sequence (the model is stateless across calls: every call '
                         f'asks the board)', inp, impl, out)
        gate = GATE_DOC[name]
        if sent and not num_ge(vt(fw), gate):
            ctx.violate(f'{name} transmitted its command to a board reporting {fw} (needs {".".join(map(str, gate))})'
                        + (' in a second session on the same device name' if session == 2 else ''), inp,
                        repr(delta), 'the command is not transmitted', key=f'gate-{name}-open')
        if any(x != cmd for x in sent) or len(sent) > 1:
            ctx.violate(f'{name} transmitted something other than its command', inp, repr(delta),
                        repr([b'V\r', cmd]), key=f'gate-{name}-other-bytes')
    ctx.sample({'two-session sequence': records[0][0] if records else None})


# ----------------------------------------------------------------------------------------------
# 5. EBB3: sequences of connections (same object re-used, or a new object) on the same device name
# ----------------------------------------------------------------------------------------------
def _must_refuse(tr):
    return (isinstance(tr, str) and tr.startswith('reject')) or (isinstance(tr, tuple) and not num_ge(tr[1], MIN_DOC))


def run_conn_ops(ebb3_serial, pyserial, s, ops, given, caller, truths):
    """run ops on the real code. ops: C connect, R request, D disconnect, X disconnect with close() raising,
    N new EBB3 object, P port.close() called directly (python side only).
    returns (result strings aligned with the model's ops, per-connect records, final object)"""
    pyserial.Serial = serial_factory(s)
    erased = []

    class Observed(ebb3_serial.EBB3):       # sees every assignment to `err`, also ones undone before the next I/O
        def __setattr__(self, name, value):
            if name == 'err' and value is None and getattr(self, 'err', None) is not None:
                erased.append(getattr(self, 'err'))
            object.__setattr__(self, name, value)

    e = Observed()
    res, recs = [], []
    cur = None
    nreq = 0
    ci = 0
    for op in ops:
        before = len(s.written)
        n_erased = len(erased)
        if op == 'C':
            shortcut = e.port is not None      # "already connected": no handshake, the device is the one of `cur`
            if shortcut:
                tr = cur['truth'] if cur is not None else None
            else:
                tr = truths[ci] if ci < len(truths) else None
                ci += 1
            err_before = e.err
            try:
                r = e.connect(given, caller)
                rs = 'True' if r is True else 'False' if r is False else repr(r)
            except Exception as ex:
                name = type(ex).__name__
                rs = 'EXC:' + ('versionSyntax' if name == 'InvalidVersion' else name)
            prev_refused = cur is not None and shortcut and _must_refuse(tr) and bool(err_before)
            cur = {'truth': tr, 'shortcut': shortcut, 'ret': rs, 'err': e.err, 'err_before': err_before,
                   'erased': list(erased[n_erased:]) if prev_refused else [],
                   'written': s.written[before:],
                   'later_blocked_writes': [], 'unblocked_writes': [], 'bad_blocked_return': None}
            recs.append(cur)
            res.append(f'{rs}:{len(s.written)}')
        elif op == 'R':
            blocked_now = (e.port is None) or (e.err is not None)
            if not blocked_now:
                res.append(f'UNMODELLED:{len(s.written)}')
                if cur is not None and _must_refuse(cur['truth']):
                    nr0, nw0 = s.nr, s.nw
                    try:
                        e.command('EM,1,1')
                    except Exception:
                        pass
                    cur['unblocked_writes'] = s.written[before:]
                    del s.written[before:]
                    s.nr, s.nw = nr0, nw0
                break
            nreq += 1
            try:
                r = e.command('EM,1,1') if nreq % 2 else e.query('QG')
                bad = (r is not False) if nreq % 2 else (r is not None)
            except Exception as ex:
                r, bad = ex, True
            if cur is not None:
                cur['later_blocked_writes'] += s.written[before:]
                cur['erased'] = cur.get('erased', []) + erased[n_erased:]
                if bad:
                    cur['bad_blocked_return'] = repr(r)
            res.append(f'blocked:{len(s.written)}')
        elif op in 'DX':
            if op == 'X':
                s.closes = ['o'] * s.nc + ['x']
            e.disconnect()
            cur = None
            res.append(f'disc:{len(s.written)}')
        elif op == 'N':
            e = Observed()
            cur = None
            res.append(f'new:{len(s.written)}')
        elif op == 'P':
            if e.port is not None:
                try:
                    e.port.close()
                except Exception:
                    pass
    return res, recs, e


def conn_state(e, s, res):
    vp = e.version_parsed
    state = (f"port={1 if e.port is not None else 0} err={opt_tok(e.err)} version={opt_tok(e.version)} "
             f"vparsed={'N' if vp is None else '.'.join(map(str, vp.release))} name={opt_tok(e.name)} "
             f"caller={opt_tok(e.caller)} portName={opt_tok(e.port_name)}")
    nr, nw, no = s.consumed()
    return f"{';'.join(res)} | {state} | {written_tok(s.written)} r={nr} w={nw} o={no}"


def judge_connects(ctx, recs, inp, key=None):
    """every connect of the sequence against the statement"""
    for k, rec in enumerate(recs):
        tr = rec['truth']
        if tr is None or tr == 'outside' or not _must_refuse(tr):
            continue
        nth = f'connect #{k + 1} of the sequence'
        why = tr if isinstance(tr, str) else f'firmware {".".join(map(str, tr[1]))} older than 3.0.2'
        if rec['shortcut']:
            # connect() called again on an object that kept its port after a refusal: it may answer "already
            # connected" (True) as long as the error stays recorded; judged: never "True with no error", no traffic
            nth += ' (retry on the same object, port kept)'
            if rec['ret'] == 'True' and rec['err'] is None:
                ctx.violate(f'{nth} returned True with no error for a device that was refused ({why})', inp,
                            'True, err=None', 'an error stays recorded', key=key or 'connect-true-no-error')
            if rec['written']:
                ctx.violate(f'{nth}: a refused device received more traffic ({why})', inp, repr(rec['written']),
                            'nothing', key=key or 'refused-device-written')
        elif rec['ret'] != 'False':
            ctx.violate(f'{nth} did not return False for a device that must be refused ({why})', inp, rec['ret'], 'False',
                        key=key or ('connect-accepts-unsupported' if rec['ret'] == 'True' else 'connect-raises-on-unsupported'))
        if not rec['shortcut'] and rec['ret'] == 'True' and rec['err'] is None:
            ctx.violate(f'{nth} returned True with no error for a device that must be refused ({why})', inp,
                        'True, err=None', 'False with an error', key=key or 'connect-true-no-error')
        if not rec['err']:
            ctx.violate(f'{nth}: no error recorded after refusing a device ({why})', inp, repr(rec['err']),
                        'an error message', key=key or 'connect-no-error-recorded')
        allowed = [] if tr in ('reject:noport', 'reject:openfail') else [b'v\r', b'v\r']
        w = rec['written']
        if not rec['shortcut'] and (w != allowed[:len(w)] or len(w) > len(allowed)):
            ctx.violate(f'{nth}: a refused device received more than the version probe(s) ({why})', inp, repr(w),
                        'a prefix of ' + repr(allowed), key=key or 'refused-device-written')
        if rec.get('erased'):
            ctx.violate(f'the error recorded for a refused device ({why}) was erased by a later call on the object', inp,
                        'err reset to None; was ' + repr(rec['erased'][0])[:80], 'the error stays recorded',
                        key=key or 'refusal-error-erased')
        if rec['unblocked_writes']:
            ctx.violate(f'after {nth} (refused, {why}) the object is not blocked: a request reached the device', inp,
                        repr(rec['unblocked_writes']), 'nothing after the probes', key=key or 'refused-then-transmits')
        if rec['later_blocked_writes'] or rec['bad_blocked_return']:
            ctx.violate(f'requests after {nth} (refused, {why}) transmitted or succeeded', inp,
                        repr(rec['later_blocked_writes']) + ' ret=' + str(rec['bad_blocked_return']),
                        'nothing after the probes, failure values', key=key or 'refused-then-transmits')


def connect_sessions(ctx, P, PT, ebb3_serial, pyserial, exc):
    rng = ctx.rng
    acc = ['3.0.2', '3.0.10', '3.10.0', '10.0.0']
    old = ['3.0.1', '2.10.0']
    second = ['3.0.1', '3.0.0', '2.10.0', '2.9.9', '2.6.0', '3.0.2', '3.0.10', '3.1.0']
    s1 = [('accepted ' + a, [V(a), b'CU\r\n', b'QT,One\r\n'], ('ebb', vt(a))) for a in acc] + \
         [('refused ' + a, [V(a)], ('ebb', vt(a))) for a in old] + \
         [('mute', [b'', b'hello\r\n'], 'reject:notebb')]
    endings = ['D', 'X', 'DN', 'XN', 'N', 'PN', '', 'R', 'RR']     # '' / 'R': connect() retried on the same object
    scen = []
    for (l1, r1, t1) in s1:
        for end in endings:
            for b in second:
                for l2, pre in (('prompt', []), ('late', [b'']), ('after-noise', [b'xyz\r\n'])):
                    chunks = [r1, pre + [V(b), b'CU\r\n', b'QT,Two\r\n']]
                    scen.append((f'{l1} / {end} / {l2} {b}', chunks, 'C' + end + 'CRR', [t1, ('ebb', vt(b))]))
            scen.append((f'{l1} / {end} / mute', [r1, [b'', b'']], 'C' + end + 'CRR', [t1, 'reject:notebb']))
    for _ in range(ctx.n(300)):       # three connections
        picks = [rng.choice(s1) for _ in range(2)]
        b = rng.choice(second)
        ops = 'C' + rng.choice(endings) + 'C' + rng.choice(endings) + 'CRR'
        scen.append(('three: ' + ' / '.join(p[0] for p in picks) + f' / {b}', [picks[0][1], picks[1][1], [V(b), b'CU\r\n', b'QT,Two\r\n']],
                     ops, [picks[0][2], picks[1][2], ('ebb', vt(b))]))
    ebb3_serial.comports = lambda: [PORT]
    runs, lines = [], []
    for label, chunks, ops, truths in scen:
        s = Script([])
        s.set_chunks(chunks)
        s.exc = exc
        res, recs, e = run_conn_ops(ebb3_serial, pyserial, s, ops, None, None, truths)
        # the model reads one flat script: the outcomes this run delivered, in order, then what the last port
        # would still have delivered
        k = min(s.nports, len(chunks)) - 1
        flat = list(s.trace) + (chunks[k][s.cnr[k]:] if k >= 0 else [])
        o, r, w = Script(flat).toks()
        mops = ops.replace('P', '').replace('X', 'D')
        lines.append(f'c15 conn {PT} N {opt_tok(PORT[0])} N {o} {r} {w} {mops}')
        st = conn_state(e, s, res)
        runs.append((recs, st[:st.rindex(' r=')] + f' r={len(s.trace)} w=0 o=0'))
    outs = ctx.driver.batch(lines) if ctx.driver else [None] * len(lines)
    for (label, chunks, ops, truths), (recs, impl), out in zip(scen, runs, outs):
        inp = {'scenario': label, 'device name': PORT[0],
               'reads per opened port': [[x.decode('ascii') for x in c] for c in chunks], 'ops': ops,
               'ops legend': 'C connect, D disconnect, X disconnect while close() raises, N new EBB3 object, '
                             'P port.close() called directly, R request',
               'truth per connect': [t if isinstance(t, str) else ['ebb', list(t[1])] for t in truths]}
        last = truths[-1]
        ctx.count(('csess', label, ops), 'sessions:connect:second:' + (
            'reject' if isinstance(last, str) else 'accept' if num_ge(last[1], MIN_DOC) else 'old'), True)
        if out is not None and out != impl:
            ctx.disagree('connect sequence', inp, impl, out)
        judge_connects(ctx, recs, inp)
    ctx.sample({'connect sequence': scen[1][0], 'ops': scen[1][2]})


# ----------------------------------------------------------------------------------------------
# 6. I/O faults that the port signals with a plain OSError (pyserial's posix open() lets the OSError of the
#    DTR/RTS ioctl escape unwrapped; command()/query() list OSError/IOError among the serial I/O exceptions)
# ----------------------------------------------------------------------------------------------
def handshake_contains_oserror(notes):
    try:
        t3 = ast.parse(open(os.path.join(REPO, 'plotink', 'ebb3_serial.py')).read())
        fn = _func(t3, 'connect', 'EBB3')
        for node in ast.walk(fn):
            if isinstance(node, ast.Try) and any(isinstance(c, ast.Attribute) and c.attr == 'Serial' for b in node.body for c in ast.walk(b)):
                names = set()
                for h in node.handlers:
                    if h.type is None:
                        return True
                    for c in ast.walk(h.type):
                        if isinstance(c, ast.Name):
                            names.add(c.id)
                        elif isinstance(c, ast.Attribute):
                            names.add(c.attr)
                return bool(names & {'OSError', 'IOError', 'EnvironmentError', 'Exception', 'BaseException'})
    except Exception as ex:
        notes.append(f'could not read the except clause of connect: {ex!r}')
    return False


def connect_ioerror(ctx, P, PT, ebb3_serial, pyserial, exc):
    import errno
    oserr = lambda msg: OSError(errno.EIO, 'Input/output error')
    contained = handshake_contains_oserror(ctx.notes)
    scen = []
    for v in ('3.0.2', '3.0.1', '2.10.0'):
        good = [V(v), b'CU\r\n', b'QT,Bob\r\n']
        scen.append((f'open raises OSError(EIO), board {v}', [False], good, [], 'CRRCR', 'reject:openfail', 'open'))
        scen.append((f'first probe write raises OSError, board {v}', [], good, ['x'], 'CRRCR', 'reject:raise', 'probe'))
        scen.append((f'first probe read raises OSError, board {v}', [], [RAISE] + good, [], 'CRRCR', 'reject:raise', 'probe'))
        scen.append((f'second probe write raises OSError, board {v}', [], [b''] + good, ['o', 'x'], 'CRRCR', 'reject:raise', 'probe'))
        scen.append((f'second probe read raises OSError, board {v}', [], [b'junk\r\n', RAISE] + good, [], 'CRRCR', 'reject:raise', 'probe'))
    ebb3_serial.comports = lambda: [PORT]
    lines = []
    for label, opens, reads, writes, ops, tr, where in scen:
        o, r, w = Script(reads, writes, opens).toks()
        lines.append(f'c15 conn {PT} N {opt_tok(PORT[0])} N {o} {r} {w} {ops}')
    outs = ctx.driver.batch(lines) if ctx.driver else [None] * len(lines)
    for (label, opens, reads, writes, ops, tr, where), out in zip(scen, outs):
        s = Script(reads, writes, opens)
        s.exc = oserr
        s.close_exc = exc
        res, recs, e = run_conn_ops(ebb3_serial, pyserial, s, ops, None, None, [tr, None])
        impl = conn_state(e, s, res)
        inp = {'scenario': label, 'device name': PORT[0], 'opens': opens,
               'reads': [x if x == RAISE else x.decode('ascii') for x in reads], 'writes': ''.join(writes), 'ops': ops,
               'exception class raised by the port': 'OSError(errno.EIO)', 'truth': tr}
        ctx.count(('ioerr', label), 'ioerror:' + where, True)
        escaped = recs and recs[0]['ret'] == 'EXC:OSError'
        if escaped:
            after = (f"; connect() again -> {recs[1]['ret']} with err={recs[1]['err']!r}" if len(recs) > 1 else '') + \
                    (f"; a later command was transmitted: {recs[0]['unblocked_writes']!r}" if recs[0]['unblocked_writes'] else '')
            ctx.violate('an I/O failure that the port signals with a plain OSError (at open or at a handshake read/write) '
                        'escapes connect(): no False, no error recorded' + (', the object is left connected and unblocked'
                                                                          if where == 'probe' else ''),
                        inp, 'connect() raised OSError, err=' + repr(recs[0]['err']) + after,
                        'False with an error recorded; nothing beyond the version probe(s)', key='connect-io-error-escapes')
            continue
        if contained and out is not None and out != impl:
            ctx.disagree('connect with OSError faults', inp, impl, out)
        judge_connects(ctx, recs, inp)
    if not contained:
        ctx.notes.append('connect()\'s try block does not list OSError/IOError: the OSError-fault scenarios are judged by the '
                         'oracle only (the model describes the exception classes the handshake contains)')


# ----------------------------------------------------------------------------------------------
# validation of the regenerated legacy gates (Gen.ebb_serial_min_version, queryVersion, query_nickname, write_nickname,
# reboot, bootload, closePort and the two gated helpers of ebb_motion): scripted ports, release-only versions
# ----------------------------------------------------------------------------------------------
def gen_gate_stream(ctx, ebb_serial, ebb_motion, pyserial):
    from . import legacygen as G
    if ctx.driver is None:
        return
    rng = ctx.rng
    feats = [('ebb_serial_min_version', lambda p: ebb_serial.min_version(p, '2.5.5'), ('2.5.5',)),
             ('ebb_serial_min_version', lambda p: ebb_serial.min_version(p, '2.10'), ('2.10',)),
             ('ebb_serial_min_version', lambda p: ebb_serial.min_version(p, 'abc'), ('abc',)),
             ('ebb_serial_queryVersion', lambda p: ebb_serial.queryVersion(p), ()),
             ('ebb_serial_query_nickname', lambda p: ebb_serial.query_nickname(p, True), (True,)),
             ('ebb_serial_query_nickname', lambda p: ebb_serial.query_nickname(p, False), (False,)),
             ('ebb_serial_write_nickname', lambda p: ebb_serial.write_nickname(p, 'East Wing'), ('East Wing',)),
             ('ebb_serial_write_nickname', lambda p: ebb_serial.write_nickname(p, ''), ('',)),
             ('ebb_serial_reboot', lambda p: ebb_serial.reboot(p), ()),
             ('ebb_serial_bootload', lambda p: ebb_serial.bootload(p), ()),
             ('ebb_serial_closePort', lambda p: ebb_serial.closePort(p), ()),
             ('ebb_motion_queryVoltage', lambda p: ebb_motion.queryVoltage(p, False), (False,)),
             ('ebb_motion_servo_timeout', lambda p: ebb_motion.servo_timeout(p, 60000, None, False), (60000, None, False)),
             ('ebb_motion_servo_timeout', lambda p: ebb_motion.servo_timeout(p, -5, 0, True), (-5, 0, True))]
    versions = ['2.5.4', '2.5.5', '2.5.6', '2.6.0', '2.5.10', '2.2.2', '2.2.3', '3.0.2', '2.10.0', '2.5.5.0', '2.6', '10.0.1']
    timing = [lambda v: [V(v)], lambda v: [b'', V(v)], lambda v: [b'', b'', b'', V(v)], lambda v: [], lambda v: [RAISE, V(v)],
              lambda v: [b'OK\r\n'], lambda v: [b'ebb firmware version ' + v.encode() + b'\r\n'], lambda v: [b'', RAISE, V(v)],
              lambda v: [b'EBB Firmware Version \r\n'], lambda v: [b'Firmware Version ' + v.encode() + b' \r\n', b'OK\r\n']]
    afters = [[b'Bob\r\n', b'OK\r\n'], [b'\r\n', b'OK\r\n'], [], [b'', b'Late\r\n', b'', b'OK\r\n'], [RAISE], [b'   \r\n'],
              [b'OK\r\n'], [b'!Err: x\r\n'], [b'0394,0300\r\n', b'OK\r\n'], [b'0394,0249\r\n', b'OK\r\n'], [b'0394\r\n', b'OK\r\n'],
              [b'0394,abc\r\n', b'OK\r\n'], [b'1, -7 \r\n', b'OK\r\n']]
    excs = [pyserial.SerialException, OSError]
    cases = []
    for gname, call, args in feats:
        for v in versions:
            for ti, tf in enumerate(timing):
                if ti >= 2 and v not in ('2.5.5', '2.6.0', '2.2.3'):
                    continue
                for aft in (afters if ti == 0 and v in ('2.5.5', '2.6.0', '2.2.3', '3.0.2') else afters[:1]):
                    for writes in ([], ['x'], ['o', 'x']) if (ti == 0 and aft is afters[0]) else ([],):
                        cases.append((gname, call, args, tf(v) + list(aft), writes, excs[len(cases) % 2], True))
        cases.append((gname, call, args, [], [], excs[0], False))          # no port
    for _ in range(ctx.n(300)):
        gname, call, args = rng.choice(feats)
        v = rng.choice(versions)
        cases.append((gname, call, args, rng.choice(timing[:3])(v) + list(rng.choice(afters)), rng.choice([[], [], ['o', 'x'], ['x']]),
                      rng.choice(excs), True))
    lines, mine, inps = [], [], []
    for gname, call, args, reads, writes, exc, with_port in cases:
        sc = Script(reads, writes)
        sc.exc = exc
        port = FakePort(sc) if with_port else None
        res, _ = G.result_of(lambda: call(port))
        key = G.EXC_KEY.get(exc.__name__, 'serial')
        # FakePort.write raises BEFORE recording the text; the regenerated port logs every write attempt, as the C07
        # fake does: compare the successful writes, in order, plus the number of attempts
        mine.append((res, [bytes(w) for w in sc.written], sc.nw, len(sc.trace)))
        lines.append(G.line(G.reads_tok(reads, key), G.writes_tok(writes, key), '.', [G.call_tok(gname, (port,) + tuple(args))]))
        inps.append({'function': gname, 'args': [repr(a) for a in args], 'reads': [x if x == RAISE else x.decode('latin-1') for x in reads],
                     'writes': ''.join(writes), 'exception': exc.__name__, 'port': with_port})
    answers = ctx.driver.batch(lines)
    for (res, written, nw, nr), ans, inp, (_, _, _, _, writes, _, _) in zip(mine, answers, inps, cases):
        parts = ans.split(' ')
        ok = len(parts) == 3
        if ok:
            gw = [] if parts[1] == '.' else parts[1].split(';')
            okw = [t for i, t in enumerate(gw) if not (i < len(writes) and writes[i] == 'x')]
            ok = (parts[0] == res and okw == [enc_str(w.decode('latin-1')) for w in written] and len(gw) == nw
                  and parts[2] == str(nr))
        key = 'gen:same' if ok else 'gen:differs'
        ctx.paths[key] = ctx.paths.get(key, 0) + 1
        if not ok:
            ctx.disagree('C15 legacy gate: regenerated function (translator/pyio2lean.py) vs implementation', inp,
                         f'{res} written={written} attempts={nw} reads={nr}', ans)
    ctx.notes.append(f'regenerated legacy gates (Gen.ebb_serial_*/ebb_motion_*): {len(cases)} calls compared with the implementation')
