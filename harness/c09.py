"""C09 — vertex reduction (supersample / points_in_tolerance / max_dist_from_n_points).

Correspondence: the real functions on lists of distinct tuple objects with `Fraction` coordinates (the code is
duck-typed: only + - * / and comparisons, so it runs exactly) vs the Lean model (surviving index lists, predicate
values, squared reference maximum).  Oracle: written from the property statement (identity subsequence, first/last
kept, every deleted vertex at exact distance < tol from the segment joining its surviving neighbours, no-op cases,
predicate == reference), independent of the model.  Float stream: the same oracle with a measured relative margin.
"""
import json, math
from decimal import Decimal
from fractions import Fraction as F
from .common import frac_str

RULE = ('exhaustive: all vertex lists of length 0..4 over the 3x2 integer grid x tolerances {1/2, 1, 3/2, 3} (1 and 3/2 hit '
        'exact equalities in all three regions); random Fraction lists of length 0..12 built from features (repeated points, '
        'collinear runs, zero-length closing segment, reversals, vertices projecting beyond either segment end) with '
        'tolerances incl. 0, negatives and exact boundary values; float stream (random doubles, near-collinear runs) and '
        'large-magnitude float stream (chord/tolerance up to 1e12, translations up to 1e12*tol, sharp reversals overshooting '
        'either chord end by about the tolerance; chords of dyadic length 1e6..1e9*tol with interior vertices projecting '
        'INSIDE the chord at offsets 0.25..4*tol), judged against exact Fractions of the float inputs. '
        'lattice stream: Python ints and dyadic doubles (and mixtures) on chords of INTEGER length - Pythagorean directions '
        '3-4-5 ... 9-40-41 and multiples, every sign / swap, and axis-aligned chords - with an interior vertex drawn from ALL '
        'integer points at an exactly integer distance j from the chord (perpendicular region: j*(x1,y1)+t*(a,b) with '
        'x1*b-y1*a=c; before the start / past the end at an integer distance from the end point; projecting exactly onto an '
        'end), tolerance = that distance EXACTLY (tie: strict "closer than") or moved by a factor 1+-2^-k (k = 8..36), '
        'companions closer than the tie, optionally embedded in a longer path (collinear continuation, repeats, closing), '
        'scaled by 1, 2, 5, 1/2, 1/4, 1/8 and translated (up to 2^20): judged with NO band wherever every quantity of the '
        'comparison is an integer < 2^53 in lattice units (predicate vs exact distance, predicate vs the reference when the '
        'reference is verified exact, supersample by the exact oracle, same-list sequences). '
        'magnitude stream: ORDINARY vertex lists (the structured lists held as Fractions / Python ints / doubles / mixtures, small '
        'integer paths, random doubles, near-collinear runs with perpendicular offsets 2^-4 .. 2^-1074; optionally scaled as a whole '
        'by 2^-100 .. 2^200) x tolerances at the ends of the number range and of every number type - doubles around 2^512 (the '
        'square stops being finite) up to the largest double, ints / Fractions 10^154 .. 10^1000 and 2^512 .. 2^2000 (beyond float()), '
        'doubles down to 5e-324 incl. both sides of 2^-537.5 (square rounds to 0.0) and 2^-511 (square subnormal), Fractions '
        '1/10^12 .. 1/10^1000, True / False, non-positive extremes (-1e200, -10^400, -5e-324, -0.0), and the offset scale of the '
        'list - for supersample, points_in_tolerance and max_dist_from_n_points, every call required to return and judged by '
        'the exact-Fraction oracle (all-rational inputs with no band and also run through the Lean model). '
        'rational-tie stream: the tie geometry of the lattice stream scaled by a NON-dyadic unit (k/10, k/3, k/7, k/100, k/9, k/11 ...) '
        'with coordinates AND tolerance in the exact non-float types: fractions.Fraction, decimal.Decimal, int, and their workable '
        'mixtures (int+Fraction, int+Decimal, Fraction coordinates with a Decimal tolerance, Decimal coordinates with a Fraction '
        'tolerance); tolerance = the tie exactly, or tie * (1 +- 10^-k) (k = 3 .. 30: closer than any binary64 rounding of the '
        'squared tolerance); core and embedded path; judged with no band and also run through the Lean model. '
        'every 3rd exact / 4th float case also runs three two-call sequences on ONE list object (reference->predicate, '
        'reference->supersample, predicate->reference), each call judged against the list as it was before the sequence; '
        'every call into the code under test gets its own fresh list, compared with a snapshot afterwards. '
        'non-trivial = at least one predicate evaluation; distinct by (vertex list, tolerance)')
TRUSTED = ['harness oracle dist2() (clamped projection in exact Fractions, independent of the three-region code)',
           'modelled not verified: Python list slicing / slice deletion semantics as List.take/drop',
           'binary64 arithmetic of the real code is outside the model (model = exact rationals); float runs are judged by '
           'the exact oracle with relative margin max(1e-9, 16*2^-53*D/tol) (measured: see notes)']
ASSUMPTIONS = ['vertices are 2-sequences of finite numbers held in a Python list; tolerance is a finite number',
               'predicate/reference agreement is claimed for tolerance >= 0 (points_in_tolerance squares the tolerance; '
               'supersample never calls it with tolerance <= 0) and for at least 3 points (both functions assert that)',
               'float inputs: extent D of the vertex list <= 1e12 * tolerance, |coordinates| <= 1e13 * tolerance, tolerance >= 1e-6 '
               '(no overflow/underflow of squares); float decisions are required to be exact only outside the relative band '
               'max(1e-9, 16 * 2^-53 * D / tolerance) around the tolerance (measured on 4.6e5 cases: unchanged code flips only '
               'within 1.27 * 2^-53 * D / tol; |max_dist_from_n_points - exact| <= 3.3 * 2^-53 * D)',
               'exception to the float band (lattice stream): when coordinates and tolerance are integers times one power of two '
               '2^-q (q <= 10), |coordinates| < 2^40 and extent M, tolerance t (lattice units) satisfy 4*M^4 < 2^53 and 2*t^2*M^2 < 2^53, '
               'every quantity of the distance-versus-tolerance comparison is exactly representable, so the statement is applied '
               'with no band: a vertex at EXACTLY the tolerance distance is not "closer than the tolerance" (measured: 0 '
               'flips of the unchanged code on 3 x 10^4 such cases, 60% of them exact ties)']
ASSUMPTIONS += ['magnitude stream: every finite tolerance of type float / int / bool / Fraction is in the domain, whatever its magnitude '
                '(1e308, 10^1000, 5e-324, 1/10^1000); vertex lists there are ordinary (|coordinates| and extent within [2^-110, 2^210], '
                'so that no product of COORDINATES leaves the binary64 range; the perpendicular offsets 2^-k of the near-collinear lists go down '
                'to 2^-1074 and are then inside the band). All-rational inputs (ints / Fractions / bools) are judged '
                'with no band at all. When a double takes part: coordinates as doubles - the measured float band, absolute '
                'max(1e-9 * tol, 16 * 2^-53 * D) (no upper limit on D / tol here, so for a tiny tolerance only "a vertex farther than '
                'the band may not be deleted / predicate must be False" remains); int / Fraction coordinates with a double tolerance - '
                'relative 2^-40 (one rounding, of tolerance^2). Binary64 range (scope decision): squared quantities carry an absolute slack '
                'of one subnormal step 2^-1074, so for a DOUBLE tolerance below 2^-537.5 = 1.57e-162 (its square rounds to 0.0) only '
                'predicate True => exactly closer than the tolerance is required; the unchanged code answers False there even for '
                'vertices exactly on the chord, whereas max_dist_from_n_points = 0.0 < tolerance (logged under '
                'out_of_domain_differences; supersample then deletes nothing, which the statement allows). '
                'max_dist_from_n_points is required within 1e-9 * exact + 16 * 2^-53 * D of the exact maximum (measured on 5 x 10^5 '
                'magnitude cases: 0 alarms on the unchanged code)']
ASSUMPTIONS += ['rational-tie stream: decimal.Decimal values are in the domain as exact numbers as long as Python computes with them '
                'exactly: coordinates / tolerance of at most 11 significant digits (every product of the distance computation has '
                '< 28 digits, the default context precision; the one quotient is exact at a tie and off by 1e-28 relative '
                'elsewhere, against differences >= 1e-6 relative for Decimal near-ties); 1.8 x 10^5 cases, 0 alarms on the unchanged code']
STAGED = []

REL = 1e-9
U53 = 2.0 ** -53
KBAND = 16.0


class Vtx(tuple):
    """a vertex object: a 2-tuple with its own identity (tuple(t) would hand back the very same object)"""
    __slots__ = ()


TIE_SCALE = 5   # once the tie is broken the failing-input search runs at this multiple of the budget (default 10; this check is slow)

def dist2(p, a, b):
    """exact squared distance from p to segment ab: clamp the projection parameter (not the code's region split)"""
    dx, dy = b[0] - a[0], b[1] - a[1]
    L = dx * dx + dy * dy
    if L == 0:
        return (p[0] - a[0]) ** 2 + (p[1] - a[1]) ** 2
    t = F((p[0] - a[0]) * dx + (p[1] - a[1]) * dy) / L
    t = max(F(0), min(F(1), t))
    return (a[0] + t * dx - p[0]) ** 2 + (a[1] + t * dy - p[1]) ** 2


def region(p, a, b):
    dx, dy = b[0] - a[0], b[1] - a[1]
    c1 = (p[0] - a[0]) * dx + (p[1] - a[1]) * dy
    if c1 <= 0:
        return 'before-start'
    if dx * dx + dy * dy <= c1:
        return 'past-end'
    return 'perpendicular'


# ------------------------------------------------------------------------------------------ generators
def rnd_coord(rng):
    return F(rng.randint(-6, 6), rng.choice([1, 1, 1, 2, 3]))


def gen_list(rng):
    n = rng.choice([0, 1, 2, 3, 3, 4, 4, 5, 6, 7, 8, 9, 10, 11, 12])
    pts = []
    while len(pts) < n:
        k = rng.random()
        if not pts or k < 0.25:
            pts.append((rnd_coord(rng), rnd_coord(rng)))
        elif k < 0.35:                                    # repeated point
            pts.append(tuple(pts[-1]))
        elif k < 0.65:                                    # collinear run (possibly with a small bump)
            dx, dy = rng.choice([(1, 0), (0, 1), (1, 1), (2, -1), (F(1, 2), 0), (3, 4)])
            for _ in range(rng.randint(1, 4)):
                x, y = pts[-1]
                bump = rng.choice([0, 0, 0, F(1, 4), F(-1, 2), 1])
                pts.append((x + dx, y + dy + bump))
        elif k < 0.8:                                     # reversal: go out and come back
            x, y = pts[-1]
            d = rng.choice([1, 2, F(1, 2), 5])
            pts.append((x + d, y)); pts.append((x, y) if rng.random() < 0.5 else (x - d, y))
        else:                                             # jump to an earlier vertex (closes a loop)
            pts.append(tuple(rng.choice(pts)))
    pts = pts[:n]
    if n >= 3 and rng.random() < 0.25:
        pts[-1] = tuple(pts[0])                           # zero-length closing segment
    if n >= 3 and rng.random() < 0.1:
        pts[-2] = tuple(pts[0])
    return [tuple(p) for p in pts]


def gen_tol(rng, pts):
    k = rng.random()
    if k < 0.08:
        return F(0)
    if k < 0.14:
        return F(-rng.randint(1, 3), rng.choice([1, 2]))
    if k < 0.45 and len(pts) >= 3:
        # an exact boundary: the distance of some vertex from some chord, when rational
        for _ in range(6):
            i = rng.randrange(0, len(pts) - 2)
            j = rng.randrange(i + 2, len(pts))
            m = rng.randrange(i + 1, j)
            d2 = dist2(pts[m], pts[i], pts[j])
            n, d = math.isqrt(d2.numerator), math.isqrt(d2.denominator)
            if d2 > 0 and n * n == d2.numerator and d * d == d2.denominator:
                return F(n, d)
    return rng.choice([F(1, 4), F(1, 2), F(1), F(1), F(3, 2), F(2), F(5), F(1, 10), F(7, 3), F(20)])


def exhaustive():
    grid = [(F(x), F(y)) for x in (0, 1, 2) for y in (0, 1)]
    out = []

    def rec(cur, n):
        if len(cur) == n:
            for tol in (F(1, 2), F(1), F(3, 2), F(3)):
                out.append((list(cur), tol))
            return
        for g in grid:
            cur.append(g); rec(cur, n); cur.pop()
    for n in range(0, 5):
        rec([], n)
    return out


# ------------------------------------------------------------------------------------------ oracle
def check_supersample(ctx, pu, pts, tol, margin, tag, again=True, extra=None):
    """run the real supersample on fresh vertex objects and judge the call against the statement; then call it a
    second time on the SAME (already reduced) list object and judge that call too.  Returns the indices surviving
    the first call."""
    objs = [Vtx(p) for p in pts]                        # distinct objects even when coordinates coincide
    work = list(objs)
    if extra is not None:                               # magnitude stream: literals that keep their Python type on replay
        inp = dict(extra, fn='supersample', stream=tag)
    else:
        inp = {'fn': 'supersample', 'stream': tag, 'vertices': [[str(c) if isinstance(c, F) else repr(c) for c in p] for p in pts],
               'tolerance': str(tol) if isinstance(tol, F) else repr(tol)}
    idx = _ss_call(ctx, pu, objs, work, tol, margin, inp)
    if again and idx is not None and len(idx) >= 3 and not ctx.violations:
        before = list(work)
        inp2 = dict(inp, vertices=[inp['vertices'][i] for i in idx], sequence='second call on the same list object')
        _ss_call(ctx, pu, before, work, tol, margin, inp2)
    return idx


def _ss_call(ctx, pu, objs, work, tol, margin, inp):
    """one call `supersample(work, tol)` where `work` holds exactly the objects `objs` before the call"""
    ident = {id(o): i for i, o in enumerate(objs)}
    pts = [tuple(o) for o in objs]
    try:
        pu.supersample(work, tol)
    except Exception as ex:
        ctx.violate('supersample raised ' + type(ex).__name__, inp, repr(ex), 'the list is reduced in place')
        return None
    n = len(objs)
    if any(id(w) not in ident for w in work):
        ctx.violate('supersample: result contains an object that is not an input vertex', inp, str(work), 'same vertex objects')
        return None
    idx = [ident[id(w)] for w in work]
    if n <= 2 or tol <= 0:
        if idx != list(range(n)):
            ctx.violate('supersample changed a list of <= 2 vertices or with tolerance <= 0', inp, str(idx), 'unchanged')
        return idx
    if any(b <= a for a, b in zip(idx, idx[1:])):
        ctx.violate('supersample: result is not an in-order subsequence of the input objects', inp, str(idx), 'strictly increasing indices')
        return idx
    if not idx or idx[0] != 0 or idx[-1] != n - 1:
        ctx.violate('supersample: first or last vertex not kept', inp, str(idx), f'first index 0 and last index {n - 1} survive')
        return idx
    ex_pts = [(F(p[0]), F(p[1])) for p in pts]
    lim = (F(tol) * (1 + F(margin))) ** 2
    for a, b in zip(idx, idx[1:]):
        for k in range(a + 1, b):
            d2 = dist2(ex_pts[k], ex_pts[a], ex_pts[b])
            if not d2 < lim:
                ctx.violate('supersample deleted a vertex that is not closer than the tolerance to the segment joining its '
                            'surviving neighbours', inp,
                            f'survivors {idx}: vertex {k} deleted, squared distance {d2} from segment {a}-{b}',
                            f'squared distance < {F(tol) ** 2}')
                return idx
    return idx


class Impl:
    """Every call into the code under test goes through here: the function gets its OWN fresh list of fresh vertex
    objects (so nothing it does to its argument can reach the harness' data), exceptions propagate to the caller's
    `except`, and the list is compared with a snapshot afterwards — `points_in_tolerance` and
    `max_dist_from_n_points` are documented as not mutating their argument (the models are pure functions)."""

    def __init__(self, ctx, pu):
        self.ctx, self.pu, self.reported = ctx, pu, {}

    def _call(self, name, fn, pts, inp, *args):
        work = [Vtx(p) for p in pts]
        snap = list(work)
        try:
            return fn(work, *args)
        finally:
            if list_changed(snap, work) and self.reported.get(name, 0) < 5:
                self.reported[name] = self.reported.get(name, 0) + 1
                self.ctx.disagree(f"{name} changed the caller's list", dict(inp, fn=name),
                                  f'{len(work)} items left: {[tuple(str(c) for c in w) for w in work][:6]}', 'argument unchanged (pure function)')

    def pit(self, pts, tol, inp):
        return self._call('points_in_tolerance', self.pu.points_in_tolerance, pts, inp, tol)

    def ref(self, pts, inp):
        return self._call('max_dist_from_n_points', self.pu.max_dist_from_n_points, pts, inp)


def get_impl(ctx, pu):
    if getattr(ctx, '_c09_impl', None) is None:
        ctx._c09_impl = Impl(ctx, pu)
    return ctx._c09_impl


def list_changed(snap, work):
    try:
        return len(snap) != len(work) or any(a is not b for a, b in zip(snap, work))
    except Exception:
        return True


def sequences(ctx, pu, pts, tol, band, tag):
    """two calls on the SAME list object, each judged against the statement on the list as it was BEFORE the
    sequence: reference -> predicate, reference -> supersample, predicate -> reference"""
    fs = lambda c: str(c) if isinstance(c, F) else repr(c)
    base = {'stream': tag, 'vertices': [[fs(c) for c in p] for p in pts], 'tolerance': fs(tol)}
    ex = [(F(p[0]), F(p[1])) for p in pts]
    d2 = max(dist2(q, ex[0], ex[-1]) for q in ex[1:-1])
    exact = math.sqrt(d2)
    lo, hi = (F(tol) * max(F(0), 1 - F(band))) ** 2, (F(tol) * (1 + F(band))) ** 2
    near = not (d2 < lo or not d2 < hi)
    rb = max(band, REL)
    refband = max(rb * float(tol), REL * max(1.0, exact), 4 * rb * exact)

    def fresh():
        objs = [Vtx(p) for p in pts]
        return objs, list(objs)

    def left(work):
        try:
            return f'{len(work)} items: {[tuple(fs(c) for c in w) for w in work][:8]}'
        except Exception as e:
            return f'unprintable ({e!r})'

    def judge_pred(pr, ref, inp, who):
        bad = (pr and not d2 < hi) or (not pr and d2 < lo)
        if bad:
            ctx.violate(f'{who}: points_in_tolerance disagrees with the maximum distance of the list', inp, str(pr),
                        f'{d2 < F(tol) ** 2} (exact maximum distance {exact!r} vs tolerance {fs(tol)})')
        elif ref is not None and not near and abs(ref - float(tol)) > rb * max(float(tol), ref) and bool(pr) != (ref < tol):
            ctx.violate(f'{who}: points_in_tolerance disagrees with max_dist_from_n_points', inp, str(pr),
                        f'{ref < tol} (reference maximum {ref!r} vs tolerance {fs(tol)})')

    def judge_ref(ref, inp, who):
        if not (isinstance(ref, (int, float)) and abs(ref - exact) <= refband):
            ctx.violate(f'{who}: max_dist_from_n_points is not the maximum distance of the list', inp, repr(ref), f'{exact!r}')

    # ---- A: reference, then predicate
    inp = dict(base, fn='points_in_tolerance', sequence='ref = max_dist_from_n_points(v); points_in_tolerance(v, tol)  [same list v]')
    objs, work = fresh()
    try:
        ref = pu.max_dist_from_n_points(work)
    except Exception as e:
        ctx.violate('max_dist_from_n_points raised ' + type(e).__name__, inp, repr(e), 'a value')
        ref = None
    if ref is not None:
        ch = list_changed(objs, work)
        if ch:
            ctx.disagree("max_dist_from_n_points changed the caller's list", inp, left(work), 'argument unchanged')
        judge_ref(ref, inp, 'reference')
        try:
            pr = pu.points_in_tolerance(work, tol)
        except Exception as e:
            ctx.violate('reference then predicate on the same list: points_in_tolerance raised ' + type(e).__name__, inp,
                        f'{e!r}; list after the reference call: {left(work)}', f'{d2 < F(tol) ** 2}')
        else:
            judge_pred(pr, ref, inp, 'reference then predicate on the same list')
    # ---- B: reference, then supersample (result judged against the list as it was before the sequence)
    inp = dict(base, fn='supersample', sequence='max_dist_from_n_points(v); supersample(v, tol)  [same list v]')
    objs, work = fresh()
    try:
        pu.max_dist_from_n_points(work)
    except Exception:
        pass                                   # reported under A
    else:
        _ss_call(ctx, pu, objs, work, tol, band, inp)
    # ---- C: predicate, then reference
    inp = dict(base, fn='max_dist_from_n_points', sequence='points_in_tolerance(v, tol); ref = max_dist_from_n_points(v)  [same list v]')
    objs, work = fresh()
    try:
        pr = pu.points_in_tolerance(work, tol)
    except Exception as e:
        ctx.violate('points_in_tolerance raised ' + type(e).__name__, inp, repr(e), 'a value')
        return
    if list_changed(objs, work):
        ctx.disagree("points_in_tolerance changed the caller's list", inp, left(work), 'argument unchanged')
    try:
        ref = pu.max_dist_from_n_points(work)
    except Exception as e:
        ctx.violate('predicate then reference on the same list: max_dist_from_n_points raised ' + type(e).__name__, inp,
                    f'{e!r}; list after the predicate call: {left(work)}', f'{exact!r}')
        return
    judge_ref(ref, inp, 'predicate then reference on the same list')
    judge_pred(pr, ref, inp, 'predicate then reference on the same list')


def bbox_diag(pts):
    xs = [p[0] for p in pts]
    ys = [p[1] for p in pts]
    return math.hypot(max(xs) - min(xs), max(ys) - min(ys))


def float_band(pts, tol):
    """relative band around the tolerance inside which a binary64 decision may differ from the exact one:
    the cross product / dot products of the real code carry an absolute error ~ u * (extent of the points), i.e.
    ~ u * D / tol relative to the tolerance.  Measured on 4.6 x 10^5 cases with D/tol up to 1e12 on the unchanged
    code: decisions flip only within 1.27 * u * D / tol, |max_dist_from_n_points - exact| <= 3.3 * u * D."""
    return max(REL, KBAND * U53 * bbox_diag(pts) / tol)


def float_case(ctx, pu, pts, tol, fstats, path='float'):
    """one binary64 case: predicate vs reference and vs the exact maximum (outside the band), supersample judged by
    the exact oracle on the Fractions of the float inputs"""
    key = ('f', tuple(pts), tol)
    ctx.count(key, path, True)
    inp = {'fn': 'points_in_tolerance', 'stream': 'float', 'vertices': [[repr(a), repr(b)] for a, b in pts], 'tolerance': repr(tol)}
    band = float_band(pts, tol)
    impl = get_impl(ctx, pu)
    try:
        pr = impl.pit(pts, tol, inp)
        ref = impl.ref(pts, inp)
    except Exception as ex:
        ctx.violate('points_in_tolerance / max_dist_from_n_points raised ' + type(ex).__name__, inp, repr(ex), 'a value')
        return
    ex_pts = [(F(a), F(b)) for a, b in pts]
    d2 = max(dist2(p, ex_pts[0], ex_pts[-1]) for p in ex_pts[1:-1])
    exact = math.sqrt(d2)
    if abs(exact - tol) > band * tol and abs(ref - tol) > band * tol:
        if bool(pr) != (ref < tol):
            ctx.violate('points_in_tolerance disagrees with max_dist_from_n_points', inp, str(pr),
                        f'{ref < tol} (reference maximum {ref!r} vs tolerance {tol!r})')
    else:
        fstats['skipped'] += 1
    # against exact arithmetic on the float inputs
    lo, hi = (F(tol) * max(F(0), 1 - F(band))) ** 2, (F(tol) * (1 + F(band))) ** 2
    if (pr and not d2 < hi) or (not pr and d2 < lo):
        ctx.violate('points_in_tolerance disagrees with the exact maximum distance (beyond the float band)', inp, str(pr),
                    f'{d2 < F(tol) ** 2} (exact maximum distance {exact!r} vs tolerance {tol!r}, relative band {band:.3e})')
    if pr != (d2 < F(tol) ** 2):
        fstats['flip'] = max(fstats['flip'], abs(exact - tol) / tol / (U53 * bbox_diag(pts) / tol))
    if exact > 0:
        fstats['worst'] = max(fstats['worst'], abs(ref - exact) / max(exact, tol))
        fstats['worst_uD'] = max(fstats['worst_uD'], abs(ref - exact) / (U53 * bbox_diag(pts)) if bbox_diag(pts) > 0 else 0.0)
    check_supersample(ctx, pu, pts, tol, band, 'float')
    fstats['n'] = fstats.get('n', 0) + 1
    if fstats['n'] % 4 == 1 and not ctx.violations:
        sequences(ctx, pu, pts, tol, band, 'float')


def gen_float_large(rng):
    """chord much longer than the tolerance (ratio up to 1e12), optionally translated far from the origin; interior
    vertices are sharp reversals overshooting either chord end, or lie along the chord, at perpendicular offsets
    around the tolerance"""
    tol = rng.choice([1.0, 2.0, 0.5, 3.0, rng.uniform(0.1, 10)])
    L = tol * 10.0 ** rng.uniform(0, 12)
    if rng.random() < 0.35:
        ux, uy = rng.choice([(1.0, 0.0), (0.0, 1.0), (-1.0, 0.0), (0.0, -1.0), (0.6, 0.8), (-0.8, 0.6)])
        L = float(round(L))
    else:
        ang = rng.uniform(0, 2 * math.pi)
        ux, uy = math.cos(ang), math.sin(ang)
    off = rng.choice([0.0, 0.0, 1.0]) * 10.0 ** rng.uniform(3, 12) * tol
    x0, y0 = off * rng.choice([-1, 1]), off * rng.choice([-1, 0, 1])
    mid = []
    for _ in range(rng.randint(1, 4)):
        k = rng.random()
        perp = tol * rng.choice([0.0, 0.5, 0.99, 1.0, 1.01, 1.5, 3.0, rng.uniform(0, 3)]) * rng.choice([-1, 1])
        if k < 0.3:      # overshoots the far end
            s = L + tol * rng.choice([0.0, 0.5, 1.0, 2.0, rng.uniform(0, 3)])
        elif k < 0.6:    # doubles back behind the start
            s = -tol * rng.choice([0.0, 0.5, 1.0, 2.0, rng.uniform(0, 3)])
        elif k < 0.7:
            s = L * rng.uniform(1, 3)
        else:
            s = L * rng.uniform(0, 1)
        mid.append((x0 + s * ux - perp * uy, y0 + s * uy + perp * ux))
    pts = [(x0, y0)] + mid + [(x0 + L * ux, y0 + L * uy)]
    # sometimes embed in a longer path
    if rng.random() < 0.3:
        pts = [(x0 - 5 * tol, y0 + tol)] + pts + [(pts[-1][0], pts[-1][1] - 50 * tol)]
    return pts, tol


def gen_float_long_inside(rng):
    """a chord of dyadic length 1e6..1e9 * tol (axis or diagonal: the inputs are exact) with interior vertices that
    project INSIDE the chord at perpendicular offsets around the tolerance (0.25..4 * tol): the exact verdict is
    decided with a wide margin, a cancelling distance formula loses the offset against the length"""
    tol = rng.choice([1.0, 0.5, 2.0, 0.25])
    L = tol * rng.choice([1, 3, 5, 7]) * 2.0 ** rng.randint(20, 30)
    while L > 1e9 * tol:
        L /= 2
    rot = rng.choice([lambda s, t: (s, t), lambda s, t: (-t, s), lambda s, t: (-s, -t), lambda s, t: (s - t, s + t)])
    ox = rng.choice([0.0, 0.0, tol * 2.0 ** rng.randint(4, 24) * rng.choice([-1, 1])])
    mid = []
    for _ in range(rng.randint(1, 3)):
        s = L * rng.randint(1, 15) / 16
        t = tol * rng.choice([0.25, 0.5, 0.75, 1.0, 1.5, 2.0, 4.0, rng.randint(1, 32) / 8]) * rng.choice([-1, 1])
        mid.append((s, t))
    mid.sort()
    pts = [(0.0, 0.0)] + mid + [(L, 0.0)]
    pts = [(rot(s, t)[0] + ox, rot(s, t)[1]) for s, t in pts]
    if rng.random() < 0.3:
        pts = [(pts[0][0] - 3 * tol, pts[0][1] + 7 * tol)] + pts + [(pts[-1][0] + 9 * tol, pts[-1][1] - 40 * tol)]
    return pts, tol


# ------------------------------------------------------------------------------------------ lattice ties (int / dyadic doubles)
# Vertex lists whose coordinates and tolerance are small integers (or small integers times a power of two), held as Python
# ints and/or doubles, on chords whose length is an integer: Pythagorean directions (3-4-5, 5-12-13, ... and multiples,
# all sign / swap variants) and - as the neighbouring class - axis-aligned chords.  An integer point (x, y) lies at
# distance |x*b - y*a| / c from the line through the origin with direction (a, b), a^2 + b^2 = c^2, so the integer points
# at distance exactly j are  j*(x1, y1) + t*(a, b)  with  x1*b - y1*a = c : EVERY such point can be drawn (not only the
# sub-lattice P0 + t*(a,b) + s*(-b,a)).  The tolerance is such a distance exactly (a tie: "closer than" is strict, so
# the vertex must stay / the predicate must say False), or the tie moved by a factor 1 +- 2^-k.
PYTH = [(3, 4, 5), (5, 12, 13), (8, 15, 17), (7, 24, 25), (20, 21, 29), (12, 35, 37), (9, 40, 41)]


def _int_vectors():
    """integer vectors of integer length (axis-aligned and Pythagorean, every sign / swap), length <= 45"""
    out = []
    for r in range(1, 13):
        out += [((r, 0), r), ((-r, 0), r), ((0, r), r), ((0, -r), r)]
    for a, b, c in PYTH:
        for g in (1, 2, 3):
            if g * c > 45:
                continue
            for x, y in ((a, b), (b, a)):
                for sx in (1, -1):
                    for sy in (1, -1):
                        out.append(((g * sx * x, g * sy * y), g * c))
    return out


INT_VECS = _int_vectors()


def _normal_step(a, b, c):
    """an integer point (x, y) with x*b - y*a == c, i.e. at distance exactly 1 from the line {t*(a, b)}"""
    best = None
    for x in range(-abs(a) - 1, abs(a) + 2):
        for y in range(-abs(b) - 1, abs(b) + 2):
            if x * b - y * a == c and (best is None or abs(x) + abs(y) < abs(best[0]) + abs(best[1])):
                best = (x, y)
    return best


def _tie_geometry(rng):
    """-> (core, full, tie) in lattice integers: `core` = [P0, interior vertices..., P1] with one interior vertex at EXACTLY
    the integer distance `tie` from the chord P0-P1; `full` = the core embedded in a longer path (or the core itself)."""
    if rng.random() < 0.82:
        a, b, c = rng.choice(PYTH)
        if rng.random() < 0.5:
            a, b = b, a
        a *= rng.choice([-1, 1]); b *= rng.choice([-1, 1])
    else:
        a, b, c = rng.choice([(1, 0, 1), (0, 1, 1), (-1, 0, 1), (0, -1, 1)])       # neighbouring class: axis-aligned chord
    m = rng.choice([1, 1, 2, 2, 3, 4, 5, 8])
    A, B = m * a, m * b                                   # chord vector, length m*c
    x1, y1 = _normal_step(a, b, c)
    w = x1 * a + y1 * b
    cc = c * c

    def at(j, t):
        return (j * x1 + t * a, j * y1 + t * b)           # signed distance j from the chord's line

    def inside_ts(j):
        # 0 < dot(at(j,t), (A,B)) < |(A,B)|^2   <=>   0 < j*w + t*c^2 < m*c^2
        lo = (-j * w) // cc + 1
        return [t for t in range(lo, lo + m + 1) if 0 < j * w + t * cc < m * cc]

    kind = rng.random()
    tie_pt = None
    if kind < 0.62:
        for _ in range(8):
            j = rng.choice([1, 1, 1, 2, 2, 3, 4]) * rng.choice([-1, 1])
            ts = inside_ts(j)
            if ts:
                tie_pt, tie = at(j, rng.choice(ts)), abs(j)
                break
    elif kind < 0.74:                                     # before the start, at an integer distance from P0
        for _ in range(20):
            (vx, vy), ln = rng.choice(INT_VECS)
            if vx * A + vy * B <= 0:
                tie_pt, tie = (vx, vy), ln
                break
    elif kind < 0.86:                                     # past the end, at an integer distance from P1
        for _ in range(20):
            (vx, vy), ln = rng.choice(INT_VECS)
            if vx * A + vy * B >= 0:
                tie_pt, tie = (A + vx, B + vy), ln
                break
    else:                                                 # projects exactly ONTO an end of the chord (region boundary)
        j = rng.choice([1, 2, 3]) * rng.choice([-1, 1])
        base = rng.choice([(0, 0), (A, B)])
        tie_pt, tie = (base[0] - j * b, base[1] + j * a), abs(j) * c
    if tie_pt is None:
        tie_pt, tie = (-b, a), c
    P0, P1 = (0, 0), (A, B)
    # companions: other interior vertices, mostly strictly closer than the tie distance
    comp = []
    for _ in range(rng.choice([0, 0, 0, 1, 1, 2, 3])):
        for _try in range(6):
            z = rng.random()
            if z < 0.5:
                q = at(rng.randint(-tie, tie) if tie <= 6 else rng.randint(-3, 3), rng.randint(-1, m + 1))
            elif z < 0.7:
                q = (rng.randint(0, m) * a, rng.randint(0, m) * b) if rng.random() < 0.5 else rng.choice([P0, P1, tie_pt])
            else:
                q = (rng.randint(min(0, A) - 3, max(0, A) + 3), rng.randint(min(0, B) - 3, max(0, B) + 3))
            if dist2(q, P0, P1) < tie * tie or rng.random() < 0.2:
                comp.append(q)
                break
    inner = comp + [tie_pt]
    z = rng.random()
    if z < 0.5:
        inner.sort(key=lambda q: q[0] * A + q[1] * B)     # in order along the chord
    elif z < 0.8:
        rng.shuffle(inner)                                # sharp reversals
    core = [P0] + inner + [P1]
    full = list(core)
    if rng.random() < 0.55:
        def extra():
            z = rng.random()
            if z < 0.4:                                   # continues along the chord's line: the window keeps growing
                return (A + rng.randint(1, 4) * a, B + rng.randint(1, 4) * b)
            if z < 0.55:
                return rng.choice(core)
            if z < 0.7:
                q = rng.choice(INT_VECS)[0]
                return (A + q[0], B + q[1])
            return (rng.randint(min(0, A) - 6, max(0, A) + 6), rng.randint(min(0, B) - 6, max(0, B) + 6))
        full = [extra() for _ in range(rng.choice([0, 0, 1, 2]))] + core + [extra() for _ in range(rng.choice([0, 1, 1, 2, 3]))]
    return core, full, tie


def gen_tie(rng):
    """-> (core, full, tol): `core` = [P0, interior vertices..., P1] with one interior vertex at EXACTLY the distance
    `tol` (or tol = that distance * (1 +- 2^-k)) from the chord P0-P1; `full` = the core embedded in a longer path (or the
    core itself).  Values are ints and/or doubles, all exactly representable."""
    core, full, tie = _tie_geometry(rng)
    # tolerance: the tie itself, or moved by a relative 2^-k
    z = rng.random()
    tol = F(tie)
    if z >= 0.7:
        tol = tol * (1 + rng.choice([-1, 1]) * F(1, 2 ** rng.choice([8, 16, 24, 30, 36])))
    # scale (integers and powers of two: everything stays exactly representable) and translate
    unit = rng.choice([F(1), F(1), F(1), F(2), F(5), F(1, 2), F(1, 4), F(1, 8)])
    big = rng.random() < 0.15
    ox = F(rng.randint(-2 ** 20, 2 ** 20) if big else rng.randint(-40, 40)) * rng.choice([1, 1, unit])
    oy = F(rng.randint(-2 ** 20, 2 ** 20) if big else rng.randint(-40, 40)) * rng.choice([1, 1, unit])
    mode = rng.choice(['int', 'float', 'float', 'mixed'])

    def num(v):
        if v.denominator == 1 and (mode == 'int' or (mode == 'mixed' and rng.random() < 0.5)):
            return int(v)
        return float(v)

    conv = {}

    def pt(q):
        if q not in conv or mode == 'mixed':
            conv[q] = (num(q[0] * unit + ox), num(q[1] * unit + oy))
        return conv[q]
    tol = num(tol * unit)
    return [pt(q) for q in core], [pt(q) for q in full], tol


def lattice_exact(pts, tol):
    """True when coordinates and tolerance are integers times one power of two 2^-q (q <= 10) and so small that every
    quantity of the distance-versus-tolerance comparison (coordinate differences, dot and cross products, squared
    lengths, cross^2, tolerance^2 * length^2) is an integer below 2^53 in units of the lattice: the comparison can be
    decided without any rounding, so the strict "closer than the tolerance" is required exactly (no float band)."""
    try:
        vals = [F(c) for p in pts for c in p] + [F(tol)]
    except (TypeError, ValueError, OverflowError):
        return False
    q = max(v.denominator for v in vals)
    if q > 1024 or q & (q - 1):
        return False
    iv = [int(v * q) if (v * q).denominator == 1 else None for v in vals]
    if any(v is None for v in iv):
        return False
    t = iv[-1]
    xs, ys = iv[0:-1:2], iv[1:-1:2]
    if max(abs(v) for v in iv[:-1]) >= 2 ** 40:
        return False
    M = max(max(xs) - min(xs), max(ys) - min(ys), 1)
    return 4 * M ** 4 < 2 ** 53 and 2 * t * t * M * M < 2 ** 53


def lattice_case(ctx, pu, pts, tol, fstats, tstats, path, seq=False):
    """one case of ints / doubles; inside the exactly decidable lattice domain it is judged with NO band (ties included),
    otherwise (tie moved by 2^-k: the tolerance has more bits) like any other float case"""
    if len(pts) < 3 or not tol > 0:
        return
    if not lattice_exact(pts, tol):
        tstats['banded'] += 1
        float_case(ctx, pu, pts, tol, fstats, path + ':near')
        return
    fs = repr
    inp = {'fn': 'points_in_tolerance', 'stream': 'lattice', 'vertices': [[fs(a), fs(b)] for a, b in pts], 'tolerance': fs(tol)}
    ex_pts = [(F(a), F(b)) for a, b in pts]
    d2s = [dist2(p, ex_pts[0], ex_pts[-1]) for p in ex_pts[1:-1]]
    d2 = max(d2s)
    T = F(tol) ** 2
    reg = region(ex_pts[1:-1][d2s.index(d2)], ex_pts[0], ex_pts[-1])
    types = ''.join('i' if isinstance(c, int) else 'f' for p in pts for c in p)
    ctx.count(('lat', tuple(pts), tol, types), f'{path}:{reg}' + (':eq' if d2 == T else ''), True)
    tstats['n'] += 1
    tstats['ties'] += d2 == T
    impl = get_impl(ctx, pu)
    try:
        pr = impl.pit(pts, tol, inp)
        ref = impl.ref(pts, inp)
    except Exception as ex:
        ctx.violate('points_in_tolerance / max_dist_from_n_points raised ' + type(ex).__name__, inp, repr(ex), 'a value')
        return
    want = d2 < T
    if bool(pr) != want:
        ctx.violate('points_in_tolerance disagrees with the exact maximum distance', inp, str(pr),
                    f'{want} (max squared distance {d2} vs tolerance^2 {T}; integer / dyadic inputs: decidable without rounding)')
    ok_num = isinstance(ref, (int, float)) and math.isfinite(ref)
    if ok_num and F(ref) ** 2 == d2:
        tstats['ref_exact'] += 1                         # the reference returned the true maximum distance exactly
        if bool(pr) != (ref < tol):
            ctx.violate('points_in_tolerance disagrees with max_dist_from_n_points', inp, str(pr),
                        f'{ref < tol} (reference maximum {ref!r}, which is the exact maximum distance, vs tolerance {tol!r})')
    else:
        exact = math.sqrt(d2)
        if not (ok_num and abs(ref - exact) <= REL * max(1.0, exact)):
            ctx.violate('max_dist_from_n_points is not the maximum distance of the list', inp, repr(ref), repr(exact))
        elif ok_num and abs(ref - float(tol)) > REL * max(float(tol), ref) and bool(pr) != (ref < tol):
            ctx.violate('points_in_tolerance disagrees with max_dist_from_n_points', inp, str(pr),
                        f'{ref < tol} (reference maximum {ref!r} vs tolerance {tol!r})')
    idx = check_supersample(ctx, pu, pts, tol, 0, 'lattice')
    if idx is not None and len(idx) < len(pts) and tstats['n'] % 50 == 1:
        ctx.sample({'stream': 'lattice', 'vertices': inp['vertices'], 'tolerance': inp['tolerance'], 'survivors': idx})
    if seq and not ctx.violations:
        sequences(ctx, pu, pts, tol, 0, 'lattice')


def lattice_stream(ctx, pu, fstats, replayed):
    rng = ctx.rng
    tstats = {'n': 0, 'ties': 0, 'ref_exact': 0, 'banded': 0}
    pinned = [
        ([(0, 0), (7, 11), (8, 15)], 1),                                 # 8-15-17, integer point not on the (a,b)/(-b,a) sub-lattice
        ([(2.0, -1.0), (23.0, 10.0), (26.0, 6.0)], 5.0),                 # 7-24-25, distance 5
        ([(0, 0), (-4, 3), (3, 4)], 5),                                  # projects exactly onto the start
        ([(0.5, 0.25), (2.0, 1.0), (2.0, 2.25), (8.0, 2.25)], 0.5),      # dyadic 3-4-5 (x 1/2) inside a longer path
    ]
    for pts, tol in replayed + pinned:
        lattice_case(ctx, pu, pts, tol, fstats, tstats, 'lattice:pinned', seq=True)
    for k in range(ctx.n(2500)):
        core, full, tol = gen_tie(rng)
        lattice_case(ctx, pu, core, tol, fstats, tstats, 'lattice', seq=(k % 4 == 0))
        if full != core:
            lattice_case(ctx, pu, full, tol, fstats, tstats, 'lattice:path', seq=(k % 8 == 1))
    ctx.notes.append(f"lattice stream (ints / dyadic doubles, integer-length chords): {tstats['n']} cases judged without a band, "
                     f"{tstats['ties']} of them with the maximum distance exactly equal to the tolerance; max_dist_from_n_points "
                     f"returned the exact maximum in {tstats['ref_exact']} of them; {tstats['banded']} near-tie cases "
                     f"(tolerance = tie * (1 +- 2^-k)) judged as float cases")


# ------------------------------------------------------------------------------------------ tolerance magnitudes / types
# The statement quantifies over ALL tolerances.  This stream crosses ORDINARY vertex lists (the structured lists of the
# exact stream held as Fractions, Python ints, doubles or mixtures, small integer paths, random doubles, near-collinear
# runs with perpendicular offsets 2^-k on many scales; optionally scaled as a whole by a power of two) with tolerances at
# the ends of the number range and of every Python number type:
#   huge floats    - around sqrt(float max) = 2^512 (the square of the tolerance stops being a finite double), 1e155 ..
#                    1e308, the largest double, powers of two 2^511 .. 2^1023;
#   huge ints / Fractions - 10^154 .. 10^1000, 2^512 .. 2^2000 (beyond the range of float(): no conversion to float exists);
#   large but tame - 1e30 .. 1e150 (square still finite);
#   tiny floats    - 5e-324 (smallest subnormal), 2.2e-308, 1e-300 .. 1e-155, around 2^-537.5 (the square of the
#                    tolerance rounds to 0.0 below it) and around 2^-511 (square becomes subnormal), 1e-100 .. 1e-12;
#   tiny Fractions - 1/10^20 .. 1/10^1000, 1/2^1100;
#   bool           - True (= 1), False (= 0: a non-positive tolerance);
#   non-positive extremes - -1e200, -10^400, -5e-324, -0.0, 0.0, 0 (supersample must leave the list unchanged);
#   the offset scale - for the near-collinear lists, the perpendicular offset of a vertex times 1/2, 1, 2.
# Oracle: exact Fractions of the given values.  A huge tolerance puts every vertex in tolerance (predicate True, any
# deletion allowed, the call must RETURN); with a tiny tolerance nothing farther than the tolerance may be deleted.
# All-rational inputs (ints / bools / Fractions only: Python computes exactly) are judged with NO band; as soon as a
# double takes part the measured float band of the float stream applies: absolute max(1e-9 * tol, 16 * 2^-53 * D).
HUGE_F = [2.0 ** 512, math.nextafter(2.0 ** 512, 0.0), math.nextafter(2.0 ** 512, math.inf), 2.0 ** 511.5, 1.5e154, 2e154,
          1e155, 1e160, 1e200, 1e250, 1e300, 1e308, 1.7976931348623157e308, 2.0 ** 1023, 2.0 ** 600, 2.0 ** 1000]
TAME_F = [1e30, 1e80, 1e100, 1e150, 1e153, 1.3e154, 2.0 ** 511, 2.0 ** 300]
TINY_F = [5e-324, 1e-323, 2.2250738585072014e-308, 1e-310, 1e-300, 1e-250, 1e-200, 2.0 ** -1000, 2.0 ** -538, 2.0 ** -537,
          2.0 ** -536, 1.5e-162, 1.6e-162, 1e-161, 1e-160, 1e-155, 2.0 ** -512, 2.0 ** -511, 2.0 ** -510, 1e-154, 1e-153,
          1e-100, 1e-50, 1e-30, 1e-20, 1e-15, 1e-12]
NONPOS = [-1e200, -1.7976931348623157e308, -10 ** 400, -5e-324, -0.0, 0.0, 0, False, F(-1, 10 ** 400), F(0), -2 ** 1024]


def _approx(q):
    """a short decimal rendering of a Fraction of any magnitude"""
    try:
        return f'{float(q):.3e}'
    except OverflowError:
        return f'~1e{len(str(abs(q.numerator))) - len(str(q.denominator))}'


def mag_lit(v):
    """a literal that keeps the Python type on replay: bool 'True', int '12', Fraction 'n/d' (always with the slash),
    double repr()"""
    if isinstance(v, bool):
        return repr(v)
    if isinstance(v, int):
        return str(v)
    if isinstance(v, F):
        return f'{v.numerator}/{v.denominator}'
    if isinstance(v, Decimal):
        return 'd:' + str(v)
    return repr(v)


def mag_unlit(t):
    t = t.strip()
    if t.startswith('d:'):
        return Decimal(t[2:])
    if t in ('True', 'False'):
        return t == 'True'
    if '/' in t:
        return F(t)
    if t.lstrip('+-').isdigit():
        return int(t)
    return float(t)


def gen_mag_tol(rng, offset=None):
    """-> (class name, tolerance)"""
    k = rng.random()
    if offset is not None and k < 0.3:
        t = offset * rng.choice([F(1, 2), F(1), F(2), F(3, 4), F(5, 4)])
        return 'offset-scale', (t if rng.random() < 0.5 else float(t))
    if k < 0.27:
        if rng.random() < 0.7:
            return 'huge-float', rng.choice(HUGE_F)
        return 'huge-float', rng.choice([10.0 ** rng.uniform(154.2, 308.2), 2.0 ** rng.randint(512, 1023),
                                         rng.uniform(1.0, 1.99) * 2.0 ** rng.randint(512, 1022)])
    if k < 0.42:
        z = rng.random()
        if z < 0.4:
            t = 10 ** rng.choice([154, 155, 200, 308, 309, 400, 1000])
        elif z < 0.8:
            t = 2 ** rng.choice([512, 513, 1023, 1024, 1025, 2000])
        else:
            t = 10 ** rng.randint(150, 420)
        t += rng.choice([0, 0, 1, -1, 7])
        if rng.random() < 0.3:
            return 'huge-fraction', F(2 * t + rng.choice([0, 1]), 2)
        return 'huge-int', t
    if k < 0.5:
        return 'large-float', rng.choice(TAME_F + [10.0 ** rng.uniform(20, 154)])
    if k < 0.74:
        if rng.random() < 0.75:
            return 'tiny-float', rng.choice(TINY_F)
        return 'tiny-float', rng.choice([10.0 ** -rng.uniform(12, 323), 2.0 ** -rng.randint(500, 1074),
                                         rng.uniform(1.0, 1.99) * 2.0 ** -rng.randint(530, 545), rng.randint(1, 9) * 5e-324])
    if k < 0.84:
        return 'tiny-fraction', rng.choice([F(1, 10 ** rng.choice([20, 100, 162, 200, 324, 400, 1000])), F(1, 2 ** 1100),
                                            F(3, 2 ** 1075), F(1, 10 ** rng.randint(12, 420))])
    if k < 0.9:
        return 'bool', rng.choice([True, True, False])
    if k < 0.96:
        return 'non-positive', rng.choice(NONPOS)
    return 'int-ordinary', rng.choice([1, 2, 3, 5, 12, 100, 10 ** 6, 10 ** 12, 10 ** 30])


def _as_type(rng, pts, mode):
    """hold exactly representable rational points as Fractions / ints / doubles / a mixture"""
    def num(v):
        m = mode if mode != 'mixed' else rng.choice(['int', 'float', 'fraction'])
        if m == 'fraction':
            return F(v)
        if m == 'int' and F(v).denominator == 1:
            return int(v)
        return float(v)
    return [(num(a), num(b)) for a, b in pts]


def gen_mag_list(rng):
    """-> (class name, vertex list, perpendicular offset scale or None)"""
    k = rng.random()
    if k < 0.35:                                          # the structured lists of the exact stream
        pts = gen_list(rng)
        mode = rng.choice(['fraction', 'int', 'float', 'float', 'mixed'])
        if mode == 'fraction':
            return 'structured:fraction', [tuple(p) for p in pts], None
        sc = 12 * 2 ** rng.choice([0, 0, 0, 0, 3, 10, 20, 40, 100, 200])
        if rng.random() < 0.3:
            sc = F(12, 2 ** rng.choice([2, 5, 10, 20, 40, 100]))
        return 'structured:' + mode, _as_type(rng, [(a * sc, b * sc) for a, b in pts], mode if F(sc).denominator == 1 else
                                              ('float' if mode == 'int' else mode)), None
    if k < 0.55:                                          # small integer paths
        n = rng.choice([0, 1, 2, 3, 3, 4, 4, 5, 6, 8])
        pts = [(rng.randint(-30, 30), rng.randint(-30, 30)) for _ in range(n)]
        if n >= 3 and rng.random() < 0.25:
            pts[-1] = pts[0]
        mode = rng.choice(['int', 'int', 'float', 'mixed', 'fraction'])
        return 'integers:' + mode, _as_type(rng, pts, mode), None
    if k < 0.72:                                          # random doubles
        n = rng.randint(3, 9)
        scale = 10.0 ** rng.randint(-2, 5)
        pts = [(rng.uniform(-scale, scale), rng.uniform(-scale, scale)) for _ in range(n)]
        if rng.random() < 0.2:
            pts[-1] = pts[0]
        return 'doubles', pts, None
    # near-collinear: integer-length chord, interior vertices along it at perpendicular offsets m * 2^-k (exact)
    axis = rng.random() < 0.6
    if axis:
        (a, b), ln = rng.choice([((1, 0), 1), ((0, 1), 1), ((-1, 0), 1), ((0, -1), 1)])
        kk = rng.choice([4, 10, 20, 26, 30, 40, 45, 50, 60, 100, 200, 500, 537, 538, 1000, 1074])
    else:
        a, b, ln = rng.choice(PYTH[:4])
        a *= rng.choice([-1, 1]); b *= rng.choice([-1, 1])
        if rng.random() < 0.5:
            a, b = b, a
        kk = rng.choice([4, 10, 20, 26, 30, 36, 40])
    L = rng.choice([1, 2, 3, 8])
    mode = rng.choice(['float', 'float', 'fraction', 'mixed'])
    h = F(1, 2 ** kk)
    pts = [(F(0), F(0))]
    for s in sorted(rng.sample(range(1, 8), rng.randint(1, 3))):
        m = rng.choice([0, 1, 1, -1, 2, 3, -3])
        pts.append((F(s * L * a, 8) - m * b * h, F(s * L * b, 8) + m * a * h))
    pts.append((F(L * a), F(L * b)))
    if rng.random() < 0.3:
        pts = [(F(-3), F(7))] + pts + [(pts[-1][0] + 9, pts[-1][1] - 40)]
    if mode != 'fraction' and any(F(float(c)) != c for p in pts for c in p):
        mode = 'fraction'                                 # would not be exact as doubles
    return 'near-collinear:' + mode, _as_type(rng, pts, mode), h * ln


def mag_case(ctx, pu, pts, tol, stats, cls, rational_jobs=None, stream='magnitude'):
    """one (vertex list, tolerance) of the magnitude stream: supersample, and for >= 3 vertices and a positive tolerance
    the predicate and the reference, judged against exact Fractions of the given values"""
    n = len(pts)
    rational = all(type(c) in (int, F, Decimal) for p in pts for c in p) and type(tol) in (int, bool, F, Decimal)
    ex = [(F(a), F(b)) for a, b in pts]
    T = F(tol)
    D = float(bbox_diag(ex)) if n else 0.0
    rational_pts = all(type(c) in (int, F, Decimal) for p in pts for c in p)
    # slack: a double tolerance's square is representable only to within half the smallest subnormal (binary64 range)
    slack = F(0) if rational else F(1, 2 ** 1074)
    if rational or not T > 0:
        band = F(0)
    elif rational_pts:
        band = F(1, 2 ** 40)              # int / Fraction coordinates: Python computes distances exactly, only the double
                                          # tolerance is squared in binary64 (one rounding)
    else:
        band = max(F(REL), F(KBAND * U53 * D) / T)
    margin = band + slack / (T * T) if T > 0 else band
    base = {'stream': stream, 'class': cls, 'vertices': [[mag_lit(a), mag_lit(b)] for a, b in pts],
            'tolerance': mag_lit(tol), 'tolerance_type': type(tol).__name__}
    key = ('mag', tuple(pts), mag_lit(tol), ''.join(type(c).__name__[0] for p in pts for c in p))
    path = stream + ':' + cls.split('|')[-1] + (':exact' if rational else ':exact-points' if rational_pts else ':banded')
    ctx.count(key, path, n >= 3 and T > 0)
    stats['n'] += 1
    stats['rational'] += rational
    idx = check_supersample(ctx, pu, pts, tol, margin, stream, extra=base)
    if idx is not None and len(idx) < n and stats['n'] % 60 == 1:
        ctx.sample(dict(base, survivors=idx))
    job = None
    if rational and rational_jobs is not None and idx is not None and len(rational_jobs) < 400:
        job = {'inp': base, 'pts': ex, 'tol': T, 'idx': idx, 'pr': None}
        rational_jobs.append(job)
    if n < 3 or not T > 0:
        return
    inp = dict(base, fn='points_in_tolerance')
    impl = get_impl(ctx, pu)
    d2 = max(dist2(p, ex[0], ex[-1]) for p in ex[1:-1])
    want = d2 < T * T
    try:
        pr = impl.pit(pts, tol, inp)
    except Exception as e:
        ctx.violate('points_in_tolerance raised ' + type(e).__name__, inp, repr(e), f'{want} (a value)')
        return
    try:
        ref = impl.ref(pts, inp)
    except Exception as e:
        ctx.violate('max_dist_from_n_points raised ' + type(e).__name__, inp, repr(e), 'a value')
        return
    if job is not None:
        job['pr'] = bool(pr)
    exact = math.sqrt(d2)
    # binary64 range (scope decision, logged): with a double in play squared quantities carry an absolute slack of one
    # subnormal step 2^-1074; in particular the square of a double tolerance below 2^-537.5 rounds to 0.0, so no comparison
    # of squared doubles can tell "distance 0" from "distance >= tolerance": only the direction that matters for deleting
    # vertices is required there (predicate True => really closer than the tolerance)
    lo, hi = max(F(0), (T * max(F(0), 1 - band)) ** 2 - slack), (T * (1 + band)) ** 2 + slack
    underflow = isinstance(tol, float) and T * T <= F(1, 2 ** 1075)
    if (pr and not d2 < hi) or (not pr and d2 < lo):
        ctx.violate('points_in_tolerance disagrees with the exact maximum distance', inp, str(pr),
                    f'{want} (exact maximum distance {exact!r} vs tolerance {mag_lit(tol)}'
                    + ('; all-rational input: no rounding anywhere)' if rational else f'; relative band {_approx(band)})'))
        return
    if bool(pr) != want:
        stats['in_band'] += 1
        stats['underflow'] += underflow
        if underflow and not pr and stats['underflow_logged'] < 3:
            stats['underflow_logged'] += 1
            ctx.out_of_domain.append({'what': 'double tolerance whose square rounds to 0.0 (tolerance < 2^-537.5): the predicate says False '
                                              'although the maximum distance is below the tolerance (inside the float band: binary64 range)',
                                      'input': inp, 'predicate': pr, 'exact_max_distance': exact, 'reference_max': ref})
    refband = REL * exact + KBAND * U53 * D                  # scale-invariant (measured: |reference - exact| <= 3.3 * 2^-53 * D)
    if not (isinstance(ref, (int, float)) and math.isfinite(ref) and abs(ref - exact) <= refband):
        ctx.violate('max_dist_from_n_points is not the maximum distance of the list', inp, repr(ref), repr(exact))
        return
    fr = F(ref)
    # absolute width of the band around the tolerance; the reference is a binary64 measurement (sqrt, division) even on
    # rational input, so its own accuracy bound is part of it
    width = max(band, F(REL)) * T + F(REL) * fr + F(refband)
    if not (lo <= d2 < hi) and abs(fr - T) > width and bool(pr) != (fr < T):
        ctx.violate('points_in_tolerance disagrees with max_dist_from_n_points', inp, str(pr),
                    f'{fr < T} (reference maximum {ref!r} vs tolerance {mag_lit(tol)})')


MAG_PINNED = [
    ('pinned', [(0, 0), (1, 2), (3, -1), (4, 0)], 1e200),
    ('pinned', [(0.0, 0.0), (10.5, 3.25), (20.0, -7.5), (30.0, 0.0), (30.0, 40.0)], 1.7976931348623157e308),
    ('pinned', [(5, 5), (6, 7), (5, 5)], 2.0 ** 512),
    ('pinned', [(0, 0), (1, 2), (3, -1), (4, 0)], 10 ** 200),
    ('pinned', [(0.0, 0.0), (1.0, 2.0), (3.0, -1.0), (4.0, 0.0)], 10 ** 400),
    ('pinned', [(F(0), F(0)), (F(1), F(2)), (F(3), F(-1)), (F(4), F(0))], F(10 ** 400)),
    ('pinned', [(0.0, 0.0), (1.0, 0.0), (2.0, 0.0)], 1e-200),
    ('pinned', [(0.0, 0.0), (1.0, 2.0 ** -30), (2.0, 0.0)], 5e-324),
    ('pinned', [(0, 0), (1, 0), (2, 0), (3, 1), (4, 0)], F(1, 10 ** 400)),
    ('pinned', [(0.0, 0.0), (1.0, 2.0 ** -20), (2.0, 0.0), (3.0, 0.0)], 1e-12),
    ('pinned', [(0, 0), (1, 1), (3, 0), (4, 0)], True),
    ('pinned', [(0, 0), (1, 0), (3, 0), (4, 0)], False),
    ('pinned', [(0.0, 0.0), (1.0, 1.0), (3.0, 0.0)], -1e200),
]


def _model_opinion(ctx, jobs, who):
    """all-rational cases: second opinion of the Lean model (exact rationals; tolerances of hundreds of digits included)"""
    ndis = 0
    if ctx.driver and jobs:
        lines = []
        for j in jobs:
            flat = ' '.join(frac_str(c) for p in j['pts'] for c in p)
            lines.append(f"c09 ss {frac_str(j['tol'])} {flat}".rstrip())
            lines.append(f"c09 pit {frac_str(j['tol'])} {flat}".rstrip())
        outs = ctx.driver.batch(lines)
        for k, j in enumerate(jobs):
            m_ss, m_pit = outs[2 * k], outs[2 * k + 1]
            want = '-' if not j['idx'] else ','.join(map(str, j['idx']))
            if m_ss != want:
                ndis += 1
                ctx.disagree(f'supersample survivors ({who})', j['inp'], want, m_ss)
            if j['pr'] is not None and m_pit != str(j['pr']):
                ndis += 1
                ctx.disagree(f'points_in_tolerance ({who})', j['inp'], str(j['pr']), m_pit)
    return ndis


def magnitude_stream(ctx, pu, replayed):
    rng = ctx.rng
    stats = {'n': 0, 'rational': 0, 'in_band': 0, 'underflow': 0, 'underflow_logged': 0}
    jobs = []
    for cls, pts, tol in replayed + MAG_PINNED:
        mag_case(ctx, pu, pts, tol, stats, cls, jobs)
    for _ in range(ctx.n(2000)):
        lcls, pts, offset = gen_mag_list(rng)
        tcls, tol = gen_mag_tol(rng, offset)
        mag_case(ctx, pu, pts, tol, stats, lcls + '|' + tcls, jobs)
    ndis = _model_opinion(ctx, jobs, 'magnitude stream')
    ctx.notes.append(f"magnitude stream (huge / tiny / int / Fraction / bool tolerances x ordinary vertex lists): {stats['n']} cases, "
                     f"{stats['rational']} all-rational (judged with no band; {len(jobs) if ctx.driver else 0} of them also run through the Lean model, "
                     f"{ndis} differ), {stats['in_band']} predicate verdicts differ from the exact one inside the float band "
                     f"({stats['underflow']} of them with a double tolerance whose square rounds to 0.0, "
                     f"{stats['underflow_logged']} logged as out-of-domain differences)")


# ------------------------------------------------------------------------------------------ exact non-float number types
# The tie geometry of the lattice stream (integer-length chords, a vertex at EXACTLY an integer distance) scaled by a
# NON-dyadic unit (k/10, k/3, k/7, k/100, ...) and held in the exact numeric types Python offers besides int:
# fractions.Fraction and decimal.Decimal (coordinates and tolerance; also int / Fraction coordinates with a Decimal or
# Fraction tolerance).  The code under test is duck-typed and computes such inputs exactly (Decimal: every product has
# < 28 digits and the one quotient of a tie is representable), so the statement is applied with NO band: a vertex at
# distance exactly tol = k/10 is not "closer than the tolerance".  The squares of these tolerances (1/100, 1/9, 9/49 ...)
# are not doubles: anything that routes the tolerance through binary64 rounds it, upward for about half of them.
RAT_UNITS = [F(1, 10), F(1, 10), F(3, 10), F(7, 10), F(1, 5), F(1, 3), F(2, 3), F(1, 7), F(3, 7), F(1, 100), F(3, 100),
             F(1, 6), F(1, 30), F(11, 10), F(1, 9), F(1, 20), F(1, 1000), F(13, 10), F(1, 11)]


def _is_decimal_unit(u):
    d = u.denominator
    for q in (2, 5):
        while d % q == 0:
            d //= q
    return d == 1


def gen_rat_tie(rng):
    """-> (class, core, full, tol): exact ties (or near-ties tol = tie * (1 +- 10^-k)) at non-dyadic tolerances, values
    as Fractions / Decimals / ints"""
    core, full, tie = _tie_geometry(rng)
    unit = rng.choice(RAT_UNITS)
    tol = F(tie) * unit
    z = rng.random()
    near = 0
    if z >= 0.65:
        near = rng.choice([3, 6, 6, 9, 12, 17, 20, 30])
        tol = tol * (1 + rng.choice([-1, 1]) * F(1, 10 ** near))
    ox = F(rng.randint(-40, 40)) * rng.choice([1, 1, unit])
    oy = F(rng.randint(-40, 40)) * rng.choice([1, 1, unit])
    modes = ['fraction', 'fraction', 'int+fraction', 'fraction-tol']
    if _is_decimal_unit(unit) and near <= 6:
        modes += ['decimal', 'decimal', 'int+decimal', 'decimal-tol', 'decimal+fraction-tol']
    mode = rng.choice(modes)

    def dec(v):                                            # exact: the denominator is 2^a * 5^b
        sh = 0
        while (v * 10 ** sh).denominator != 1:
            sh += 1
        return Decimal(int(v * 10 ** sh)).scaleb(-sh)

    def num(v, is_tol=False):
        if mode == 'fraction':
            return F(v)
        if mode == 'int+fraction':
            return int(v) if v.denominator == 1 and rng.random() < 0.7 else F(v)
        if mode == 'fraction-tol':                         # Fraction coordinates, tolerance Fraction (or int when integral)
            return (int(v) if v.denominator == 1 else F(v)) if is_tol else F(v)
        if mode == 'decimal':
            return dec(v)
        if mode == 'int+decimal':
            return int(v) if v.denominator == 1 and rng.random() < 0.7 else dec(v)
        if mode == 'decimal-tol':                          # Fraction / int coordinates, Decimal tolerance
            return dec(v) if is_tol else (int(v) if v.denominator == 1 and rng.random() < 0.5 else F(v))
        return F(v) if is_tol else dec(v)                  # 'decimal+fraction-tol': Decimal coordinates, Fraction tolerance
    conv = {}

    def pt(q):
        if q not in conv:
            conv[q] = (num(q[0] * unit + ox), num(q[1] * unit + oy))
        return conv[q]
    return ('tie:' if not near else f'near-tie-1e-{near}:') + mode, [pt(q) for q in core], [pt(q) for q in full], num(tol, True)


RAT_PINNED = [
    ('pinned', [(F(0), F(0)), (F(1), F(1, 10)), (F(2), F(0))], F(1, 10)),
    ('pinned', [(Decimal('0'), Decimal('0')), (Decimal('1'), Decimal('0.1')), (Decimal('2'), Decimal('0'))], Decimal('0.1')),
    ('pinned', [(0, 0), (F(22, 10), F(-4, 10)), (4, 3)], F(16, 10)),        # 3-4-5 chord, distance exactly 8/5
    ('pinned', [(F(0), F(0)), (F(1), F(1, 3)), (F(2), F(0)), (F(5), F(1, 7))], F(1, 3)),
    ('pinned', [(Decimal('0.3'), Decimal('-1.2')), (Decimal('1.3'), Decimal('-0.5')), (Decimal('2.3'), Decimal('-1.2'))], Decimal('0.7000001')),
]


def rational_tie_stream(ctx, pu, replayed):
    rng = ctx.rng
    stats = {'n': 0, 'rational': 0, 'in_band': 0, 'underflow': 0, 'underflow_logged': 0}
    jobs = []
    for cls, pts, tol in replayed + RAT_PINNED:
        mag_case(ctx, pu, pts, tol, stats, cls, jobs, stream='rational-tie')
    for _ in range(ctx.n(1500)):
        cls, core, full, tol = gen_rat_tie(rng)
        mag_case(ctx, pu, core, tol, stats, cls, jobs, stream='rational-tie')
        if full != core:
            mag_case(ctx, pu, full, tol, stats, cls + ':path', jobs, stream='rational-tie')
    ndis = _model_opinion(ctx, jobs, 'rational-tie stream')
    ctx.notes.append(f"rational-tie stream (Fraction / Decimal / int coordinates and tolerances, exact ties and near-ties at non-dyadic "
                     f"tolerances k/10, k/3, k/7 ... on integer-length chords): {stats['n']} cases, all judged with no band "
                     f"({stats['n'] - stats['rational']} not all-rational); {len(jobs) if ctx.driver else 0} also run through the Lean model, {ndis} differ")


def run(ctx):
    from plotink import plot_utils as pu
    rng = ctx.rng
    cases = exhaustive()
    for _ in range(ctx.n(6000)):
        pts = gen_list(rng)
        cases.append((pts, gen_tol(rng, pts)))
    # pinned witnesses (geometry classes named in the statement)
    cases += [
        ([(F(0), F(0)), (F(3), F(1)), (F(2), F(0))], F(1)),          # projects past the end, distance sqrt2 > 1
        ([(F(0), F(0)), (F(-1), F(0)), (F(2), F(0))], F(1)),         # before the start at exactly tol
        ([(F(0), F(0)), (F(1), F(1)), (F(0), F(0))], F(2)),          # zero-length chord
        ([(F(0), F(0)), (F(1), F(0)), (F(2), F(0)), (F(3), F(0)), (F(0), F(0))], F(1, 2)),
        ([(F(0), F(0)), (F(1), F(0)), (F(2), F(0)), (F(3), F(0))], F(1, 100)),   # run reaches the end of the list
        ([(F(0), F(0)), (F(2), F(3, 4)), (F(5), F(-3, 4)), (F(8), F(3, 4)), (F(10), F(0))], F(1)),   # measured, then reduced
    ]
    replay_float = []
    replay_lattice = []
    replay_mag = []
    replay_rat = []
    n_replay = 0
    if getattr(ctx, 'replay', None):
        try:
            rp = json.load(open(ctx.replay))
            for v in rp.get('violations', []):
                i = v.get('input', {})
                if i.get('stream') == 'exact' and 'vertices' in i:
                    cases.insert(0, ([(F(a), F(b)) for a, b in i['vertices']], F(i['tolerance'])))
                    n_replay += 1
                elif i.get('stream') == 'float' and 'vertices' in i and len(i['vertices']) >= 3:
                    replay_float.append(([(float(a), float(b)) for a, b in i['vertices']], float(i['tolerance'])))
                elif i.get('stream') in ('magnitude', 'rational-tie') and 'vertices' in i:
                    (replay_mag if i['stream'] == 'magnitude' else replay_rat).append((i.get('class', 'replayed'), [(mag_unlit(a), mag_unlit(b)) for a, b in i['vertices']],
                                       mag_unlit(i['tolerance'])))
                elif i.get('stream') == 'lattice' and 'vertices' in i and len(i['vertices']) >= 3:
                    lit = lambda t: int(t) if t.strip().lstrip('+-').isdigit() else float(t)   # ints stay ints, doubles stay doubles
                    replay_lattice.append(([(lit(a), lit(b)) for a, b in i['vertices']], lit(i['tolerance'])))
        except Exception as ex:  # a replay file of another shape: ignore
            ctx.notes.append(f'replay not understood: {ex!r}')

    # ---------------- exact stream: model answers in one batch
    lines = []
    for pts, tol in cases:
        flat = ' '.join(frac_str(c) for p in pts for c in p)
        lines.append(f'c09 ss {frac_str(tol)} {flat}'.rstrip())
        lines.append(f'c09 pit {frac_str(tol)} {flat}'.rstrip())
        lines.append(f'c09 maxd {flat}'.rstrip())
    outs = ctx.driver.batch(lines) if ctx.driver else [None] * len(lines)
    neg_pred_logged = 0
    impl = get_impl(ctx, pu)
    for ci, (pts, tol) in enumerate(cases):
        m_ss, m_pit, m_maxd = outs[3 * ci: 3 * ci + 3]
        n = len(pts)
        key = (tuple(pts), tol)
        idx = check_supersample(ctx, pu, pts, tol, 0, 'exact')
        path = 'ss:noop-short' if n <= 2 else 'ss:noop-tol' if tol <= 0 else \
            ('ss:deleted' if idx is not None and len(idx) < n else 'ss:kept-all')
        if n >= 3 and pts[0] == pts[-1]:
            ctx.count(key, 'ss:zero-length-closing', True)
        ctx.count(key, path, n >= 3 and tol > 0)
        if idx is not None and len(idx) < n:
            ctx.sample({'vertices': [[str(a), str(b)] for a, b in pts], 'tolerance': str(tol), 'survivors': idx})
        if m_ss is not None and idx is not None:
            want = '-' if not idx else ','.join(map(str, idx))
            if m_ss != want:
                ctx.disagree('supersample survivors', {'vertices': [[str(a), str(b)] for a, b in pts], 'tolerance': str(tol)}, want, m_ss)
        # ---- predicate and reference
        inp = {'fn': 'points_in_tolerance', 'stream': 'exact', 'vertices': [[str(a), str(b)] for a, b in pts], 'tolerance': str(tol)}
        if n < 3:
            for fn, m in ((lambda: impl.pit(pts, tol, inp), m_pit), (lambda: impl.ref(pts, inp), m_maxd)):
                try:
                    r = fn(); got = 'value'
                except AssertionError:
                    got = 'ASSERT'
                except Exception as ex:
                    got = type(ex).__name__
                if m is not None and m != got:
                    ctx.disagree('short input', inp, got, m)
            continue
        try:
            pr = impl.pit(pts, tol, inp)
            ref = impl.ref(pts, inp)
        except Exception as ex:
            ctx.violate('points_in_tolerance / max_dist_from_n_points raised ' + type(ex).__name__, inp, repr(ex), 'a value')
            continue
        if tol > 0 and (ci % 3 == 0 or ci < n_replay or ci >= len(cases) - 12) and not ctx.violations:
            sequences(ctx, pu, pts, tol, 0, 'exact')
        d2s = [dist2(p, pts[0], pts[-1]) for p in pts[1:-1]]
        mx = max(d2s)
        worst = pts[1:-1][d2s.index(mx)]
        ctx.count(('pit',) + key, 'pit:' + region(worst, pts[0], pts[-1]) + (':eq' if mx == tol * tol else ''), True)
        if m_pit is not None and m_pit != str(bool(pr)):
            ctx.disagree('points_in_tolerance', inp, str(pr), m_pit)
        if m_maxd is not None:
            if F(m_maxd) != mx:
                # model's squared maximum vs the harness' exact one (second opinion on the Spec)
                ctx.disagree('maxDistSq vs exact clamp-projection distance', inp, str(mx), m_maxd)
            if abs(math.sqrt(mx) - ref) > REL * max(1.0, ref):
                ctx.disagree('max_dist_from_n_points vs sqrt(model maxDistSq)', inp, repr(ref), m_maxd)
        if tol < 0:
            if pr != (ref < tol) and neg_pred_logged < 3:
                neg_pred_logged += 1
                ctx.out_of_domain.append({'what': 'negative tolerance: points_in_tolerance compares with tolerance**2',
                                          'input': inp, 'predicate': pr, 'reference_max': ref})
            continue
        want = mx < tol * tol
        if pr is not want and pr != want:
            ctx.violate('points_in_tolerance disagrees with the exact maximum distance', inp, str(pr),
                        f'{want} (max squared distance {mx} vs tolerance^2 {tol * tol})')
        if abs(ref - float(tol)) > REL * max(float(tol), ref) and bool(pr) != (ref < tol):
            ctx.violate('points_in_tolerance disagrees with max_dist_from_n_points', inp, str(pr),
                        f'{ref < tol} (reference maximum {ref!r} vs tolerance {tol})')

    # ---------------- magnitude stream: tolerances at the ends of the number range / of every number type x ordinary lists
    magnitude_stream(ctx, pu, replay_mag)
    # ---------------- exact ties at non-dyadic tolerances in the exact non-float types (Fraction, Decimal, int), no band
    rational_tie_stream(ctx, pu, replay_rat)
    fstats = {'worst': 0.0, 'skipped': 0, 'flip': 0.0, 'worst_uD': 0.0}
    # ---------------- lattice stream: ints / dyadic doubles with EXACT ties on integer-length (Pythagorean) chords, no band
    lattice_stream(ctx, pu, fstats, replay_lattice)
    # ---------------- float stream (implementation + oracle only; the model is exact)
    float_case(ctx, pu, [(0.0, 0.0), (1000000001.0, 3.0), (1000000000.0, 0.0)], 2.0, fstats, 'float:large')
    float_case(ctx, pu, [(0.0, 0.0), (-1000000000.0, 3.0), (1.0, 0.0)], 2.0, fstats, 'float:large')
    for _ in range(ctx.n(6000)):
        pts, tol = gen_float_large(rng)
        float_case(ctx, pu, pts, tol, fstats, 'float:large')
    # long chord, interior vertex inside the chord's span at an offset around the tolerance (pinned, then generated)
    float_case(ctx, pu, [(0.0, 0.0), (2.0 ** 27, 1.0), (2.0 ** 28, 1.0), (3 * 2.0 ** 27, 0.0)], 0.5, fstats, 'float:long-inside')
    for _ in range(ctx.n(1500)):
        pts, tol = gen_float_long_inside(rng)
        float_case(ctx, pu, pts, tol, fstats, 'float:long-inside')
    for pts, tol in replay_float:
        fstats['n'] = 0                      # replayed cases always run the same-list sequences
        float_case(ctx, pu, pts, tol, fstats)
    for _ in range(ctx.n(10000)):
        n = rng.randint(3, 12)
        scale = 10.0 ** rng.randint(-2, 5)
        if rng.random() < 0.5:
            # near-collinear: points along a line with noise around the tolerance
            tol = scale * rng.choice([0.001, 0.01, 0.1])
            ang = rng.uniform(0, math.pi)
            ux, uy = math.cos(ang), math.sin(ang)
            x0, y0 = rng.uniform(-scale, scale), rng.uniform(-scale, scale)
            pts, s = [], 0.0
            for _k in range(n):
                s += rng.uniform(-0.2, 1.0) * scale / 4
                off = rng.choice([0.0, rng.uniform(-2, 2) * tol, tol, -tol, tol * (1 + 1e-12)])
                pts.append((x0 + s * ux - off * uy, y0 + s * uy + off * ux))
        else:
            tol = scale * rng.uniform(0.01, 1.5)
            pts = [(rng.uniform(-scale, scale), rng.uniform(-scale, scale)) for _k in range(n)]
        if rng.random() < 0.15:
            pts[-1] = pts[0]
        float_case(ctx, pu, pts, tol, fstats)
    ctx.notes.append(f"float stream: max relative error of max_dist_from_n_points vs exact = {fstats['worst']:.3e}; "
                     f"{fstats['skipped']} cases inside the band max({REL}, {KBAND}*u*D/tol) skipped for the predicate/reference comparison; "
                     f"in units of u*D (D = extent of the vertex list): worst |reference - exact| = {fstats['worst_uD']:.3f}, "
                     f"worst distance-from-tolerance of a flipped decision = {fstats['flip']:.3f} (band constant {KBAND})")

    # =================================================================================================
    # ---- the SOURCE-REGENERATED code (translator extension) ------------------------------------------
    # Gen.points_in_tolerance (lean/Plotink/Gen/points_in_tolerance.lean, regenerated from plot_utils.py on every
    # run; the definition the C09_gen_* theorems are about) and Gen.supersample (translated; bridge C09_gen_ss_bridge; the
    # in-place deletion becomes "return (None, new list)", both `while` loops run on fuel 2*len+5) against the real
    # functions:
    #   exact - Rounding.exact on the Fraction cases above (a `flt` under identity rounding is an exact rational);
    #   ieee  - Rounding.ieee on double cases: the boolean must be the one CPython computes (every intermediate
    #           double is modelled bit for bit; the only observable is the verdict).  Rounding.ieee has an unbounded
    #           exponent, so only inputs that are 0 or of magnitude in [1e-30, 1e30] are compared.
    gen_stream(ctx, pu, cases)
    # ======== "sitecov" input stream - self-contained, implemented at the end of this file; keep this call last ========
    _sitecov_tail(ctx)


GEN_FUNCTIONS = ['points_in_tolerance', 'supersample']
TRUSTED = TRUSTED + ['Gen.points_in_tolerance is regenerated from plot_utils.py on every run and proved equal to the hand model in '
                     'exact arithmetic (C09_gen_bridge); Gen.supersample is regenerated on every run and proved equal to the hand model '
                     'C09.supersample in exact arithmetic for every fuel >= len (C09_gen_ss_bridge; corollaries C09_gen_sublist, '
                     'C09_gen_deleted_close, C09_gen_noop, C09_gen_fuel); '
                     'not verified, validated by the generated-code stream of this run: the translator (for/while loops, slices, '
                     'in-place slice deletion as rebinding) and the Py.Val library, Rounding.ieee as binary64']


def _gv(v):
    if isinstance(v, int) and not isinstance(v, bool):
        return str(v)
    return 'f' + frac_str(F(v))


def _gpts(pts):
    return '[' + ','.join('[' + ','.join(_gv(c) for c in p) + ']' for p in pts) + ']'


def _float_lists(rng, count):
    """double vertex lists: near-collinear runs with offsets around the tolerance, random clouds, closed polygons,
    repeated points, points at exactly representable offsets (ties in `>=`)"""
    for _ in range(count):
        n = rng.randint(3, 9)
        scale = 10.0 ** rng.randint(-3, 5)
        k = rng.random()
        if k < 0.45:
            tol = scale * rng.choice([0.001, 0.01, 0.1])
            ang = rng.uniform(0, math.pi)
            ux, uy = math.cos(ang), math.sin(ang)
            x0, y0 = rng.uniform(-scale, scale), rng.uniform(-scale, scale)
            pts, s = [], 0.0
            for _k in range(n):
                s += rng.uniform(-0.2, 1.0) * scale / 4
                off = rng.choice([0.0, rng.uniform(-2, 2) * tol, tol, -tol, tol * (1 + 1e-12)])
                pts.append((x0 + s * ux - off * uy, y0 + s * uy + off * ux))
        elif k < 0.7:
            # dyadic coordinates: exact arithmetic in doubles, so equalities in the three `>=` tests really occur
            tol = rng.choice([0.5, 1.0, 1.5, 2.0, 0.25])
            pts = [(rng.randint(-8, 8) / 2, rng.randint(-8, 8) / 4) for _k in range(n)]
        else:
            tol = scale * rng.uniform(0.01, 1.5)
            pts = [(rng.uniform(-scale, scale), rng.uniform(-scale, scale)) for _k in range(n)]
        z = rng.random()
        if z < 0.15:
            pts[-1] = pts[0]
        elif z < 0.25:
            pts[rng.randrange(1, n)] = pts[rng.randrange(0, n - 1)]
        yield pts, tol


def gen_stream(ctx, pu, cases):
    if not ctx.driver:
        ctx.notes.append('generated-code stream skipped: no driver')
        return
    import time
    t_start = time.time()
    rng = ctx.rng
    jobs = [('exact', [(F(a), F(b)) for a, b in pts], F(tol)) for pts, tol in cases]
    for pts, tol in _float_lists(rng, ctx.n(6000)):
        if all(v == 0 or 1e-30 <= abs(v) <= 1e30 for p in pts for v in p) and 1e-30 <= abs(tol) <= 1e30:
            jobs.append(('ieee', pts, tol))
    for _ in range(ctx.n(400)):
        # ints / dyadic doubles with exact ties on integer-length chords (int / int true division, exact `>=` ties)
        core, full, tol = gen_tie(rng)
        jobs.append(('ieee', full, tol))
    lines = []
    for kind, pts, tol in jobs:
        dps = 'x15' if kind == 'exact' else '15'
        lines.append(f"gen points_in_tolerance {dps} {_gpts(pts)} {_gv(tol)}")
        lines.append(f"gen supersample {dps} {2 * len(pts) + 5} {_gpts(pts)} {_gv(tol)}")
    outs = ctx.driver.batch(lines)
    gimpl = get_impl(ctx, pu)
    n = {'exact': 0, 'ieee': 0}
    bad = {'exact': 0, 'ieee': 0}
    bad_ss = {'exact': 0, 'ieee': 0}
    for k, (kind, pts, tol) in enumerate(jobs):
        g, g_ss = outs[2 * k], outs[2 * k + 1]
        try:
            r = gimpl.pit(pts, tol, {'gen': kind})
            want = 'True' if r is True else 'False' if r is False else repr(r)
        except AssertionError:
            want = 'ERR'
        except Exception as ex:
            want = 'RAISE ' + type(ex).__name__
        n[kind] += 1
        ctx.count(('gen', kind, tuple(pts), tol), f'gen {kind}', False)
        inp = {'gen': kind, 'vertices': [[_gv(c) for c in p] for p in pts], 'tolerance': _gv(tol)}
        if g != want and not (want.startswith('RAISE') and g == 'ERR'):
            bad[kind] += 1
            ctx.disagree(f'Gen.points_in_tolerance (Rounding.{kind}) vs plot_utils.points_in_tolerance',
                         {'fn': 'points_in_tolerance', **inp}, want, g)
        work = [tuple(p) for p in pts]
        try:
            ret = pu.supersample(work, tol)
            want_ss = '(' + ('None' if ret is None else repr(ret)) + ' (' + \
                ' '.join('(' + ' '.join(_gv(c) for c in p) + ')' for p in work) + '))'
        except Exception as ex:
            want_ss = 'RAISE ' + type(ex).__name__
        if g_ss != want_ss and not (want_ss.startswith('RAISE') and 'ERR' in g_ss):
            bad_ss[kind] += 1
            ctx.disagree(f'Gen.supersample (Rounding.{kind}) vs plot_utils.supersample', {'fn': 'supersample', **inp},
                         want_ss, g_ss)
    ctx.notes.append(f"generated-code stream: Gen.points_in_tolerance and Gen.supersample vs the real functions: {n['exact']} Fraction "
                     f"cases under Rounding.exact ({bad['exact']} / {bad_ss['exact']} differ), {n['ieee']} double cases under "
                     f"Rounding.ieee, surviving vertex lists compared bit for bit ({bad['ieee']} / {bad_ss['ieee']} differ); "
                     f"{time.time() - t_start:.1f}s")



# ================================================================================================
# "sitecov" input stream (harness/sitecov.py, DESIGN 3c): every comparison of the CURRENT source of points_in_tolerance
# and supersample (which calls it) is driven to lhs == rhs and to either side - separately for the first executions of
# each site in a call (first / second / third inner vertex, first / second chord ...) - by exact moves on one coordinate
# of one vertex or on the tolerance (Fractions, tolerance >= 0); the inputs found go through run() itself (exact stream:
# real code on fresh vertex objects, Lean model, exact-distance oracle, second call, generated-code stream) and are
# additionally counted under the path 'sitecov'.
# Self-contained block at the end of the file on purpose (the body of `run` is untouched except for its last line).
# ================================================================================================
def _sitecov_plain_list(rng):
    """a vertex list WITHOUT structure (no collinear runs, repeats, reversals): random rationals, large denominators"""
    den = rng.choice([97, 1009, 10007])
    return [(F(rng.randint(-6 * den, 6 * den), den), F(rng.randint(-6 * den, 6 * den), den)) for _ in range(rng.randint(3, 8))]


def _sitecov_plain_tol(rng, pts):
    return F(rng.randint(1, 8 * 1009), 1009)


_SC_MAG = 1000


def _sitecov_domain(a):
    pts, tol = a
    if not (type(tol) in (int, F) and 0 <= tol <= _SC_MAG and len(pts) >= 3):
        return False
    # magnitudes of the module's own exact generators (the binary64 reference max_dist_from_n_points, which the exact
    # stream also consults, is only meaningful there: at 1e38 it is off by more than the whole figure)
    return all(len(p) == 2 and type(p[0]) in (int, F) and type(p[1]) in (int, F) and abs(p[0]) <= _SC_MAG and abs(p[1]) <= _SC_MAG
               for p in pts)


def _sitecov_rerun(ctx, cases):
    from . import sitecov
    payload = {'violations': [{'input': {'stream': 'exact', 'vertices': [[str(F(x)), str(F(y))] for (x, y) in pts],
                                         'tolerance': str(F(tol))}} for (pts, tol) in reversed(cases)]}
    sitecov.rerun_patched(ctx, globals(), over={'scale': 0}, replay=payload, patches={'exhaustive': lambda: []})


def _sitecov_tail(ctx):
    import os
    if getattr(ctx, '_in_sitecov', False) or getattr(ctx, '_only_main', False) or getattr(ctx, 'replay', None) \
            or os.environ.get('SITECOV_OFF'):
        return
    from . import sitecov
    from plotink import plot_utils as pu
    rng = ctx.rng
    only = bool(os.environ.get('SITECOV_ONLY'))
    seeds = []
    while len(seeds) < 140:
        pts = _sitecov_plain_list(rng) if only else gen_list(rng)
        tol = _sitecov_plain_tol(rng, pts) if only else gen_tol(rng, pts)
        if 3 <= len(pts) <= 8 and tol >= 0:
            seeds.append(([tuple(p) for p in pts], F(tol)))
    mv = sitecov.Moves(domain=_sitecov_domain, lo={(1,): 0}, groups=lambda path, v: 'xy'[path[-1]] if path[0] == 0 else None)
    sitecov.stream(ctx, 'points_in_tolerance', pu.points_in_tolerance, seeds, rerun=lambda cs: _sitecov_rerun(ctx, cs),
                   moves=mv, budget=2500, max_inputs=200)
    sitecov.stream(ctx, 'supersample', pu.supersample, seeds, rerun=lambda cs: _sitecov_rerun(ctx, cs),
                   moves=mv, budget=2000, max_inputs=200)


import os as _os      # noqa: E402
if _os.environ.get('SITECOV_ONLY'):
    # EXPERIMENT ONLY (measures what the sitecov stream finds on its own): the exhaustive lattice lists and the
    # structured generators (collinear runs, repeats, exact-boundary tolerances) are disabled; the five pinned
    # witnesses written inline in run() and the float stream stay (they cannot be switched off from here)
    from . import sitecov as _sc
    _sc.only_mode(globals(), tail=_sitecov_tail,
                  patches={'exhaustive': lambda: [], 'gen_list': _sitecov_plain_list, 'gen_tol': _sitecov_plain_tol},
                  note='exhaustive lattice lists and structured generators (collinear runs, repeats, reversals, exact-boundary '
                       'tolerances) are disabled; exact inputs = unbiased random rational lists + 5 inline pinned witnesses + the '
                       'sitecov stream')
