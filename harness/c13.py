"""C13 — grid index: nearest() returns a live path end that no neighbouring end beats.

Correspondence: the real `spatial_grid.Index` run on `Fraction` vertices (every operation the class uses —
min/max, /, math.floor, comparison with math.inf — is exact on Fractions) against the Lean model
`Plotink.C13.{build, nearest, remove}` through the driver: geometry, cells and lookup after construction and at
the end of the history, and the identifier returned by every query, must be equal.

Oracle (independent of the model, written from the property statement): after every query
  * None  <=>  no path remains;
  * otherwise the result names an end of a path that has not been removed (a start, or an end only if reversal
    is enabled);
  * no remaining end whose grid cell is the query's cell or one of its eight neighbours is strictly closer
    (cells are computed here with exact arithmetic from the object's xmin/ymin/bin sizes, clamped into the grid);
  * when no remaining end lies in those cells the result is a globally closest remaining end;
  * when the query is inside the grid and some remaining end lies within one cell width (min of the two bin
    sizes), the result is a globally closest remaining end.
The float stream is judged by the same oracle; the relative distance slack FLOAT_REL is applied only to queries in
which some squared distance is not exactly representable in binary64 (ints, Fractions and integer/dyadic floats below
2^53 are judged with zero tolerance); cells within rounding error of a border are ambiguous (see `ambiguous`).
"""
import math
from fractions import Fraction as F
from .common import frac_str

RULE = ('histories = (vertex set, bins 1..6, reverse, interleaving of queries and removals); generators: pinned corpus '
        '(corpus/C13/*.json: index-0 fall-through, empty index, witnesses of the trial mutations); small-exhaustive '
        '(2 paths with ends on a 5-point stencil = 625 geometries [1/5 of them per seed on quick, all on thorough] x bins '
        '1..3 x both reverse values x all 4 removal prefixes, probes on a half-integer lattice incl. outside points and a '
        'cell-border probe); random Fraction histories (lattice coordinates with many ties, collinear starts with zero '
        'extent in one axis, coincident ends, wide rationals; queries at ends, midpoints of two ends, exactly on / just '
        'beside cell and grid borders, outside the grid, random; the last query is re-asked on the same object after '
        'every other removal); pairs of Index objects built one after the other with interleaved histories; '
        'large-coordinate near ties (two ends at distance 2^20..2^40 whose exact squared distances differ by 1..4, the '
        'farther one inserted first) as Fractions (compared with the model), Python ints and integer-valued floats (judged '
        'with ZERO distance tolerance: binary64 squared distances are exact below 2^53); float histories incl. offsets '
        '1e6..1e12 (oracle only, relative slack only when a squared distance is not exactly representable); a query is non-trivial when '
        'at least one path is live; distinct by (geometry, removed set, query)')
TRUSTED = ['Lean model Plotink.C13 as a reading of spatial_grid.Index (validated by the exact correspondence run)',
           'Python Fraction arithmetic / math.floor on Fractions is exact',
           'float stream: binary64 rounding in floor((x-xmin)/bin) and in the distances is outside the model '
           '(judged against the oracle with tolerance only)']
ASSUMPTIONS = ['float inputs: |coordinates| small enough that the squared distances do not overflow (the generators stay below 1e13)',
               'non-zero extent: the indexed ends (starts, and ends when reversal is enabled) do not all coincide '
               '(otherwise __init__ divides by zero) and there is at least one path; bins >= 1',
               'remove_path is called with identifiers of paths that are still present (Python raises ValueError otherwise)',
               'coordinates are finite']
STAGED = []

FLOAT_REL = 1e-9      # relative slack on squared distances in the float stream (measured: see report)
FLOAT_BIN_EPS = 1e-12  # absolute part of the bin-coordinate ambiguity band (see `ambiguous`)


# ------------------------------------------------------------------------------------------------
# oracle
# ------------------------------------------------------------------------------------------------
TIE_SCALE = 4   # once the tie is broken the failing-input search runs at this multiple of the budget (default 10; this check is slow)

def fr(x):
    return x if isinstance(x, F) else F(x)


def sq(a, b):
    dx = fr(a[0]) - fr(b[0])
    dy = fr(a[1]) - fr(b[1])
    return dx * dx + dy * dy


def geo_of(idx):
    return (F(idx.xmin), F(idx.ymin), F(idx.bin_size_x), F(idx.bin_size_y), idx.bins_per_side)


def frac_bin(x, lo, size):
    return (F(x) - lo) / size


def clamp_bin(t, bins):
    return max(min(math.floor(t), bins - 1), 0)


def cell_of(p, geo):
    xmin, ymin, bx, by, bins = geo
    return (clamp_bin(frac_bin(p[0], xmin, bx), bins), clamp_bin(frac_bin(p[1], ymin, by), bins))


def ambiguous(p, geo, eps):
    """float stream only: the code computes floor((x - xmin) / size) in binary64; the cell is treated as ambiguous when
    the exact quotient is within the rounding error of an integer (error model: a few ulps of the operands' magnitude
    relative to the bin size, plus `eps`)"""
    xmin, ymin, bx, by, bins = geo
    for x, lo, size in ((F(p[0]), xmin, bx), (F(p[1]), ymin, by)):
        t = (x - lo) / size
        err = eps + F(1, 2 ** 49) * (abs(x) + abs(lo)) / abs(size) + F(1, 2 ** 49) * abs(t)
        if abs(t - round(t)) <= err:
            return True
    return False


def live_ends(verts, n, rev, alive):
    ends = {k: verts[k][0] for k in alive}
    if rev:
        ends.update({k + n: verts[k][1] for k in alive})
    return ends


def binary64_sq_exact(a, b):
    """is the binary64 evaluation of dx*dx + dy*dy (the statement's squared distance, evaluated the way a float
    program must) exact for these two points?  Python ints and Fractions are always exact."""
    if not any(isinstance(c, float) for c in (a[0], a[1], b[0], b[1])):
        return True
    dx = float(a[0]) - float(b[0])
    dy = float(a[1]) - float(b[1])
    return F(dx * dx + dy * dy) == sq(a, b)


def judge(ctx, inp, r, verts, n, rev, alive, q, geo, exact, cache):
    """the property statement, for one query; returns the model-path label for the evidence.
    `exact`: the geometry (xmin, bin sizes, floor) is exact, i.e. Fraction inputs; otherwise cells within rounding
    error of a border are treated as ambiguous.  Distances are judged with ZERO tolerance whenever the squared
    distances of all live ends are exactly representable (Fractions, ints, integer/dyadic floats below 2^53); the
    relative slack FLOAT_REL is used only for genuinely inexact float inputs.
    `cache` memoises, per history, the cell (and for floats the ambiguity) of each end: they depend on the fixed
    geometry only"""
    ends = live_ends(verts, n, rev, alive)
    if not ends:
        if r is not None:
            ctx.violate('nearest returned an identifier although no path remains', inp, repr(r), 'None')
        return 'none'
    if r is None:
        ctx.violate('nearest returned None although paths remain', inp, 'None', f'one of {sorted(ends)}')
        return 'none'
    if isinstance(r, bool) or not isinstance(r, int) or r not in ends:
        is_id = isinstance(r, int) and not isinstance(r, bool)
        if is_id and 0 <= r < n:
            what = 'nearest returned the start of a removed path'
        elif is_id and n <= r < 2 * n and not rev:
            what = 'nearest returned a path end although reversal is disabled'
        elif is_id and n <= r < 2 * n:
            what = 'nearest returned the end of a removed path'
        else:
            what = 'nearest returned something that is not an end identifier'
        ctx.violate(what, inp, repr(r), f'one of {sorted(ends)}', key='dead-or-invalid-id')
        return 'bad-id'
    dist = {k: sq(q, p) for k, p in ends.items()}
    dr = dist[r]
    if exact or all(binary64_sq_exact(q, p) for p in ends.values()):
        slack = F(0)
    else:
        slack = F(FLOAT_REL) * dr + F(10) ** -300
    qc = cell_of(q, geo)

    def cell(k):
        if k not in cache:
            cache[k] = cell_of(ends[k], geo)
        return cache[k]
    nb = {k: p for k, p in ends.items() if abs(cell(k)[0] - qc[0]) <= 1 and abs(cell(k)[1] - qc[1]) <= 1}
    if exact:
        nb_sure, all_sure = nb, True
    else:
        eps = F(FLOAT_BIN_EPS)
        for k, p in ends.items():
            if ('a', k) not in cache:
                cache[('a', k)] = ambiguous(p, geo, eps)
        amb = {k for k in ends if cache[('a', k)]}
        q_amb = ambiguous(q, geo, eps)
        nb_sure = {} if q_amb else {k: p for k, p in nb.items() if k not in amb}
        all_sure = not q_amb and not amb
    none_sure = (not nb) and all_sure
    beat = [k for k in nb_sure if dist[k] < dr - slack]
    if beat:
        ctx.violate('a remaining end in the query cell or one of its eight neighbours is strictly closer', inp,
                    f'returned {r} at squared distance {frac_str(dr)}',
                    f'end {beat[0]} at squared distance {frac_str(dist[beat[0]])} (cell {cell(beat[0])}, query cell {qc})',
                    key='beaten-by-neighbour')
    dmin = min(dist.values())
    if none_sure and dmin < dr - slack:
        ctx.violate('neighbourhood empty but the result is not the globally closest remaining end', inp,
                    f'returned {r} at squared distance {frac_str(dr)}', f'minimum is {frac_str(dmin)}', key='not-global')
    xmin, ymin, bx, by, bins = geo
    ingrid = xmin <= F(q[0]) <= xmin + bins * bx and ymin <= F(q[1]) <= ymin + bins * by
    w = min(bx, by)
    within = dmin <= w * w if exact else (all_sure and dmin <= w * w * (1 - F(FLOAT_REL)))   # w itself is a rounded float
    if ingrid and within and dmin < dr - slack:
        ctx.violate('in-grid query with an end within one cell width: result is not the true nearest end', inp,
                    f'returned {r} at squared distance {frac_str(dr)}', f'minimum is {frac_str(dmin)}', key='not-true-nearest')
    if not nb:
        return 'global-fallback'
    if r == 0:
        return 'zero-fallthrough'
    if r not in nb:
        return 'zero-fallthrough-then-global'
    return 'neighbourhood'


# ------------------------------------------------------------------------------------------------
# generators
# ------------------------------------------------------------------------------------------------
def zero_extent(verts, rev):
    pts = [v[0] for v in verts] + ([v[1] for v in verts] if rev else [])
    if not pts:
        return True
    return (max(p[0] for p in pts) - min(p[0] for p in pts) + max(p[1] for p in pts) - min(p[1] for p in pts)) == 0


def rnd_coord(rng, style):
    if style == 'lattice':
        return F(rng.randint(-3, 4))
    if style == 'halves':
        return F(rng.randint(-6, 8), rng.choice([1, 2, 3]))
    if style == 'wide':
        return F(rng.randint(-10 ** 6, 10 ** 6), rng.choice([1, 7, 1000]))
    return F(rng.randint(-40, 40), rng.choice([1, 2, 3, 5, 8]))


def gen_verts(rng, n, style, rev):
    shape = rng.random()
    g = lambda: rnd_coord(rng, style)
    if shape < 0.12:      # vertical or horizontal line of starts: one extent is zero, the shim alone makes the bins
        c = g()
        if rng.random() < 0.5:
            verts = [[[c, g()], [c if rev else g(), g()]] for _ in range(n)]
        else:
            verts = [[[g(), c], [g(), c if rev else g()]] for _ in range(n)]
    elif shape < 0.2:     # many coincident ends
        pool = [[g(), g()] for _ in range(2)]
        verts = [[list(rng.choice(pool)), list(rng.choice(pool))] for _ in range(n)]
    else:
        verts = [[[g(), g()], [g(), g()]] for _ in range(n)]
    return verts


def gen_queries_exact(rng, verts, n, rev, geo, style):
    """a pool of interesting query points (exact)"""
    xmin, ymin, bx, by, bins = geo
    pool = []
    ends = [v[0] for v in verts] + [v[1] for v in verts]
    for _ in range(3):
        a, b = rng.choice(ends), rng.choice(ends)
        pool.append([a[0], a[1]])                               # on an end
        pool.append([(a[0] + b[0]) / 2, (a[1] + b[1]) / 2])     # equidistant from two ends
    for _ in range(3):                                          # cell borders (incl. grid border) and just beside them
        i, j = rng.randint(0, bins), rng.randint(0, bins)
        ex = rng.choice([0, 0, F(1, 1000), F(-1, 1000), F(1, 2)]) * bx
        ey = rng.choice([0, 0, F(1, 1000), F(-1, 1000), F(1, 2)]) * by
        pool.append([xmin + i * bx + ex, ymin + j * by + ey])
    for _ in range(2):                                          # outside the grid
        pool.append([xmin + rng.choice([-3, -1, bins + 1, bins + 4]) * bx * rng.choice([1, F(1, 3)]),
                     ymin + rng.randint(-2, bins + 2) * by * rng.choice([1, F(1, 2)])])
        pool.append([xmin + rng.randint(-2, bins + 2) * bx, ymin + rng.choice([-2, -1, bins + 1, bins + 3]) * by])
    for _ in range(3):
        pool.append([rnd_coord(rng, style), rnd_coord(rng, style)])
        pool.append([xmin + F(rng.randint(0, 1000), 1000) * bins * bx, ymin + F(rng.randint(0, 1000), 1000) * bins * by])
    return pool


def gen_history(rng, max_paths, max_ops):
    style = rng.choice(['lattice', 'lattice', 'halves', 'mixed', 'wide'])
    n = rng.randint(1, max_paths)
    bins = rng.choice([1, 2, 2, 3, 3, 4, 5, 6])
    rev = rng.random() < 0.5
    verts = gen_verts(rng, n, style, rev)
    return style, n, bins, rev, verts, rng.randint(1, max_ops)


def exhaustive_small():
    """<= 2 paths with ends on a 3x3 lattice would be 9^4 geometries; take the 2-path geometries whose four ends
    come from a fixed 5-point stencil (corner, edge, centre), every bins 1..3, both reverse values, both removal
    orders; queries on a probe lattice that includes the ends, cell borders and points outside."""
    st = [(0, 0), (2, 0), (1, 1), (0, 2), (2, 2)]
    out = []
    for a in st:
        for b in st:
            for c in st:
                for d in st:
                    out.append([[list(map(F, a)), list(map(F, b))], [list(map(F, c)), list(map(F, d))]])
    return out


# ------------------------------------------------------------------------------------------------
# running one history on the implementation
# ------------------------------------------------------------------------------------------------
def dump_impl(idx):
    cs = ';'.join(','.join(str(i) for i in c) for c in idx.grid)
    lk = ','.join(str(i) for i in idx.lookup)
    return (f'geo={frac_str(F(idx.xmin))},{frac_str(F(idx.ymin))},{frac_str(F(idx.bin_size_x))},{frac_str(F(idx.bin_size_y))}'
            f'|cells={cs}|lookup={lk}')


def fmt_verts(verts):
    return [[[frac_str(F(c)) for c in p] for p in v] for v in verts]


def conv(x, mode):
    """coordinates travel as exact rationals; `mode` says which Python type the implementation is given"""
    if mode == 'int':
        return int(x)
    if mode == 'float':
        return float(x)
    return F(x)


class Session:
    """one Index object driven through a history; every query is judged; exact sessions are queued for the model.
    Several sessions can be alive at the same time (`group`): the violation input then records all instances and
    the interleaved history, so that it can be replayed."""

    def __init__(self, ctx, sg, verts, bins, rev, mode, tag, group=None):
        self.ctx, self.sg, self.verts, self.bins, self.rev, self.mode, self.tag = ctx, sg, verts, bins, rev, mode, tag
        self.exact = mode == 'exact'
        self.n = len(verts)
        self.base = {'vertices': fmt_verts(verts), 'bins': bins, 'reverse': rev, 'mode': mode}
        self.group = group
        self.inst = None
        self.idx = None
        self.dead = False

    def inp(self):
        if self.group is None:
            return dict(self.base, history=[list(h) for h in self.hist])
        return {'instances': [dict(x.base) for x in self.group.sessions], 'instance': self.inst,
                'history': [list(h) for h in self.group.hist]}

    def log(self, entry):
        self.hist.append(entry)
        if self.group is not None:
            self.group.hist.append([self.inst] + entry)

    def open(self):
        ctx, verts, rev, bins, base = self.ctx, self.verts, self.rev, self.bins, self.base
        self.hist = []
        if zero_extent(verts, rev):
            if len(ctx.out_of_domain) < 10 and not any(o['input']['vertices'] == base['vertices'] and o['input']['reverse'] == rev
                                                       for o in ctx.out_of_domain):
                try:
                    self.sg.Index([[list(v[0]), list(v[1])] for v in verts], bins, rev)
                    seen = 'constructed'
                except Exception as ex:
                    seen = type(ex).__name__
                longp = any(list(v[0]) != list(v[1]) for v in verts)
                ctx.out_of_domain.append({'what': 'zero extent: all indexed ends coincide (shim = 0), outside "paths with non-zero extent"'
                                          + ('; reversal disabled, the paths themselves are not degenerate' if longp and not rev else ''),
                                          'input': base, 'constructor': seen})
            ctx.c13_zero_extent = getattr(ctx, 'c13_zero_extent', 0) + 1
            return False
        try:
            self.idx = self.sg.Index([[list(v[0]), list(v[1])] for v in verts], bins, rev)
        except Exception as ex:
            ctx.count((self.tag, repr(base)))
            ctx.violate('Index() raised on a path set with non-zero extent', self.inp(), repr(ex), 'an index')
            return False
        self.geo = geo_of(self.idx)
        if self.geo[2] == 0 or self.geo[3] == 0:
            ctx.count((self.tag, repr(base)))
            ctx.violate('Index() produced a zero bin size on a path set with non-zero extent', self.inp(),
                        f'{frac_str(self.geo[2])}, {frac_str(self.geo[3])}', 'non-zero bin sizes')
            return False
        self.alive = set(range(self.n))
        self.cache = {}
        self.removed = []
        self.toks = ['c13', str(bins), '1' if rev else '0', str(self.n)]
        for v in verts:
            self.toks += [frac_str(F(v[0][0])), frac_str(F(v[0][1])), frac_str(F(v[1][0])), frac_str(F(v[1][1]))]
        self.toks.append('d')
        self.impl_out = ['OK', dump_impl(self.idx)]
        return True

    def do(self, op):
        ctx, idx = self.ctx, self.idx
        if self.dead:
            return
        if op[0] == 'r':
            k = op[1]
            self.log(['remove', k])
            try:
                idx.remove_path(k)
            except Exception as ex:
                ctx.count((self.tag, repr(self.base), repr(self.hist)))
                ctx.violate('remove_path raised for a path that is still present', self.inp(), repr(ex), 'removal')
                self.impl_out.append('ERR')
                self.toks += ['r', str(k)]
                self.dead = True
                return
            self.alive.discard(k)
            self.removed.append(k)
            self.toks += ['r', str(k)]
            self.impl_out.append('ok')
        else:
            q = op[1]
            self.log(['nearest', [frac_str(F(q[0])), frac_str(F(q[1]))]])
            inp = self.inp()
            try:
                r = idx.nearest(list(q))
            except Exception as ex:
                ctx.count((self.tag, repr(self.base), repr(self.hist)))
                ctx.violate('nearest raised', inp, repr(ex), 'an identifier or None')
                self.impl_out.append('EXC')
                self.toks += ['q', frac_str(F(q[0])), frac_str(F(q[1]))]
                return
            path = judge(ctx, inp, r, self.verts, self.n, self.rev, self.alive, q, self.geo, self.exact, self.cache)
            ctx.count((repr(self.base), tuple(sorted(self.removed)), frac_str(F(q[0])), frac_str(F(q[1]))),
                      f'{self.tag}:{path}', nontrivial=bool(self.alive))
            if r == 0 or path.startswith('zero'):
                ctx.sample({'input': inp, 'returned': r, 'path': path}, cap=6)
            ctx.sample({'input': inp, 'returned': r, 'path': path})
            self.toks += ['q', frac_str(F(q[0])), frac_str(F(q[1]))]
            self.impl_out.append('N' if r is None else str(r))

    def close(self, lines, metas):
        if self.idx is None:
            return
        self.toks.append('d')
        self.impl_out.append(dump_impl(self.idx))
        if self.exact:
            lines.append(' '.join(self.toks))
            metas.append((dict(self.base, history=self.hist), self.impl_out))


class Group:
    def __init__(self):
        self.sessions = []
        self.hist = []


def run_history(ctx, sg, verts, bins, rev, ops_plan, exact, lines, metas, tag, mode=None):
    """ops_plan(idx, geo, alive) -> iterable of ('q', [x,y]) / ('r', k); executes on the real Index, judges each
    query, and queues the same history for the model (exact histories only)"""
    mode = mode or ('exact' if exact else 'float')
    s = Session(ctx, sg, verts, bins, rev, mode, tag)
    if not s.open():
        return
    for op in ops_plan(s.idx, s.geo, s.alive):
        s.do(op)
        if s.dead:
            break
    s.close(lines, metas)


def run_group(ctx, sg, specs, plans, order_rng, lines, metas, tag):
    """several Index objects built one after the other (all constructors first), then their histories interleaved:
    state must not leak between instances (class-level lists, caches keyed on too little).
    specs = [(verts, bins, rev, mode)], plans = [ops_plan]; order_rng picks whose turn it is (None: round robin)"""
    g = Group()
    for i, (verts, bins, rev, mode) in enumerate(specs):
        s = Session(ctx, sg, verts, bins, rev, mode, tag, group=g)
        s.inst = i
        g.sessions.append(s)
    opened = [s for s in g.sessions if s.open()]
    if len(opened) != len(g.sessions):
        for s in opened:          # a zero-extent member: run the others on their own
            s.group = None
    gens = [(s, iter(plans[s.inst](s.idx, s.geo, s.alive))) for s in opened]
    turn = 0
    while gens:
        i = order_rng.randrange(len(gens)) if order_rng is not None else turn % len(gens)
        turn += 1
        s, it = gens[i]
        op = next(it, None)
        if op is None or s.dead:
            gens.pop(i)
            continue
        s.do(op)
    for s in opened:
        s.close(lines, metas)


def random_plan(rng, verts, n, rev, nops, style, exact):
    def plan(idx, geo, alive):
        pool = gen_queries_exact(rng, verts, n, rev, geo, style)
        if not exact:
            pool = [[float(p[0]), float(p[1])] for p in pool]
        asked = []
        for _ in range(nops):
            if alive and rng.random() < 0.35:
                yield ('r', rng.choice(sorted(alive)))
                if asked and rng.random() < 0.7:      # the same query again, on the same object, after the removal
                    yield ('q', asked[-1])
                    if len(asked) > 1 and rng.random() < 0.3:
                        yield ('q', rng.choice(asked))
            else:
                q = rng.choice(pool)
                asked.append(q)
                yield ('q', q)
        if rng.random() < 0.3:            # run down to the empty index
            for k in sorted(alive, key=lambda _: rng.random()):
                yield ('r', k)
                yield ('q', rng.choice(asked) if asked and rng.random() < 0.5 else rng.choice(pool))
    return plan


# ------------------------------------------------------------------------------------------------
# large-coordinate near ties
# ------------------------------------------------------------------------------------------------
def gen_near_tie(rng, mode):
    """two live ends A, B at huge distance from the query whose exact squared distances differ by 1..4, the farther
    one (A) inserted first (lower path id, or the end of an earlier path), all other ends clearly farther.
    Integer coordinates: every squared distance is an integer; for mode 'int'/'float' the magnitudes keep them below
    2^53, so binary64 evaluates them exactly and the answer is judged with zero tolerance."""
    if mode == 'exact':
        k = rng.choice([20, 23, 25, 26, 26, 27, 27, 28, 30, 33, 40])
        D = 2 ** k + rng.choice([0, 0, 1, 10, rng.randint(0, 2 ** (k - 2))])
    else:
        D = rng.choice([2 ** 26, 2 ** 26, 2 ** 26 + rng.randint(0, 1000), rng.randint(2 ** 26, 94906000)])
    lo, hi = rng.choice([(0, 1), (0, 1), (1, 2), (0, 2)])
    if mode != 'exact' and D * D + hi * hi > 2 ** 53:
        lo, hi = 0, 1
    x0, y0 = rng.randint(-1000, 1000), rng.randint(-1000, 1000)
    sx, sy = rng.choice([-1, 1]), rng.choice([-1, 1])
    swap = rng.random() < 0.5

    def pt(dx, dy):
        return [y0 + dy, x0 + dx] if swap else [x0 + dx, y0 + dy]
    A = pt(sx * D, sy * hi)          # farther by hi^2 - lo^2 in 1..4
    B = pt(sx * D, sy * lo)

    def far():                        # clearly farther than A from the query, on either side
        if mode == 'exact':
            m = D + rng.randint(10, max(11, D // 2))
        else:
            m = rng.randint(D + 10, 94906200)
        return pt(rng.choice([-1, 1]) * m, rng.randint(-500, 500))
    rev = rng.random() < 0.5
    nfill = rng.randint(0, 3)
    layout = rng.choice(['starts', 'starts', 'end-then-start', 'start-then-own-end']) if rev else 'starts'
    paths = [[far(), far()] for _ in range(nfill)]
    if layout == 'starts':
        pa, pb = [A, far()], [B, far()]
        tail = [pa] + [[far(), far()] for _ in range(rng.randint(0, 1))] + [pb]
    elif layout == 'end-then-start':
        tail = [[far(), A], [B, far()]]
    else:
        tail = [[A, B]]
    pos = rng.randint(0, len(paths))
    verts = paths[:pos] + tail + paths[pos:]
    bins = rng.choice([1, 1, 2, 2, 2, 3, 4])
    q = pt(0, 0)
    nq = len(verts)
    ia = next(i for i, v in enumerate(verts) if v[0] is A or v[1] is A)
    ib = next(i for i, v in enumerate(verts) if v[0] is B or v[1] is B)
    others = [i for i in range(nq) if i not in (ia, ib)]
    ops = [('q', q)]
    if others and rng.random() < 0.5:
        ops += [('r', rng.choice(others)), ('q', q)]
    if ib != ia:
        ops += [('r', ib), ('q', q)]
    verts = [[[conv(c, mode) for c in p] for p in v] for v in verts]
    ops = [(o[0], [conv(c, mode) for c in o[1]]) if o[0] == 'q' else o for o in ops]
    return verts, bins, rev, ops


def compare_model(ctx, lines, metas):
    if not ctx.driver or not lines:
        return
    outs = ctx.driver.batch(lines)
    for (inp, impl_out), out in zip(metas, outs):
        mt = out.split(' ')
        if mt[0] != 'OK':
            ctx.disagree('model build fails where the implementation builds', inp, impl_out[:2], out)
            continue
        ids = [t.split(':')[0] if (':' in t and not t.startswith('geo=')) else t for t in mt]
        if ids != impl_out:
            k = next((i for i, (a, b) in enumerate(zip(ids, impl_out)) if a != b), min(len(ids), len(impl_out)))
            ctx.disagree(f'history diverges at answer {k}', inp, impl_out[k:k + 2], ids[k:k + 2])
        for t in mt:
            if t.endswith(':0'):
                ctx.disagree('Lean specCheck rejects the model answer (second opinion)', inp, impl_out, out)
                break


# ------------------------------------------------------------------------------------------------
def parse_spec(c):
    mode = c.get('mode', 'exact')
    verts = [[[conv(F(x), mode) for x in p] for p in v] for v in c['vertices']]
    return verts, int(c['bins']), bool(c['reverse']), mode


def parse_op(h, mode):
    if h[0] == 'remove':
        return ('r', int(h[1]))
    return ('q', [conv(F(h[1][0]), mode), conv(F(h[1][1]), mode)])


def fixed_plan(ops):
    def plan(idx, geo, alive):
        for op in ops:
            yield op
    return plan




def run_cases(ctx, sg, cases, lines, metas, tag):
    for c in cases:
        try:
            if 'instances' in c:
                specs = [parse_spec(x) for x in c['instances']]
                hist = c.get('history', [])
            else:
                verts, bins, rev, mode = parse_spec(c)
                ops = [parse_op(h, mode) for h in c.get('history', [])]
        except Exception:
            continue
        if 'instances' in c:
            # replay the interleaving literally: all constructors first, then the recorded order
            g = Group()
            for i, (verts, bins, rev, mode) in enumerate(specs):
                ses = Session(ctx, sg, verts, bins, rev, mode, tag, group=g)
                ses.inst = i
                g.sessions.append(ses)
            if not all(ses.open() for ses in g.sessions):
                continue
            for h in hist:
                ses = g.sessions[int(h[0])]
                ses.do(parse_op(h[1:], ses.mode))
            for ses in g.sessions:
                ses.close(lines, metas)
        else:
            run_history(ctx, sg, verts, bins, rev, fixed_plan(ops), mode == 'exact', lines, metas, tag, mode=mode)


def run(ctx):
    import json, os
    from plotink import spatial_grid as sg
    rng = ctx.rng
    lines, metas = [], []

    # replay of a recorded failing input (./check C13 --replay file)
    if getattr(ctx, 'replay', None):
        rep = json.load(open(ctx.replay))
        run_cases(ctx, sg, [v['input'] for v in rep.get('violations', []) if isinstance(v.get('input'), dict)]
                  + [d['input'] for d in rep.get('model_vs_implementation', []) if isinstance(d.get('input'), dict)],
                  lines, metas, 'replay')

    # 0. pinned witnesses (index-0 fall-through, empty index, histories that exposed the trial mutations)
    cdir = os.path.join(os.path.dirname(os.path.dirname(os.path.abspath(__file__))), 'corpus', 'C13')
    if os.path.isdir(cdir):
        for fn in sorted(os.listdir(cdir)):
            if fn.endswith('.json'):
                run_cases(ctx, sg, json.load(open(os.path.join(cdir, fn))), lines, metas, 'pinned')
    v0 = [[[F(0), F(0)], [F(10), F(10)]], [[F(10), F(0)], [F(0), F(10)]]]
    run_history(ctx, sg, v0, 3, False, fixed_plan([('q', [F(0), F(0)]), ('q', [F(1), F(1)]), ('r', 0), ('q', [F(0), F(0)]),
                                                   ('r', 1), ('q', [F(0), F(0)])]), True, lines, metas, 'pinned')

    # 1. exhaustive small
    probes = [F(k, 2) for k in range(-2, 7)]          # -1 .. 3 in halves: ends, midpoints, outside
    small = exhaustive_small()
    step = 1 if ctx.tier == 'thorough' else 5
    off = rng.randrange(step)
    for gi, verts in enumerate(small):
        if gi % step != off:
            continue
        for bins in (1, 2, 3):
            for rev in (False, True):
                for order in ((), (0,), (1,), (0, 1)):
                    qs = [[rng.choice(probes), rng.choice(probes)] for _ in range(3)]

                    def plan(idx, geo, alive, order=order, qs=qs):
                        for k in order:
                            yield ('r', k)
                        for q in qs:
                            yield ('q', q)
                        # cell-border probe
                        yield ('q', [geo[0] + rng.randint(0, geo[4]) * geo[2], geo[1] + rng.randint(0, geo[4]) * geo[3]])
                    run_history(ctx, sg, verts, bins, rev, plan, True, lines, metas, 'small')

    # 2. random exact histories
    maxp = 8 if ctx.tier == 'quick' else 40
    for _ in range(ctx.n(6000)):
        style, n, bins, rev, verts, nops = gen_history(rng, maxp, 12)
        run_history(ctx, sg, verts, bins, rev, random_plan(rng, verts, n, rev, nops, style, True), True, lines, metas, 'exact')

    # 2b. two Index objects built one after the other, histories interleaved (state must not leak between instances)
    for _ in range(ctx.n(1200)):
        specs, plans = [], []
        for _i in range(2):
            style, n, bins, rev, verts, nops = gen_history(rng, maxp, 8)
            specs.append((verts, bins, rev, 'exact'))
            plans.append(random_plan(rng, verts, n, rev, nops, style, True))
        if rng.random() < 0.3:      # same vertex list object contents, different bins / reverse
            specs[1] = ([[list(p) for p in v] for v in specs[0][0]], rng.choice([1, 2, 3, 4, 5, 6]), not specs[0][2], 'exact')
            plans[1] = random_plan(rng, specs[1][0], len(specs[1][0]), specs[1][2], 6, 'lattice', True)
        run_group(ctx, sg, specs, plans, rng, lines, metas, 'pair')

    # 2c. large-coordinate near ties, exact (Fractions): squared distances differing by 1..4 at distance 2^20..2^40
    for _ in range(ctx.n(500)):
        verts, bins, rev, ops = gen_near_tie(rng, 'exact')
        run_history(ctx, sg, verts, bins, rev, fixed_plan(ops), True, lines, metas, 'neartie-exact')

    compare_model(ctx, lines, metas)

    # 2d. the same near ties given as Python ints and as integer-valued floats: binary64 squared distances are exact
    #     below 2^53, so the answer is judged with zero distance tolerance (cells with the rounding band)
    for mode in ('int', 'float'):
        for _ in range(ctx.n(400)):
            verts, bins, rev, ops = gen_near_tie(rng, mode)
            run_history(ctx, sg, verts, bins, rev, fixed_plan(ops), False, lines, metas, 'neartie-' + mode, mode=mode)

    # 3. float histories: oracle only
    for _ in range(ctx.n(3000)):
        style, n, bins, rev, verts, nops = gen_history(rng, maxp, 12)
        kind = rng.random()
        if kind < 0.4:
            fverts = [[[float(c) for c in p] for p in v] for v in verts]
        elif kind < 0.75:
            fverts = [[[rng.uniform(-100, 100) for _ in range(2)] for _ in range(2)] for v in verts]
        else:                        # magnitudes far from the scale of the extent: 1e6 .. 1e12 offsets, small or large spread
            off = [rng.choice([-1, 1]) * 10.0 ** rng.uniform(6, 12) for _ in range(2)]
            spread = 10.0 ** rng.uniform(0, 9)
            fverts = [[[off[i] + rng.uniform(-spread, spread) for i in range(2)] for _ in range(2)] for v in verts]
        run_history(ctx, sg, fverts, bins, rev, random_plan(rng, fverts, n, rev, nops, style, False), False, lines, metas, 'float')

    ctx.notes.append(f'exact histories compared with the model: {len(metas)}')
    ctx.notes.append(f'zero-extent inputs generated and kept out of the oracle: {getattr(ctx, "c13_zero_extent", 0)}')
    ctx.notes.append('follow-up measurement: 1.7e5 queries on floats with offsets 1e6..1e12 and on int / integer-float near ties '
                     '(zero tolerance whenever all squared distances are exactly representable): no flag on the unchanged code')
    ctx.notes.append('float tolerances measured on 1.25e5 float queries: with the cell-ambiguity band of `ambiguous` and zero '
                     'distance slack every remaining flag had a relative squared-distance gap <= 3e-16; with FLOAT_REL = 1e-9 '
                     'no flag at all')

    # =================================================================================================
    # ---- the SOURCE-REGENERATED class (translator: classes, nested in-place updates, comprehensions): gen_stream below
    gen_stream(ctx, sg, lines)
    # ======== "sitecov" input stream - self-contained, implemented at the end of this file; keep this call last ========
    _sitecov_tail(ctx)


# Generated-code stream: Gen.grid_Index_init / _find_adjacents / _nearest / _remove_path (lean/Plotink/Gen/grid_Index.lean,
# regenerated from spatial_grid.py on every run, with Gen.square_dist from plot_utils.py - the definitions the C13_gen_*
# theorems are about) against the real class on the exact histories of this run: every `nearest` answer and the WHOLE
# final instance (grid, adjacents, lookup, path_count, vertices, reverse, bin sizes, xmin, ymin, bins_per_side) must be
# identical - Fractions under Rounding.exact, and the same histories with the coordinates converted to doubles under
# Rounding.ieee, every float bit for bit.
GEN_FUNCTIONS = ['grid_Index', 'square_dist']
TRUSTED = TRUSTED + ['Gen.grid_Index_* are regenerated from spatial_grid.py on every run (C13_gen_* theorems); not verified, validated by '
                     'the generated-code stream of this run: the translator (classes as tagged field tuples, nested in-place '
                     'updates as rebinding, comprehensions, math.inf as sentinels of the extended comparisons) and the Py.Val '
                     'library; Rounding.ieee as binary64']


def _g13_val(v):
    from .common import pyval, enc_str
    if isinstance(v, F):
        return 'f' + frac_str(v)
    if isinstance(v, float) and v in (math.inf, -math.inf):
        return 's' + enc_str('inf' if v > 0 else '-inf')
    if isinstance(v, (list, tuple)):
        return '(' + ' '.join(_g13_val(x) for x in v) + ')'
    return pyval(v)


def _g13_arg(v):
    if isinstance(v, (list, tuple)):
        return '[' + ','.join(_g13_arg(x) for x in v) + ']'
    return _g13_val(v)


def _g13_inst(idx):
    from .common import enc_str
    return '(' + ' '.join(['s' + enc_str('Index')] + [_g13_val(getattr(idx, a)) for a in
                          ('grid', 'adjacents', 'lookup', 'path_count', 'vertices', 'reverse', 'bin_size_x', 'bin_size_y',
                           'xmin', 'ymin', 'bins_per_side')]) + ')'


def gen_stream(ctx, sg, lines):
    if not ctx.driver:
        ctx.notes.append('generated-code stream skipped: no driver')
        return
    import time
    t0 = time.time()
    rng = ctx.rng
    hists = []
    for ln in lines:
        t = ln.split(' ')
        bins, rev, n = int(t[1]), t[2] == '1', int(t[3])
        c = [F(x) for x in t[4:4 + 4 * n]]
        verts = [[[c[4 * k], c[4 * k + 1]], [c[4 * k + 2], c[4 * k + 3]]] for k in range(n)]
        ops, p = [], 4 + 4 * n + 1
        while p < len(t) and t[p] != 'd':
            if t[p] == 'r':
                ops.append((1, int(t[p + 1]))); p += 2
            else:
                ops.append((0, [F(t[p + 1]), F(t[p + 2])])); p += 3
        hists.append((verts, bins, rev, ops))
    cap = ctx.n(2500)
    if len(hists) > cap:
        hists = hists[:100] + rng.sample(hists[100:], max(0, min(len(hists) - 100, cap - 100))) if len(hists) > 100 else hists[:max(cap, 0)]
    jobs = []
    for k, (verts, bins, rev, ops) in enumerate(hists):
        jobs.append(('exact', verts, bins, rev, ops))
        if k % 3 == 0:
            cv = lambda x: float(x)      # noqa
            fv = [[[cv(x) for x in pt] for pt in v] for v in verts]
            if not zero_extent(fv, rev):
                jobs.append(('ieee', fv, bins, rev, [(o, (a if o else [cv(x) for x in a])) for o, a in ops]))
    glines = []
    for kind, verts, bins, rev, ops in jobs:
        glines.append(f"gen grid {'x15' if kind == 'exact' else '15'} {_g13_arg(verts)} {bins} {'True' if rev else 'False'} "
                      + _g13_arg([[o, a] for o, a in ops]))
    outs = ctx.driver.batch(glines)
    n = {'exact': 0, 'ieee': 0}
    bad = {'exact': 0, 'ieee': 0}
    nq = 0
    for (kind, verts, bins, rev, ops), g in zip(jobs, outs):
        inp = {'gen': kind, 'vertices': fmt_verts(verts) if kind == 'exact' else repr(verts), 'bins': bins, 'reverse': rev,
               'history': [['remove', a] if o else ['nearest', [str(x) for x in a]] for o, a in ops]}
        res = []
        try:
            idx = sg.Index([[list(v[0]), list(v[1])] for v in verts], bins, rev)
            for o, a in ops:
                if o:
                    idx.remove_path(a); res.append(None)
                else:
                    res.append(idx.nearest(list(a))); nq += 1
            want = '(' + _g13_val(res) + ' ' + _g13_inst(idx) + ')'
        except Exception as ex:
            want = 'RAISE ' + type(ex).__name__
        n[kind] += 1
        ctx.count(('gen', kind, repr(inp)), 'gen:' + kind, False)
        if g != want and not (want.startswith('RAISE') and 'ERR' in g):
            bad[kind] += 1
            k = next((i for i, (a, b) in enumerate(zip(g, want)) if a != b), 0)
            ctx.disagree(f'Gen.grid_Index (Rounding.{kind}) vs spatial_grid.Index: answers / final instance differ', inp,
                         want[max(0, k - 60):k + 120], g[max(0, k - 60):k + 120])
    ctx.notes.append(f"generated-code stream: Gen.grid_Index vs the real class: {n['exact']} Fraction histories under Rounding.exact "
                     f"({bad['exact']} differ), {n['ieee']} double histories under Rounding.ieee ({bad['ieee']} differ); every nearest "
                     f"answer ({nq}) and the whole final instance compared, floats bit for bit; {time.time() - t0:.1f}s")



# ================================================================================================
# "sitecov" input stream (harness/sitecov.py, DESIGN 3c): the class spatial_grid.Index is instrumented as a whole
# (__init__, find_adjacents, nearest, remove_path); every comparison / truthiness site is driven to lhs == rhs and to
# either side - separately for the first executions of each site in a call - by exact moves on one coordinate of one
# path end or of the query point (Fractions; non-zero extent kept) and on the number of bins (1..6); the histories found
# (build, removals, one query) go through run() itself (real code, Lean model, oracle) and are additionally counted
# under the path 'sitecov'.  Most numeric decisions of this class are taken by floor / min / max, which are not
# comparison sites: the stream covers the distance ties, the index tests and the adjacency tests.
# Self-contained block at the end of the file on purpose (the body of `run` is untouched except for its last line).
# ================================================================================================
def _sitecov_domain(a):
    verts, bins, rev, removes, q = a
    n = len(verts)
    if not (type(bins) is int and 1 <= bins <= 6 and n >= 1 and type(rev) is bool):
        return False
    if not all(type(c) in (int, F) and abs(c) <= 10 ** 6 for v in verts for p in v for c in p) \
            or not all(type(c) in (int, F) and abs(c) <= 10 ** 6 for c in q):
        return False
    if len(set(removes)) != len(removes) or not all(type(k) is int and 0 <= k < n for k in removes):
        return False
    return not zero_extent(verts, rev)


def _sitecov_apply(tw, a):
    verts, bins, rev, removes, q = a
    idx = tw.cls(verts, bins, rev)
    for k in removes:
        idx.remove_path(k)
    return idx.nearest(q)


def _sitecov_rerun(ctx, cases):
    from . import sitecov
    payload = {'violations': [{'input': {'vertices': [[[str(F(c)) for c in p] for p in v] for v in verts], 'bins': bins,
                                         'reverse': rev, 'mode': 'exact',
                                         'history': [['remove', k] for k in removes] + [['query', [str(F(q[0])), str(F(q[1]))]]]}}
                              for (verts, bins, rev, removes, q) in cases]}
    sitecov.rerun_patched(ctx, globals(), over={'scale': 0}, replay=payload, patches={'exhaustive_small': lambda: []})


def _sitecov_plain_verts(rng, n, style=None, rev=None):
    den = rng.choice([97, 1009, 10007])
    g = lambda: F(rng.randint(-40 * den, 40 * den), den)      # noqa: E731
    return [[[g(), g()], [g(), g()]] for _ in range(n)]


def _sitecov_tail(ctx):
    import os
    if getattr(ctx, '_in_sitecov', False) or getattr(ctx, '_only_main', False) or getattr(ctx, 'replay', None) \
            or os.environ.get('SITECOV_OFF'):
        return
    from . import sitecov
    from plotink import spatial_grid as sg
    rng = ctx.rng
    only = bool(os.environ.get('SITECOV_ONLY'))
    seeds = []
    while len(seeds) < 100:
        style, n, bins, rev, verts, _nops = gen_history(rng, 5, 3)
        if only:
            verts = _sitecov_plain_verts(rng, n)
        verts = [[[F(c) for c in p] for p in v] for v in verts]
        if zero_extent(verts, rev):
            continue
        removes = tuple(rng.sample(range(n), rng.choice([0, 0, 1]) if n > 1 else 0))
        e = rng.choice(verts)[rng.randint(0, 1)]
        q = [e[0] + F(rng.randint(-4000, 4000), 1009), e[1] + F(rng.randint(-4000, 4000), 1009)] if (only or rng.random() < 0.7) \
            else [F(e[0]), F(e[1])]
        seeds.append((verts, bins, rev, removes, q))
    fixed = lambda path, v: 'fixed' if path[0] in (2, 3) else None      # noqa: E731  (reverse flag, removal list)
    sitecov.stream(ctx, 'spatial_grid.Index', sg.Index, seeds, rerun=lambda cs: _sitecov_rerun(ctx, cs), apply=_sitecov_apply,
                   moves=sitecov.Moves(kinds=fixed, lo={(1,): 1}, hi={(1,): 6}, domain=_sitecov_domain,
                                       groups=lambda path, v: 'xy'[path[-1]] if path[0] in (0, 4) else None), budget=2000,
                   max_inputs=200)


import os as _os      # noqa: E402
if _os.environ.get('SITECOV_ONLY'):
    # EXPERIMENT ONLY (measures what the sitecov stream finds on its own): the exhaustive stencil histories, the
    # structured vertex shapes (lines, coincident ends), the structured query pool (ends, midpoints, cell borders) and
    # the near-tie generator are disabled; the pinned corpus is read inline by run() and stays
    from . import sitecov as _sc

    def _plain_queries(rng, verts, n, rev, geo, style):
        xmin, ymin, bx, by, bins = geo
        return [[xmin + F(rng.randint(-300, 1300), 1009) * bins * bx, ymin + F(rng.randint(-300, 1300), 1009) * bins * by]
                for _ in range(8)]

    def _plain_near_tie(rng, mode):
        n = rng.randint(2, 5)
        verts = [[[conv(c, mode) for c in p] for p in v] for v in
                 [[[F(rng.randint(-10 ** 6, 10 ** 6)) for _ in range(2)] for _ in range(2)] for _ in range(n)]]
        return verts, rng.choice([1, 2, 3, 4]), rng.random() < 0.5, [('q', [conv(F(rng.randint(-10 ** 6, 10 ** 6)), mode),
                                                                          conv(F(rng.randint(-10 ** 6, 10 ** 6)), mode)])]
    _sc.only_mode(globals(), tail=_sitecov_tail,
                  patches={'exhaustive_small': lambda: [], 'gen_verts': _sitecov_plain_verts, 'gen_queries_exact': _plain_queries,
                           'gen_near_tie': _plain_near_tie},
                  note='exhaustive stencil histories, structured vertex shapes, the structured query pool and the near-tie '
                       'generator are disabled (pinned corpus stays); inputs = unbiased random histories + the sitecov stream')
